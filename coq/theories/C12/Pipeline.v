(* C12 — the invariant carried through GlyphOrderWork::exec: every glyph of the
   source still looks the same and has the same advance; each rewrite, applied to
   any glyph at any time (also to a stale copy of it), keeps the invariant. *)
From Coq Require Import List Permutation Arith Lia Bool NArith QArith.
From FV.C12 Require Import Model Ceq Sem Ops.
Import ListNotations.
Close Scope Q_scope.

Section Pipeline.
  Variables P T : Type.
  Variable tmul : T -> T -> T.
  Variable tid : T.
  Variable act : T -> P -> P.
  Variables tneg tovf tnonid tvary : T -> bool.
  Variable teqb : T -> T -> bool.
  Hypothesis act_mul : forall a b p, act (tmul a b) p = act a (act b p).
  Hypothesis act_id : forall p, act tid p = p.

  Notation glyph := (glyph P T).
  Notation font := (font P T).
  Notation contour := (list P).
  Notation upd := (upd P T).
  Notation res := (@res P T act).
  Notation rcomps := (@rcomps P T act).
  Notation gres := (@gres P T act).
  Notation wf := (@wf P T).
  Notation closed := (@closed P T).
  Notation same_look := (@same_look P T act).
  Notation looks_like := (@looks_like P T act).
  Notation inline_glyph := (inline_glyph P T tmul act tneg tovf).
  Notation flatten_glyph := (flatten_glyph P T tmul tid act tneg tovf teqb).
  Notation decompose := (decompose P T tmul tid act tneg tovf teqb).
  Notation split_simple := (split_simple P T tovf).
  Notation split_composite := (split_composite P T tid tovf).

  Variable r : name -> nat.
  Variable F0 : font.
  Hypothesis wf0 : wf r F0.

  Record inv (F : font) : Prop := {
    inv_wf : wf r F;
    inv_closed : closed F;
    inv_look : forall n, F0 n <> None -> same_look F0 F n;
    inv_meta : forall n g0, F0 n = Some g0 ->
               exists g, F n = Some g /\ g_adv g = g_adv g0 /\ g_export g = g_export g0 }.

  Lemma inv_dom F n : inv F -> F0 n <> None -> F n <> None.
  Proof.
    intros I H. destruct (F0 n) as [g0|] eqn:E; [|congruence].
    destruct (inv_meta F I n g0 E) as (g & Hg & _). congruence.
  Qed.

  Lemma inv_init : closed F0 -> inv F0.
  Proof.
    intro Hc. split; auto.
    - intros n _ cs Hcs. exists cs; split; auto. apply ceqs_refl.
    - intros n g0 H. exists g0; auto.
  Qed.

  Lemma same_look_trans (A B C : font) n : same_look A B n -> same_look B C n -> same_look A C n.
  Proof.
    intros H1 H2 cs Hcs. destruct (H1 cs Hcs) as (cs1 & Hr1 & E1). destruct (H2 cs1 Hr1) as (cs2 & Hr2 & E2).
    exists cs2; split; auto. eapply ceqs_trans; eauto.
  Qed.

  (* the look of a glyph of the source, read off any font that satisfies the invariant *)
  Lemma inv_look_back F n cs : inv F -> F0 n <> None -> res F n cs -> exists cs0, res F0 n cs0 /\ ceqs cs0 cs.
  Proof.
    intros I Hn Hcs. destruct (res_total P T act r F0 wf0 n) as (cs0 & H0).
    destruct (inv_look F I n Hn cs0 H0) as (cs1 & H1 & E). rewrite (res_fun P T act F n cs cs1 Hcs H1). eauto.
  Qed.

  (* x is a glyph of the current font and g a glyph value that may stand for it:
     it looks the same, its components are lower in rank and exist, and it has
     the same advance and export flag *)
  Definition version (F : font) (x : name) (g : glyph) : Prop :=
    looks_like F x g /\
    (forall c t, In (c, t) (g_comps g) -> r c < r x /\ F c <> None) /\
    exists gx, F x = Some gx /\ g_adv g = g_adv gx /\ g_export g = g_export gx.

  Lemma version_current F x g : inv F -> F x = Some g -> version F x g.
  Proof.
    intros I H. split; [|split].
    - intros cs Hcs. apply res_unfold in Hcs. rewrite H in Hcs. exists cs; split; auto using ceqs_refl.
    - intros c t Hin. split; [eapply (inv_wf F I); eauto|eapply (inv_closed F I); eauto].
    - exists g; auto.
  Qed.

  (* a copy of glyph x taken from an earlier font *)
  Lemma version_stale F2 F x g :
    inv F2 -> inv F -> (forall n, F2 n <> None -> F0 n <> None) -> F2 x = Some g -> version F x g.
  Proof.
    intros I2 I Hdom Hx.
    assert (F0 x <> None) as Hx0 by (apply Hdom; congruence).
    assert (forall c t, In (c, t) (g_comps g) -> F0 c <> None) as Hc0.
    { intros c t Hin. apply Hdom. eapply (inv_closed F2 I2); eauto. }
    split; [|split].
    - intros cs Hcs.
      destruct (inv_look_back F x cs I Hx0 Hcs) as (cs0 & H0 & E0).
      destruct (inv_look F2 I2 x Hx0 cs0 H0) as (cs2 & H2 & E2).
      apply res_unfold in H2. rewrite Hx in H2.
      destruct (gres_cong P T act F2 F g) with (cs := cs2) as (cs3 & H3 & E3); auto.
      + intros c t Hin a2 Ha2.
        destruct (inv_look_back F2 c a2 I2 (Hc0 c t Hin) Ha2) as (a0 & Ha0 & Ea0).
        destruct (inv_look F I c (Hc0 c t Hin) a0 Ha0) as (a & Ha & Ea).
        exists a; split; auto. eapply ceqs_trans; [apply ceqs_sym; exact Ea0|exact Ea].
      + exists cs3; split; auto.
        eapply ceqs_trans; [apply ceqs_sym; exact E0|]. eapply ceqs_trans; eauto.
    - intros c t Hin. split; [eapply (inv_wf F2 I2); eauto|eapply inv_dom; eauto].
    - destruct (F0 x) as [g0|] eqn:E0; [|congruence].
      destruct (inv_meta F2 I2 x g0 E0) as (g2 & Hg2 & Ha2 & He2).
      destruct (inv_meta F I x g0 E0) as (gx & Hgx & Hax & Hex).
      assert (g2 = g) by congruence; subst g2. exists gx; repeat split; congruence.
  Qed.

  (* ---- the two kinds of change ----------------------------------------------- *)
  Lemma inv_replace F x g' :
    inv F -> version F x g' -> inv (upd F x g').
  Proof.
    intros I (Hlook & Hcomps & gx & Hx & Hadv & Hexp). split.
    - apply replace_wf; [apply (inv_wf F I)|]. intros c t Hin. apply (Hcomps c t Hin).
    - apply replace_closed; [apply (inv_closed F I)|]. intros c t Hin. apply (Hcomps c t Hin).
    - intros n Hn. eapply same_look_trans; [apply (inv_look F I n Hn)|].
      apply (replace_same_look P T act r F x g'); auto; [apply (inv_wf F I)|].
      intros c t Hin. apply (Hcomps c t Hin).
    - intros n g0 Hn. destruct (inv_meta F I n g0 Hn) as (g & Hg & Ha & He).
      destruct (name_eqb n x) eqn:E.
      + apply name_eqb_eq in E; subst n. exists g'. rewrite upd_same. repeat split; congruence.
      + apply name_eqb_neq in E. exists g. rewrite upd_other; auto.
  Qed.

  Lemma inv_fresh F nf s :
    inv F -> F nf = None -> g_comps s = [] -> inv (upd F nf s).
  Proof.
    intros I Hnf Hs. split.
    - apply replace_wf; [apply (inv_wf F I)|]. rewrite Hs. intros c t [].
    - apply replace_closed; [apply (inv_closed F I)|]. rewrite Hs. intros c t [].
    - intros n Hn cs Hcs. destruct (inv_look F I n Hn cs Hcs) as (cs1 & H1 & E1).
      exists cs1; split; auto. apply fresh_res; auto; [apply (inv_closed F I)|eapply inv_dom; eauto].
    - intros n g0 Hn. destruct (inv_meta F I n g0 Hn) as (g & Hg & Ha & He).
      exists g. rewrite upd_other; auto. congruence.
  Qed.

  Lemma version_op F x g g' :
    version F x g ->
    (forall cs, gres F g cs -> exists cs', gres F g' cs' /\ ceqs cs cs') ->
    (forall c t, In (c, t) (g_comps g') -> r c < r x /\ F c <> None) ->
    g_adv g' = g_adv g -> g_export g' = g_export g ->
    version F x g'.
  Proof.
    intros (Hlook & _ & gx & Hx & Ha & He) Hop Hcomps Ha' He'. split; [|split; auto].
    - intros cs Hcs. destruct (Hlook cs Hcs) as (cs1 & H1 & E1). destruct (Hop cs1 H1) as (cs2 & H2 & E2).
      exists cs2; split; auto. eapply ceqs_trans; eauto.
    - exists gx; repeat split; congruence.
  Qed.

  (* ---- the four rewrites ------------------------------------------------------ *)
  Lemma inv_inline F x g : inv F -> version F x g -> inv (upd F x (inline_glyph F g)).
  Proof.
    intros I V. apply inv_replace; auto. eapply version_op; [exact V| | |reflexivity|reflexivity].
    - intros cs Hcs. apply (inline_looks P T tmul act tneg tovf act_mul); auto.
    - destruct V as (_ & Hc & _). intros c t Hin. simpl in Hin. split.
      + eapply (inline_comps_rank P T tmul act tneg r F (r x)); [apply (inv_wf F I)| |exact Hin].
        intros c' t' Hin'. apply (Hc c' t' Hin').
      + eapply (inline_comps_defined P T tmul act tneg F); [apply (inv_closed F I)| |exact Hin].
        intros c' t' Hin'. apply (Hc c' t' Hin').
  Qed.

  Lemma inv_decompose fuel F x g g' :
    inv F -> version F x g -> decompose fuel F g = Some (g', false) -> inv (upd F x g').
  Proof.
    intros I V H. apply inv_replace; auto.
    assert (g_comps g' = [] /\ g_adv g' = g_adv g /\ g_export g' = g_export g) as (Hc & Ha & He).
    { unfold Model.decompose in H. destruct (bfs _ _ _ _ _ _ _ _ _ _ _ _) as [[k d]|]; [|discriminate].
      inversion H; subst; simpl; auto. }
    eapply version_op; [exact V| | |exact Ha|exact He].
    - intros cs Hcs. eapply (decompose_looks P T tmul tid act tneg tovf teqb act_mul act_id); eauto.
    - rewrite Hc. intros c t [].
  Qed.

  Lemma inv_flatten fuel F x g g' :
    inv F -> version F x g -> flatten_glyph fuel F g = Some (g', false) -> inv (upd F x g').
  Proof.
    intros I V H. apply inv_replace; auto.
    destruct (flatten_shape P T tmul tid act tneg tovf teqb fuel F g g' false H) as (Ha & He & Hs).
    eapply version_op; [exact V| | |exact Ha|exact He].
    - intros cs Hcs. eapply (flatten_looks P T tmul tid act tneg tovf teqb act_mul act_id); eauto.
    - destruct V as (_ & Hc & _). destruct Hs as [->|[Hn|(lost & Es)]].
      + exact Hc.
      + rewrite Hn. intros c t [].
      + intros c t Hin. split.
        * eapply (flat_rank P T tmul r F (r x) fuel (inv_wf F I) _ _ _ _ _ Es); [| |exact Hin].
          -- intros c' t' Hin'. apply (Hc c' t' Hin').
          -- intros c' t' [].
        * eapply (flat_defined P T tmul F fuel _ _ _ _ _ Es); [|exact Hin]. intros c' t' [].
  Qed.

  Lemma inv_split F x g nf :
    inv F -> version F x g -> F nf = None -> r nf < r x ->
    inv (upd (upd F nf (split_simple g)) x (split_composite g nf)).
  Proof.
    intros I V Hnf Hr.
    assert (inv (upd F nf (split_simple g))) as I1 by (apply inv_fresh; auto).
    destruct V as (Hlook & Hc & gx & Hx & Ha & He).
    assert (x <> nf) as Hne by congruence.
    apply inv_replace; auto. split; [|split].
    - intros cs Hcs.
      destruct (res_total P T act r F (inv_wf F I) x) as (cs' & Hcs').
      assert (res (upd F nf (split_simple g)) x cs') as Hcs1.
      { apply fresh_res; auto; [apply (inv_closed F I)|congruence]. }
      rewrite (res_fun P T act _ x cs cs' Hcs Hcs1).
      destruct (Hlook cs' Hcs') as (cs1 & H1 & E1).
      destruct (split_looks P T tid act tovf act_id F g nf cs1) as (cs2 & H2 & E2); auto.
      { apply (inv_closed F I). } { intros c t Hin. apply (Hc c t Hin). }
      exists cs2; split; auto. eapply ceqs_trans; eauto.
    - intros c t Hin. simpl in Hin. apply in_app_or in Hin as [Hin|[Heq|[]]].
      + destruct (Hc c t Hin) as (Hrk & Hd). split; auto.
        destruct (name_eqb c nf) eqn:E; [apply name_eqb_eq in E; subst; now rewrite upd_same|].
        apply name_eqb_neq in E. now rewrite upd_other.
      + inversion Heq; subst. split; auto. now rewrite upd_same.
    - exists gx. rewrite upd_other; auto.
  Qed.

  (* ===== GlyphOrderWork::exec is made of such changes ============================ *)
  Notation st := (st P T).
  Notation apply_convert := (apply_convert P T tmul tid act tneg tovf teqb).
  Notation apply_move := (apply_move P T tid tovf).
  Notation fix_loop := (fix_loop P T tmul tid act tneg tovf teqb).
  Notation drop_unretained := (drop_unretained P T tmul tid act tneg tovf teqb).
  Notation convert_if := (convert_if P T tmul tid act tneg tovf teqb).
  Notation flatten_step := (flatten_step P T tmul tid act tneg tovf teqb).
  Notation optional_transforms := (optional_transforms P T tmul tid act tneg tovf tnonid teqb).
  Notation inline_step := (inline_step P T tmul act tneg tovf).
  Notation inline_all := (inline_all P T tmul act tneg tovf).
  Notation process := (process P T tmul tid act tneg tovf tnonid tvary teqb).
  Notation todo_of := (todo_of P T tvary).

  (* the source has no glyph under a derived name, and derived names rank lowest *)
  Hypothesis der_free : forall id i, F0 (Der id i) = None.
  Hypothesis der_low : forall id i n, F0 n <> None -> r (Der id i) < r n.

  Definition is_der (n : name) : Prop := exists id i, n = Der id i.
  Lemma derive_is_der n i : is_der (derive n i).
  Proof. destruct n; simpl; unfold is_der; eauto. Qed.

  (* every glyph is a source glyph (possibly rewritten) *)
  Definition dsub (F : font) : Prop := forall n, F n <> None -> F0 n <> None.

  Record good (s : st) : Prop := {
    good_lossless : st_lossy s = false;
    good_inv : inv (st_font s);
    good_dom : forall n, st_font s n <> None -> F0 n <> None \/ is_der n;
    good_der : forall n, is_der n -> st_font s n <> None -> In n (st_order s) }.

  Lemma dsub_upd F x g : dsub F -> F x <> None -> dsub (upd F x g).
  Proof.
    intros H Hx n Hn. destruct (name_eqb n x) eqn:E.
    - apply name_eqb_eq in E; subst; auto.
    - apply name_eqb_neq in E. rewrite upd_other in Hn; auto.
  Qed.

  (* ---- prune ------------------------------------------------------------------ *)
  Lemma filter_all {A} (f : A -> bool) l : (forall x, In x l -> f x = true) -> filter f l = l.
  Proof.
    induction l as [|a l IH]; intro H; simpl; auto.
    rewrite (H a (or_introl eq_refl)). f_equal. apply IH. intros; apply H; now right.
  Qed.
  Lemma prune_glyph_closed (F : font) g :
    (forall c t, In (c, t) (g_comps g) -> F c <> None) -> prune_glyph P T F g = g.
  Proof.
    intro H. unfold prune_glyph. rewrite filter_all; [now destruct g|].
    intros [c t] Hin. simpl. specialize (H c t Hin). destruct (F c); congruence.
  Qed.

  Lemma prune_inv all : closed F0 -> inv (prune P T F0 all) /\ dsub (prune P T F0 all).
  Proof.
    intro Hc. unfold prune.
    assert (forall F, inv F /\ dsub F ->
            inv (fold_left (fun F' n => match F0 n with Some g => upd F' n (prune_glyph P T F0 g) | None => F' end) all F)
            /\ dsub (fold_left (fun F' n => match F0 n with Some g => upd F' n (prune_glyph P T F0 g) | None => F' end) all F)) as H.
    { induction all as [|n t IH]; intros F HF; simpl; auto.
      apply IH. destruct HF as (I & D). destruct (F0 n) as [g|] eqn:E; auto.
      rewrite prune_glyph_closed by (intros c t0 Hin; eapply Hc; eauto).
      split.
      - apply inv_replace; auto. apply (version_stale F0 F n g); auto using inv_init.
      - apply dsub_upd; auto. eapply inv_dom; eauto. congruence. }
    apply H. split; [apply inv_init; auto|intros n Hn; exact Hn].
  Qed.

  (* ---- non-export inlining ---------------------------------------------------- *)
  Lemma inline_step_inv F n : inv F /\ dsub F -> inv (inline_step F n) /\ dsub (inline_step F n).
  Proof.
    intros (I & D). unfold Model.inline_step. destruct (F n) as [g|] eqn:E; auto. split.
    - apply inv_inline; auto. apply version_current; auto.
    - apply dsub_upd; auto. congruence.
  Qed.
  Lemma inline_all_inv fuel F all : inv F /\ dsub F -> inv (inline_all fuel F all) /\ dsub (inline_all fuel F all).
  Proof.
    unfold Model.inline_all. generalize (depth_order P T fuel F all). intro l. revert F.
    induction l as [|n t IH]; intros F HF; simpl; auto. apply IH. apply inline_step_inv; auto.
  Qed.

  (* ---- folds that may fail ---------------------------------------------------- *)
  Lemma fold_opt_mono (f : st -> name -> option st) l :
    (forall s n s', f s n = Some s' -> st_lossy s = true -> st_lossy s' = true) ->
    forall s s', fold_opt f l s = Some s' -> st_lossy s = true -> st_lossy s' = true.
  Proof.
    intro Hm. induction l as [|n t IH]; intros s s' H Hl; simpl in H.
    - inversion H; subst; auto.
    - destruct (f s n) as [s1|] eqn:E; [|discriminate]. eapply IH; eauto.
  Qed.
  Lemma fold_opt_good (f : st -> name -> option st) l :
    (forall s n s', f s n = Some s' -> st_lossy s = true -> st_lossy s' = true) ->
    (forall s n s', good s -> f s n = Some s' -> st_lossy s' = false -> good s') ->
    forall s s', good s -> fold_opt f l s = Some s' -> st_lossy s' = false -> good s'.
  Proof.
    intros Hm Hg. induction l as [|n t IH]; intros s s' G H Hl; simpl in H.
    - inversion H; subst; auto.
    - destruct (f s n) as [s1|] eqn:E; [|discriminate].
      assert (st_lossy s1 = false) as Hl1.
      { destruct (st_lossy s1) eqn:E1; auto. rewrite (fold_opt_mono f t Hm s1 s' H E1) in Hl. discriminate. }
      eapply IH; [|exact H|exact Hl]. eapply Hg; eauto.
  Qed.

  (* ---- conversion to contours --------------------------------------------------- *)
  Lemma apply_convert_mono fuel s n g s' : apply_convert fuel s n g = Some s' -> st_lossy s = true -> st_lossy s' = true.
  Proof.
    unfold Model.apply_convert. destruct (decompose fuel (st_font s) g) as [[g' d]|]; [|discriminate].
    intros H Hl. inversion H; subst; simpl. now rewrite Hl.
  Qed.
  Lemma apply_convert_good fuel s n g s' :
    good s -> version (st_font s) n g -> apply_convert fuel s n g = Some s' -> st_lossy s' = false -> good s'.
  Proof.
    intros G V H Hl. unfold Model.apply_convert in H.
    destruct (decompose fuel (st_font s) g) as [[g' d]|] eqn:E; [|discriminate].
    inversion H; subst; simpl in *. apply orb_false_iff in Hl as (Hls & ->).
    assert (st_font s n <> None) as Hn by (destruct V as (_ & _ & gx & Hx & _); congruence).
    split; simpl.
    - now rewrite Hls.
    - eapply inv_decompose; eauto. apply (good_inv s G).
    - intros m Hm. destruct (name_eqb m n) eqn:Em.
      + apply name_eqb_eq in Em; subst. apply (good_dom s G); auto.
      + apply name_eqb_neq in Em. rewrite upd_other in Hm; auto. apply (good_dom s G); auto.
    - intros m Hd Hm. apply (good_der s G); auto. destruct (name_eqb m n) eqn:Em.
      + apply name_eqb_eq in Em; subst; auto.
      + apply name_eqb_neq in Em. rewrite upd_other in Hm; auto.
  Qed.

  Lemma convert_if_mono fuel p s n s' : convert_if fuel p s n = Some s' -> st_lossy s = true -> st_lossy s' = true.
  Proof.
    unfold Model.convert_if. destruct (st_font s n) as [g|]; [|discriminate].
    destruct (p g); [apply apply_convert_mono|]. intros H; inversion H; subst; auto.
  Qed.
  Lemma convert_if_good fuel p s n s' :
    good s -> convert_if fuel p s n = Some s' -> st_lossy s' = false -> good s'.
  Proof.
    unfold Model.convert_if. intros G H Hl. destruct (st_font s n) as [g|] eqn:E; [|discriminate].
    destruct (p g).
    - eapply apply_convert_good; eauto. apply version_current; auto. apply (good_inv s G).
    - inversion H; subst; auto.
  Qed.
  Lemma drop_unretained_mono fuel s n s' : drop_unretained fuel s n = Some s' -> st_lossy s = true -> st_lossy s' = true.
  Proof.
    unfold Model.drop_unretained. destruct (st_font s n) as [g|]; [|discriminate].
    destruct (existsb _ _); [apply apply_convert_mono|]. intros H; inversion H; subst; auto.
  Qed.
  Lemma drop_unretained_good fuel s n s' :
    good s -> drop_unretained fuel s n = Some s' -> st_lossy s' = false -> good s'.
  Proof.
    unfold Model.drop_unretained. intros G H Hl. destruct (st_font s n) as [g|] eqn:E; [|discriminate].
    destruct (existsb _ _).
    - eapply apply_convert_good; eauto. apply version_current; auto. apply (good_inv s G).
    - inversion H; subst; auto.
  Qed.

  (* ---- flattening --------------------------------------------------------------- *)
  Lemma flatten_step_mono fuel s n s' : flatten_step fuel s n = Some s' -> st_lossy s = true -> st_lossy s' = true.
  Proof.
    unfold Model.flatten_step. destruct (st_font s n) as [g|]; [|discriminate].
    destruct (flatten_glyph fuel (st_font s) g) as [[g' d]|]; [|discriminate].
    intros H Hl; inversion H; subst; simpl. now rewrite Hl.
  Qed.
  Lemma flatten_step_good fuel s n s' :
    good s -> flatten_step fuel s n = Some s' -> st_lossy s' = false -> good s'.
  Proof.
    unfold Model.flatten_step. intros G H Hl. destruct (st_font s n) as [g|] eqn:E; [|discriminate].
    destruct (flatten_glyph fuel (st_font s) g) as [[g' d]|] eqn:Ef; [|discriminate].
    inversion H; subst; simpl in *. apply orb_false_iff in Hl as (Hls & ->).
    split; simpl.
    - now rewrite Hls.
    - eapply inv_flatten; eauto; [apply (good_inv s G)|]. apply version_current; auto. apply (good_inv s G).
    - intros m Hm. destruct (name_eqb m n) eqn:Em.
      + apply name_eqb_eq in Em; subst. apply (good_dom s G); congruence.
      + apply name_eqb_neq in Em. rewrite upd_other in Hm; auto. apply (good_dom s G); auto.
    - intros m Hd Hm. apply (good_der s G); auto. destruct (name_eqb m n) eqn:Em.
      + apply name_eqb_eq in Em; subst; congruence.
      + apply name_eqb_neq in Em. rewrite upd_other in Hm; auto.
  Qed.

  Lemma optional_transforms_good fuel fl s s' :
    good s -> optional_transforms fuel fl s = Some s' -> st_lossy s' = false -> good s'.
  Proof.
    unfold Model.optional_transforms. intros G H Hl.
    assert (forall p l s0 s1, good s0 -> fold_opt (convert_if fuel p) l s0 = Some s1 -> st_lossy s1 = false -> good s1) as Hconv.
    { intros p l s0 s1 G0 H0 Hl0.
      apply (fold_opt_good (convert_if fuel p) l (convert_if_mono fuel p)
               (fun a n b Ga Hab Hb => convert_if_good fuel p a n b Ga Hab Hb) s0 s1 G0 H0 Hl0). }
    assert (forall l s0 s1, good s0 -> fold_opt (flatten_step fuel) l s0 = Some s1 -> st_lossy s1 = false -> good s1) as Hflat.
    { intros l s0 s1 G0 H0 Hl0.
      apply (fold_opt_good (flatten_step fuel) l (flatten_step_mono fuel)
               (fun a n b Ga Hab Hb => flatten_step_good fuel a n b Ga Hab Hb) s0 s1 G0 H0 Hl0). }
    destruct (fl_decompose fl); [exact (Hconv _ _ _ _ G H Hl)|].
    destruct (fl_decompose_tr fl).
    - destruct (fold_opt (convert_if fuel (has_nonidentity_2x2 P T tnonid)) (st_order s) s) as [s1|] eqn:E1; [|discriminate].
      destruct (fl_flatten fl).
      + assert (st_lossy s1 = false) as Hl1.
        { destruct (st_lossy s1) eqn:E; auto.
          rewrite (fold_opt_mono (flatten_step fuel) _ (flatten_step_mono fuel) s1 s' H E) in Hl. discriminate. }
        exact (Hflat _ _ _ (Hconv _ _ _ _ G E1 Hl1) H Hl).
      + inversion H; subst. exact (Hconv _ _ _ _ G E1 Hl).
    - destruct (fl_flatten fl).
      + exact (Hflat _ _ _ G H Hl).
      + inversion H; subst; exact G.
  Qed.

  (* ---- hoisting contours; the fixing loop ------------------------------------- *)
  Lemma name_for_derivative_spec fuel n order : forall i nf,
    name_for_derivative fuel n order i = Some nf -> ~ In nf order /\ is_der nf.
  Proof.
    induction fuel as [|fuel IH]; intros i nf H; [discriminate|]. simpl in H.
    destruct (mem (derive n i) order) eqn:E; [eauto|].
    inversion H; subst. split; [|apply derive_is_der]. intro Hin. apply mem_In in Hin. congruence.
  Qed.

  Lemma apply_move_good fuel s n g s' :
    good s -> version (st_font s) n g -> F0 n <> None -> apply_move fuel s n g = Some s' -> good s'.
  Proof.
    intros G V Hn0 H. unfold Model.apply_move in H.
    destruct (name_for_derivative fuel n (st_order s) 0) as [nf|] eqn:E; [|discriminate].
    inversion H; subst; simpl. destruct (name_for_derivative_spec _ _ _ _ _ E) as (Hnot & Hder).
    assert (st_font s nf = None) as Hnf.
    { destruct (st_font s nf) eqn:E1; auto. exfalso. apply Hnot. apply (good_der s G); auto. congruence. }
    assert (st_font s n <> None) as Hn by (destruct V as (_ & _ & gx & Hx & _); congruence).
    split; simpl.
    - apply (good_lossless s G).
    - apply inv_split; auto; [apply (good_inv s G)|]. destruct Hder as (id & i & ->). apply der_low; auto.
    - intros m Hm. destruct (name_eqb m n) eqn:Em.
      + apply name_eqb_eq in Em; subst. apply (good_dom s G); auto.
      + apply name_eqb_neq in Em. rewrite upd_other in Hm; auto. destruct (name_eqb m nf) eqn:Ef.
        * apply name_eqb_eq in Ef; subst; auto.
        * apply name_eqb_neq in Ef. rewrite upd_other in Hm; auto. apply (good_dom s G); auto.
    - intros m Hd Hm. apply in_or_app. destruct (name_eqb m nf) eqn:Ef.
      + apply name_eqb_eq in Ef; subst. right; now left.
      + apply name_eqb_neq in Ef. left. apply (good_der s G); auto. destruct (name_eqb m n) eqn:Em.
        * apply name_eqb_eq in Em; subst; auto.
        * apply name_eqb_neq in Em. rewrite !upd_other in Hm; auto.
  Qed.

  Section Loop.
    (* the font the work list was made from *)
    Variable F2 : font.
    Hypothesis I2 : inv F2.
    Hypothesis D2 : dsub F2.

    Definition todo_ok (todo : list (gop * name * glyph)) : Prop :=
      forall op n g, In (op, n, g) todo -> F2 n = Some g.

    Lemma fix_loop_good fuel ifuel : forall s todo pending s',
      good s -> todo_ok todo -> fix_loop fuel ifuel s todo pending = Some s' -> st_lossy s' = false -> good s'.
    Proof.
      induction fuel as [|fuel IH]; intros s todo pending s' G Ht H Hl; [discriminate|].
      cbn [Model.fix_loop] in H. destruct todo as [|[[op n] g] rest]; [inversion H; subst; auto|].
      destruct (reaches_pending P T ifuel (st_font s) pending (map fst (g_comps g))) as [[|]|]; [| |discriminate].
      - eapply IH; [exact G| |exact H|exact Hl].
        intros op' n' g' Hin. apply in_app_or in Hin as [Hin|[Heq|[]]]; [eapply Ht; right; eauto|].
        inversion Heq; subst. eapply Ht; left; eauto.
      - assert (F2 n = Some g) as Hg by (eapply Ht; left; eauto).
        assert (version (st_font s) n g) as V by (eapply version_stale; eauto; apply (good_inv s G)).
        assert (todo_ok rest) as Ht' by (intros op' n' g' Hin; eapply Ht; right; eauto).
        destruct op.
        + destruct (apply_convert ifuel s n g) as [s1|] eqn:E1; [|discriminate].
          destruct (st_lossy s1) eqn:El1.
          * (* the flag never goes back *)
            assert (forall f s0 td pd s0', fix_loop f ifuel s0 td pd = Some s0' -> st_lossy s0 = true -> st_lossy s0' = true) as Hm.
            { clear. induction f as [|f IHf]; intros s0 td pd s0' H0 Hl0; [discriminate|].
              cbn [Model.fix_loop] in H0. destruct td as [|[[op n] g] rest]; [inversion H0; subst; auto|].
              destruct (reaches_pending P T ifuel (st_font s0) pd (map fst (g_comps g))) as [[|]|]; [eauto| |discriminate].
              destruct op.
              - destruct (apply_convert ifuel s0 n g) as [s1|] eqn:E1; [|discriminate].
                eapply IHf; [exact H0|]. eapply apply_convert_mono; eauto.
              - destruct (apply_move ifuel s0 n g) as [s1|] eqn:E1; [|discriminate].
                eapply IHf; [exact H0|]. unfold Model.apply_move in E1.
                destruct (name_for_derivative ifuel n (st_order s0) 0); [|discriminate]. inversion E1; subst; auto. }
            rewrite (Hm _ _ _ _ _ H El1) in Hl. discriminate.
          * eapply IH; [|exact Ht'|exact H|exact Hl]. eapply apply_convert_good; eauto.
        + destruct (apply_move ifuel s n g) as [s1|] eqn:E1; [|discriminate].
          eapply IH; [|exact Ht'|exact H|exact Hl]. eapply apply_move_good; eauto.
          apply D2. congruence.
    Qed.

    Lemma todo_of_ok fl order : todo_ok (todo_of fl F2 order).
    Proof.
      induction order as [|n t IH]; intros op m g Hin; simpl in Hin; [contradiction|].
      destruct (F2 n) as [gn|] eqn:E; [|eauto].
      destruct (classify P T tvary fl gn); [|eauto].
      destruct Hin as [Heq|Hin]; [inversion Heq; subst; auto|eauto].
    Qed.
  End Loop.

  (* ---- the whole of it ---------------------------------------------------------- *)
  Theorem process_good fuel fl all order s :
    closed F0 -> process fuel fl F0 all order = Some s -> st_lossy s = false -> good s.
  Proof.
    intros Hc H Hl. unfold Model.process in H.
    destruct (prune_inv all Hc) as (I1 & D1).
    destruct (inline_all_inv fuel _ all (conj I1 D1)) as (I2 & D2).
    set (F2 := inline_all fuel (prune P T F0 all) all) in *.
    set (order' := filter (fun n => match F2 n with Some g => g_export g | None => false end) order) in *.
    destruct (fold_opt (drop_unretained fuel) order' (mkSt F2 order' false)) as [s3|] eqn:E3; [|discriminate].
    destruct (fix_loop fuel fuel s3 (todo_of fl F2 order') _) as [s4|] eqn:E4; [|discriminate].
    assert (good (mkSt F2 order' false)) as G2.
    { split; simpl; auto.
      intros n (id & i & ->) Hn. exfalso. apply D2 in Hn. now rewrite der_free in Hn. }
    (* the flag at the end bounds the flag at every earlier stage *)
    assert (st_lossy s4 = false) as Hl4.
    { destruct (st_lossy s4) eqn:E; auto.
      assert (st_lossy s = true); [|congruence].
      revert H E. clear. unfold Model.optional_transforms. destruct (fl_decompose fl).
      - intros H E. eapply fold_opt_mono; [|exact H|exact E]. intros; eapply convert_if_mono; eauto.
      - destruct (fl_decompose_tr fl).
        + destruct (fold_opt _ _ s4) as [s1|] eqn:E1; [|discriminate]. intros H E.
          assert (st_lossy s1 = true) as E1'.
          { eapply fold_opt_mono; [|exact E1|exact E]. intros; eapply convert_if_mono; eauto. }
          destruct (fl_flatten fl); [|inversion H; subst; auto].
          eapply fold_opt_mono; [|exact H|exact E1']. apply flatten_step_mono.
        + intros H E. destruct (fl_flatten fl); [|inversion H; subst; auto].
          eapply fold_opt_mono; [|exact H|exact E]. apply flatten_step_mono. }
    assert (st_lossy s3 = false) as Hl3.
    { destruct (st_lossy s3) eqn:E; auto. exfalso.
      assert (forall f s0 td pd s0', fix_loop f fuel s0 td pd = Some s0' -> st_lossy s0 = true -> st_lossy s0' = true) as Hm.
      { clear. induction f as [|f IHf]; intros s0 td pd s0' H0 Hl0; [discriminate|].
        cbn [Model.fix_loop] in H0. destruct td as [|[[op n] g] rest]; [inversion H0; subst; auto|].
        destruct (reaches_pending P T fuel (st_font s0) pd (map fst (g_comps g))) as [[|]|]; [eauto| |discriminate].
        destruct op.
        - destruct (apply_convert fuel s0 n g) as [s1|] eqn:E1; [|discriminate].
          eapply IHf; [exact H0|]. eapply apply_convert_mono; eauto.
        - destruct (apply_move fuel s0 n g) as [s1|] eqn:E1; [|discriminate].
          eapply IHf; [exact H0|]. unfold Model.apply_move in E1.
          destruct (name_for_derivative fuel n (st_order s0) 0); [|discriminate]. inversion E1; subst; auto. }
      rewrite (Hm _ _ _ _ _ E4 E) in Hl4. discriminate. }
    assert (good s3) as G3.
    { eapply (fold_opt_good (drop_unretained fuel)); eauto.
      - apply drop_unretained_mono.
      - intros; eapply drop_unretained_good; eauto. }
    assert (good s4) as G4.
    { eapply (fix_loop_good F2 I2 D2); eauto. apply todo_of_ok. }
    eapply optional_transforms_good; eauto.
  Qed.
End Pipeline.
