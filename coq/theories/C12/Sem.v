(* C12 — facts about `resolve`: fuel, the fuel-free relational reading, ranks
   (acyclic component graphs), and the replacement lemma: putting a glyph with
   the same resolved outline in place of another changes no glyph's outline. *)
From Coq Require Import List Permutation Arith Lia Bool NArith QArith.
From FV.C12 Require Import Model Ceq.
Import ListNotations.
Close Scope Q_scope.

Lemma name_eqb_eq a b : name_eqb a b = true <-> a = b.
Proof.
  destruct a as [x|x i], b as [y|y j]; simpl; split; intro H; try discriminate; try congruence.
  - apply N.eqb_eq in H. congruence.
  - inversion H. apply N.eqb_refl.
  - apply andb_true_iff in H as [H1 H2]. apply N.eqb_eq in H1. apply Nat.eqb_eq in H2. congruence.
  - inversion H. rewrite N.eqb_refl, Nat.eqb_refl. reflexivity.
Qed.
Lemma name_eqb_refl a : name_eqb a a = true.
Proof. now apply name_eqb_eq. Qed.
Lemma name_eqb_neq a b : name_eqb a b = false <-> a <> b.
Proof.
  split; intro H.
  - intro E. apply name_eqb_eq in E. congruence.
  - destruct (name_eqb a b) eqn:E; auto. apply name_eqb_eq in E. contradiction.
Qed.
Lemma mem_In n l : mem n l = true <-> In n l.
Proof.
  unfold mem. rewrite existsb_exists. split.
  - intros (x & Hx & E). apply name_eqb_eq in E. now subst.
  - intro H. exists n; split; auto using name_eqb_refl.
Qed.

Section Sem.
  Variables P T : Type.
  Variable act : T -> P -> P.

  Notation glyph := (glyph P T).
  Notation font := (font P T).
  Notation contour := (list P).
  Notation resolve := (resolve P T act).
  Notation resolve_comps := (resolve_comps P T act).
  Notation gsem := (gsem P T act).
  Notation tr := (tr P T act).
  Notation upd := (upd P T).

  Lemma upd_same (F : font) n g : upd F n g n = Some g.
  Proof. unfold Model.upd. now rewrite name_eqb_refl. Qed.
  Lemma upd_other (F : font) n g m : m <> n -> upd F n g m = F m.
  Proof. intro H. unfold Model.upd. apply name_eqb_neq in H. now rewrite H. Qed.

  Lemma tr_rev_comm t (c : contour) : tr t (rev c) = rev (tr t c).
  Proof. unfold Model.tr. apply map_rev. Qed.

  (* ---- fuel ---------------------------------------------------------------- *)
  Lemma resolve_comps_mono (r r' : name -> option (list contour)) cs :
    (forall c t a, In (c, t) cs -> r c = Some a -> r' c = Some a) ->
    forall k, resolve_comps r cs = Some k -> resolve_comps r' cs = Some k.
  Proof.
    induction cs as [|[c t] rest IH]; intros Hr k H; simpl in *; auto.
    destruct (r c) as [a|] eqn:Ec; [|discriminate].
    destruct (resolve_comps r rest) as [b|] eqn:Er; [|discriminate].
    rewrite (Hr c t a (or_introl eq_refl) Ec). rewrite (IH (fun c' t' a' Hin => Hr c' t' a' (or_intror Hin)) b eq_refl).
    exact H.
  Qed.

  Lemma resolve_S f : forall (F : font) n cs, resolve f F n = Some cs -> resolve (S f) F n = Some cs.
  Proof.
    induction f as [|f IH]; intros F n cs H; [discriminate|].
    cbn [Model.resolve] in H. cbn [Model.resolve]. destruct (F n) as [g|]; auto.
    destruct (resolve_comps (resolve f F) (g_comps g)) as [k|] eqn:E; [|discriminate].
    erewrite resolve_comps_mono; [exact H| |exact E]. intros c t a _ Ha. apply IH in Ha. exact Ha.
  Qed.
  Lemma resolve_le f f' (F : font) n cs : f <= f' -> resolve f F n = Some cs -> resolve f' F n = Some cs.
  Proof. intros Hle H0. induction Hle; auto using resolve_S. Qed.

  (* ---- the fuel-free reading ------------------------------------------------ *)
  Definition res (F : font) (n : name) (cs : list contour) : Prop := exists f, resolve f F n = Some cs.

  Inductive rcomps (F : font) : list (name * T) -> list contour -> Prop :=
  | rc_nil : rcomps F [] []
  | rc_cons c t rest a b : res F c a -> rcomps F rest b -> rcomps F ((c, t) :: rest) (map (tr t) a ++ b).

  Definition gres (F : font) (g : glyph) (cs : list contour) : Prop :=
    exists k, rcomps F (g_comps g) k /\ cs = g_contours g ++ k.

  Lemma rcomps_fuel F cs k : rcomps F cs k <-> exists f, resolve_comps (resolve f F) cs = Some k.
  Proof.
    split.
    - induction 1 as [|c t rest a b (f1 & H1) _ (f2 & H2)].
      + exists 0. reflexivity.
      + exists (Nat.max f1 f2). simpl.
        rewrite (resolve_le f1 (Nat.max f1 f2) F c a (Nat.le_max_l _ _) H1).
        erewrite resolve_comps_mono; [reflexivity| |exact H2].
        intros c' t' a' _ Ha. eapply resolve_le; [|exact Ha]. apply Nat.le_max_r.
    - intros (f & H). revert k H. induction cs as [|[c t] rest IH]; intros k H; simpl in H.
      + inversion H. constructor.
      + destruct (resolve f F c) as [a|] eqn:Ec; [|discriminate].
        destruct (resolve_comps (resolve f F) rest) as [b|] eqn:Er; [|discriminate].
        inversion H; subst. constructor; [now exists f|auto].
  Qed.

  Lemma res_unfold F n cs :
    res F n cs <-> match F n with None => cs = [] | Some g => gres F g cs end.
  Proof.
    split.
    - intros ([|f] & H); [discriminate|]. cbn [Model.resolve] in H. destruct (F n) as [g|].
      + destruct (resolve_comps (resolve f F) (g_comps g)) as [k|] eqn:E; [|discriminate].
        inversion H; subst. exists k; split; auto. apply rcomps_fuel. now exists f.
      + now inversion H.
    - destruct (F n) as [g|] eqn:E.
      + intros (k & Hk & ->). apply rcomps_fuel in Hk as (f & Hf). exists (S f). cbn [Model.resolve].
        now rewrite E, Hf.
      + intros ->. exists 1. cbn [Model.resolve]. now rewrite E.
  Qed.

  Lemma gres_gsem F g cs : gres F g cs <-> exists f, gsem f F g = Some cs.
  Proof.
    unfold gres, Model.gsem. split.
    - intros (k & Hk & ->). apply rcomps_fuel in Hk as (f & Hf). exists f. now rewrite Hf.
    - intros (f & H). destruct (resolve_comps (resolve f F) (g_comps g)) as [k|] eqn:E; [|discriminate].
      inversion H; subst. exists k; split; auto. apply rcomps_fuel. now exists f.
  Qed.

  Lemma res_fun F n cs cs' : res F n cs -> res F n cs' -> cs = cs'.
  Proof.
    intros (f & H) (f' & H').
    apply (resolve_le f (Nat.max f f')) in H; [|apply Nat.le_max_l].
    apply (resolve_le f' (Nat.max f f')) in H'; [|apply Nat.le_max_r]. congruence.
  Qed.
  Lemma rcomps_fun F cs : forall k k', rcomps F cs k -> rcomps F cs k' -> k = k'.
  Proof.
    induction cs as [|[c t] rest IH]; intros k k' H H';
      inversion H as [|c0 t0 r0 a b Ha Hb]; inversion H' as [|c1 t1 r1 a' b' Ha' Hb']; subst; auto.
    f_equal; [f_equal; eapply res_fun; eauto|eauto].
  Qed.

  Lemma rcomps_app F cs1 cs2 k1 k2 : rcomps F cs1 k1 -> rcomps F cs2 k2 -> rcomps F (cs1 ++ cs2) (k1 ++ k2).
  Proof.
    induction 1; intros H2; simpl; auto. rewrite <- app_assoc. constructor; auto.
  Qed.
  Lemma rcomps_app_inv F cs1 cs2 k :
    rcomps F (cs1 ++ cs2) k -> exists k1 k2, rcomps F cs1 k1 /\ rcomps F cs2 k2 /\ k = k1 ++ k2.
  Proof.
    revert k. induction cs1 as [|[c t] rest IH]; intros k H; simpl in H.
    - exists [], k. repeat split; auto. constructor.
    - inversion H as [|c0 t0 rest0 a b Ha Hb]; subst. destruct (IH _ Hb) as (k1 & k2 & H1 & H2 & ->).
      exists (map (tr t) a ++ k1), k2. repeat split; auto; [constructor; auto|now rewrite app_assoc].
  Qed.

  (* ---- ranks: the component graph is acyclic ------------------------------- *)
  Definition wf (r : name -> nat) (F : font) : Prop :=
    forall n g, F n = Some g -> forall c t, In (c, t) (g_comps g) -> r c < r n.
  (* every component reference points at an existing glyph *)
  Definition closed (F : font) : Prop :=
    forall n g, F n = Some g -> forall c t, In (c, t) (g_comps g) -> F c <> None.

  Lemma rcomps_total F cs : (forall c t, In (c, t) cs -> exists a, res F c a) -> exists k, rcomps F cs k.
  Proof.
    induction cs as [|[c t] rest IH]; intro H.
    - exists []. constructor.
    - destruct (H c t (or_introl eq_refl)) as (a & Ha).
      destruct IH as (b & Hb); [intros; eapply H; right; eauto|].
      eexists. constructor; eauto.
  Qed.

  Lemma res_total r F : wf r F -> forall n, exists cs, res F n cs.
  Proof.
    intros Hwf n. induction n as [n IH] using (well_founded_induction (well_founded_ltof _ r)).
    destruct (F n) as [g|] eqn:E.
    - destruct (rcomps_total F (g_comps g)) as (k & Hk).
      + intros c t Hin. apply IH. unfold ltof. eapply Hwf; eauto.
      + exists (g_contours g ++ k). apply res_unfold. rewrite E. exists k; auto.
    - exists []. apply res_unfold. now rewrite E.
  Qed.

  (* ---- equivalence of fonts on a glyph ------------------------------------- *)
  Definition same_look (F F' : font) (n : name) : Prop :=
    forall cs, res F n cs -> exists cs', res F' n cs' /\ ceqs cs cs'.

  Lemma rcomps_cong F F' cs :
    (forall c t, In (c, t) cs -> same_look F F' c) ->
    forall k, rcomps F cs k -> exists k', rcomps F' cs k' /\ ceqs k k'.
  Proof.
    induction cs as [|[c t] rest IH]; intros H k Hk; inversion Hk as [|c0 t0 rest0 a b Ha Hb]; subst.
    - exists []; split; [constructor|apply ceqs_refl].
    - destruct (H c t (or_introl eq_refl) a Ha) as (a' & Ha' & Ea).
      destruct (IH (fun c' t' Hin => H c' t' (or_intror Hin)) b Hb) as (b' & Hb' & Eb).
      exists (map (tr t) a' ++ b'); split; [constructor; auto|].
      apply ceqs_app; auto. apply ceqs_map; auto. intros; apply tr_rev_comm.
  Qed.

  Lemma gres_cong F F' g :
    (forall c t, In (c, t) (g_comps g) -> same_look F F' c) ->
    forall cs, gres F g cs -> exists cs', gres F' g cs' /\ ceqs cs cs'.
  Proof.
    intros H cs (k & Hk & ->). destruct (rcomps_cong F F' _ H k Hk) as (k' & Hk' & E).
    exists (g_contours g ++ k'); split; [exists k'; auto|]. apply ceqs_app; auto using ceqs_refl.
  Qed.

  (* ---- the replacement lemma -------------------------------------------------- *)
  (* g' looks, in F, like glyph x does *)
  Definition looks_like (F : font) (x : name) (g' : glyph) : Prop :=
    forall cs, res F x cs -> exists cs', gres F g' cs' /\ ceqs cs cs'.

  Lemma replace_same_look r F x g' :
    wf r F ->
    (forall c t, In (c, t) (g_comps g') -> r c < r x) ->
    looks_like F x g' ->
    forall n, same_look F (upd F x g') n.
  Proof.
    intros Hwf Hrank Hlook n.
    induction n as [n IH] using (well_founded_induction (well_founded_ltof _ r)).
    intros cs Hcs. destruct (name_eqb n x) eqn:Enx.
    - apply name_eqb_eq in Enx; subst n.
      destruct (Hlook cs Hcs) as (cs1 & Hg & E1).
      destruct (gres_cong F (upd F x g') g') with (cs := cs1) as (cs2 & Hg2 & E2); auto.
      { intros c t Hin. apply IH. unfold ltof. eauto. }
      exists cs2; split; [|eapply ceqs_trans; eauto].
      apply res_unfold. now rewrite upd_same.
    - apply name_eqb_neq in Enx. apply res_unfold in Hcs.
      destruct (F n) as [g|] eqn:E.
      + destruct (gres_cong F (upd F x g') g) with (cs := cs) as (cs2 & Hg2 & E2); auto.
        { intros c t Hin. apply IH. unfold ltof. eapply Hwf; eauto. }
        exists cs2; split; auto. apply res_unfold. rewrite upd_other, E; auto.
      + subst cs. exists []; split; [|apply ceqs_refl]. apply res_unfold. rewrite upd_other, E; auto.
  Qed.

  Lemma replace_wf r F x g' :
    wf r F -> (forall c t, In (c, t) (g_comps g') -> r c < r x) -> wf r (upd F x g').
  Proof.
    intros Hwf Hrank n g Hn c t Hin. destruct (name_eqb n x) eqn:E.
    - apply name_eqb_eq in E; subst. rewrite upd_same in Hn. inversion Hn; subst. eauto.
    - apply name_eqb_neq in E. rewrite upd_other in Hn; auto. eapply Hwf; eauto.
  Qed.

  Lemma replace_closed F x g' :
    closed F -> (forall c t, In (c, t) (g_comps g') -> F c <> None) -> closed (upd F x g').
  Proof.
    intros Hc Hg n g Hn c t Hin.
    assert (F c <> None) as Hd.
    { destruct (name_eqb n x) eqn:E.
      - apply name_eqb_eq in E; subst. rewrite upd_same in Hn. inversion Hn; subst. eauto.
      - apply name_eqb_neq in E. rewrite upd_other in Hn; auto. eapply Hc; eauto. }
    destruct (name_eqb c x) eqn:E.
    - apply name_eqb_eq in E; subst. now rewrite upd_same.
    - apply name_eqb_neq in E. now rewrite upd_other.
  Qed.

  (* adding a glyph under a name nothing refers to *)
  Lemma fresh_resolve F nf s :
    closed F -> F nf = None ->
    forall f n cs, F n <> None -> resolve f F n = Some cs -> resolve f (upd F nf s) n = Some cs.
  Proof.
    intros Hc Hnf. induction f as [|f IH]; intros n cs Hn H; [discriminate|].
    cbn [Model.resolve] in *. assert (n <> nf) as Hne by congruence.
    rewrite upd_other; auto. destruct (F n) as [g|] eqn:E; [|congruence].
    destruct (resolve_comps (resolve f F) (g_comps g)) as [k|] eqn:Ek; [|discriminate].
    erewrite resolve_comps_mono; [exact H| |exact Ek].
    intros c t a Hin Ha. apply IH; auto. eapply Hc; eauto.
  Qed.
  Lemma fresh_res F nf s n cs : closed F -> F nf = None -> F n <> None -> res F n cs -> res (upd F nf s) n cs.
  Proof. intros Hc Hnf Hn (f & H). exists f. now apply fresh_resolve. Qed.
  Lemma fresh_rcomps F nf s cs k :
    closed F -> F nf = None -> (forall c t, In (c, t) cs -> F c <> None) -> rcomps F cs k -> rcomps (upd F nf s) cs k.
  Proof.
    intros Hc Hnf Hd H. induction H; constructor.
    - apply fresh_res; auto. eapply Hd; left; eauto.
    - apply IHrcomps. intros; eapply Hd; right; eauto.
  Qed.
End Sem.

Arguments res {P T}.
Arguments rcomps {P T}.
Arguments gres {P T}.
Arguments wf {P T}.
Arguments closed {P T}.
Arguments same_look {P T}.
Arguments looks_like {P T}.
