(* C12 — what storing a component costs: integer offsets, F2Dot14 2x2
   (fontbe/src/glyphs.rs create_component_ref_gid), integer points in the base
   glyph.  Bound on the distance between a point rendered through a chain of
   stored components and the exactly transformed point, per nesting level. *)
From Coq Require Import List ZArith QArith Qround Qabs Lqa Lia.
From FV.C12 Require Import Model.
Import ListNotations.
Open Scope Q_scope.

Lemma abs_le a d : Qabs a <= d <-> -d <= a <= d.
Proof. apply Qabs_Qle_condition. Qed.

Lemma inject_Z_succ z : inject_Z (z + 1) == inject_Z z + 1.
Proof. rewrite inject_Z_plus. reflexivity. Qed.

Lemma ot_round_err x : Qabs (inject_Z (ot_round x) - x) <= 1 # 2.
Proof.
  unfold ot_round. apply abs_le.
  pose proof (Qfloor_le (x + (1 # 2))) as H1. pose proof (Qlt_floor (x + (1 # 2))) as H2.
  rewrite inject_Z_succ in H2. split; lra.
Qed.

Lemma round_half_away_err x : Qabs (inject_Z (round_half_away x) - x) <= 1 # 2.
Proof.
  unfold round_half_away. destruct (Qle_bool 0 x).
  - apply ot_round_err.
  - apply abs_le. pose proof (Qle_ceiling (x - (1 # 2))) as H1. pose proof (Qceiling_lt (x - (1 # 2))) as H2.
    replace (Qceiling (x - (1 # 2)) - 1)%Z with (Qceiling (x - (1 # 2)) + -1)%Z in H2 by lia.
    rewrite inject_Z_plus in H2. change (inject_Z (-1)) with (-1) in H2. split; lra.
Qed.

Lemma sat_i16_err z y :
  -32768 <= y <= 32768 -> Qabs (inject_Z z - y) <= 1 # 2 -> Qabs (inject_Z (sat_i16 z) - y) <= 1.
Proof.
  intros Hy Hz. apply abs_le in Hz. apply abs_le.
  assert (-32769 < z < 32769)%Z as Hzr.
  { split; rewrite Zlt_Qlt.
    - change (inject_Z (-32769)) with (-32769). lra.
    - change (inject_Z 32769) with 32769. lra. }
  unfold sat_i16. destruct (Z.eq_dec z 32768) as [->|Hne].
  - change (inject_Z (Z.max (-32768) (Z.min 32767 32768))) with 32767.
    change (inject_Z 32768) with 32768 in Hz. split; lra.
  - replace (Z.max (-32768) (Z.min 32767 z)) with z by lia. split; lra.
Qed.

Lemma f2dot14_err x : -2 <= x <= 2 -> Qabs (f2dot14 x - x) <= 1 # 16384.
Proof.
  intro Hx. unfold f2dot14.
  assert (-32768 <= x * 16384 <= 32768) as Hy by (split; lra).
  pose proof (sat_i16_err _ _ Hy (round_half_away_err (x * 16384))) as H.
  apply abs_le in H. apply abs_le.
  set (s := inject_Z (sat_i16 (round_half_away (x * 16384)))) in *.
  assert (s / 16384 == s * (1 # 16384)) as E by (unfold Qdiv; reflexivity).
  rewrite E. split; lra.
Qed.

Lemma mul_near a d A D : -A <= a <= A -> -D <= d <= D -> -(A * D) <= a * d <= A * D.
Proof.
  intros Ha Hd.
  assert (0 <= (A - a) * (D - d)) as H1 by (apply Qmult_le_0_compat; lra).
  assert (0 <= (A + a) * (D + d)) as H2 by (apply Qmult_le_0_compat; lra).
  assert (0 <= (A - a) * (D + d)) as H3 by (apply Qmult_le_0_compat; lra).
  assert (0 <= (A + a) * (D - d)) as H4 by (apply Qmult_le_0_compat; lra).
  split; lra.
Qed.

Definition eps : Q := 1 # 16384.

(* one coordinate of one level: a, c the exact coefficients, a', c' the stored
   ones, e the exact offset, e' the stored one *)
Lemma coord_bound a c e a' c' e' x y x' y' delta B Ra Rc :
  Qabs (a' - a) <= eps -> Qabs (c' - c) <= eps -> Qabs (e' - e) <= 1 # 2 ->
  Qabs a' <= Ra -> Qabs c' <= Rc ->
  Qabs x <= B -> Qabs y <= B -> Qabs (x' - x) <= delta -> Qabs (y' - y) <= delta ->
  Qabs ((a' * x' + c' * y' + e') - (a * x + c * y + e)) <= (Ra + Rc) * delta + 2 * eps * B + (1 # 2).
Proof.
  intros Ha Hc He HRa HRc Hx Hy Hdx Hdy.
  apply abs_le in Ha, Hc, He, HRa, HRc, Hx, Hy, Hdx, Hdy. apply abs_le.
  pose proof (mul_near a' (x' - x) Ra delta HRa Hdx) as M1.
  pose proof (mul_near c' (y' - y) Rc delta HRc Hdy) as M2.
  pose proof (mul_near (a' - a) x eps B Ha Hx) as M3.
  pose proof (mul_near (c' - c) y eps B Hc Hy) as M4.
  assert ((a' * x' + c' * y' + e') - (a * x + c * y + e)
          == a' * (x' - x) + c' * (y' - y) + (a' - a) * x + (c' - c) * y + (e' - e)) as E by ring.
  rewrite E. split; lra.
Qed.

Definition in_range (t : qaff) : Prop :=
  (-2 <= qa t <= 2) /\ (-2 <= qb t <= 2) /\ (-2 <= qc t <= 2) /\ (-2 <= qd t <= 2).
(* largest row sum of the stored 2x2: how much the level magnifies an error *)
Definition rows_le (R : Q) (t : qaff) : Prop :=
  Qabs (qa (be_component t)) + Qabs (qc (be_component t)) <= R /\
  Qabs (qb (be_component t)) + Qabs (qd (be_component t)) <= R.

Lemma level_bound t p p' delta B R :
  in_range t -> rows_le R t -> 0 <= delta ->
  Qabs (fst p) <= B -> Qabs (snd p) <= B ->
  Qabs (fst p' - fst p) <= delta -> Qabs (snd p' - snd p) <= delta ->
  Qabs (fst (q_apply (be_component t) p') - fst (q_apply t p)) <= R * delta + 2 * eps * B + (1 # 2) /\
  Qabs (snd (q_apply (be_component t) p') - snd (q_apply t p)) <= R * delta + 2 * eps * B + (1 # 2).
Proof.
  intros (Ha & Hb & Hc & Hd) (R1 & R2) Hdel Hx Hy Hdx Hdy.
  destruct p as [x y], p' as [x' y'].
  unfold q_apply, be_component in *; cbn [fst snd qa qb qc qd qe qf] in *.
  split.
  - eapply Qle_trans.
    + apply (coord_bound (qa t) (qc t) (qe t) _ _ _ x y x' y' delta B
               (Qabs (f2dot14 (qa t))) (Qabs (f2dot14 (qc t)))); auto using f2dot14_err, ot_round_err, Qle_refl.
    + assert ((Qabs (f2dot14 (qa t)) + Qabs (f2dot14 (qc t))) * delta <= R * delta) as M
        by (apply Qmult_le_compat_r; auto).
      lra.
  - eapply Qle_trans.
    + apply (coord_bound (qb t) (qd t) (qf t) _ _ _ x y x' y' delta B
               (Qabs (f2dot14 (qb t))) (Qabs (f2dot14 (qd t)))); auto using f2dot14_err, ot_round_err, Qle_refl.
    + assert ((Qabs (f2dot14 (qb t)) + Qabs (f2dot14 (qd t))) * delta <= R * delta) as M
        by (apply Qmult_le_compat_r; auto).
      lra.
Qed.

(* ---- a chain of nested components, outermost first ------------------------------- *)
Fixpoint chain_exact (ts : list qaff) (p : Q * Q) : Q * Q :=
  match ts with [] => p | t :: r => q_apply t (chain_exact r p) end.
(* what a rasteriser computes from the stored data: the base glyph's point was
   rounded to integers, every level uses its stored component *)
Fixpoint chain_stored (ts : list qaff) (p : Q * Q) : Q * Q :=
  match ts with
  | [] => (inject_Z (ot_round (fst p)), inject_Z (ot_round (snd p)))
  | t :: r => q_apply (be_component t) (chain_stored r p)
  end.
(* what full decomposition stores: the exact point, rounded once *)
Definition chain_decomposed (ts : list qaff) (p : Q * Q) : Q * Q :=
  (inject_Z (ot_round (fst (chain_exact ts p))), inject_Z (ot_round (snd (chain_exact ts p)))).

Fixpoint coords_in (B : Q) (ts : list qaff) (p : Q * Q) : Prop :=
  match ts with
  | [] => True
  | t :: r => Qabs (fst (chain_exact r p)) <= B /\ Qabs (snd (chain_exact r p)) <= B /\ coords_in B r p
  end.

Fixpoint chain_err (R B : Q) (n : nat) : Q :=
  match n with O => 1 # 2 | S k => R * chain_err R B k + 2 * eps * B + (1 # 2) end.

Lemma chain_err_nonneg R B n : 0 <= R -> 0 <= B -> 0 <= chain_err R B n.
Proof.
  intros HR HB. induction n; simpl; [lra|].
  assert (0 <= R * chain_err R B n) by (apply Qmult_le_0_compat; auto).
  unfold eps. lra.
Qed.

Lemma chain_bound R B ts p :
  0 <= R -> 0 <= B -> Forall in_range ts -> Forall (rows_le R) ts -> coords_in B ts p ->
  Qabs (fst (chain_stored ts p) - fst (chain_exact ts p)) <= chain_err R B (length ts) /\
  Qabs (snd (chain_stored ts p) - snd (chain_exact ts p)) <= chain_err R B (length ts).
Proof.
  intros HR HB Hr Hrows. induction ts as [|t r IH]; intro Hc; simpl.
  - split; apply ot_round_err.
  - inversion Hr; inversion Hrows; subst. destruct Hc as (Hx & Hy & Hc).
    destruct (IH H2 H6 Hc) as (I1 & I2).
    apply level_bound; auto. apply chain_err_nonneg; auto.
Qed.

(* with no magnifying level the error grows by at most 1/2 + 2 eps B per level *)
Lemma chain_err_linear R B n : 0 <= R <= 1 -> 0 <= B ->
  chain_err R B n <= (1 # 2) + inject_Z (Z.of_nat n) * ((1 # 2) + 2 * eps * B).
Proof.
  intros HR HB. induction n as [|n IH].
  - simpl. change (inject_Z 0) with 0. lra.
  - cbn [chain_err]. rewrite Nat2Z.inj_succ. unfold Z.succ. rewrite inject_Z_plus. change (inject_Z 1) with 1.
    pose proof (chain_err_nonneg R B n (proj1 HR) HB) as Hn.
    assert (R * chain_err R B n <= chain_err R B n) as M.
    { assert (0 <= (1 - R) * chain_err R B n) by (apply Qmult_le_0_compat; lra). lra. }
    unfold eps in *. lra.
Qed.

Lemma stored_vs_decomposed R B ts p :
  0 <= R -> 0 <= B -> Forall in_range ts -> Forall (rows_le R) ts -> coords_in B ts p ->
  Qabs (fst (chain_stored ts p) - fst (chain_decomposed ts p)) <= chain_err R B (length ts) + (1 # 2) /\
  Qabs (snd (chain_stored ts p) - snd (chain_decomposed ts p)) <= chain_err R B (length ts) + (1 # 2).
Proof.
  intros HR HB Hr Hrows Hc. destruct (chain_bound R B ts p HR HB Hr Hrows Hc) as (H1 & H2).
  unfold chain_decomposed; cbn [fst snd].
  pose proof (ot_round_err (fst (chain_exact ts p))) as E1. pose proof (ot_round_err (snd (chain_exact ts p))) as E2.
  apply abs_le in H1, H2, E1, E2. split; apply abs_le; split; lra.
Qed.
