(* C12 — Component handling options never change what a glyph looks like.
   Property theorems only; proofs are in Ceq, Sem, Ops, Pipeline, Quant, Proofs.

   Vocabulary (Model.v, Sem.v, Ceq.v):
     resolve fuel F n      the contours of glyph n of font F, fully resolved through its
                           components (None when the fuel runs out: cyclic graph);
     res act F n cs        exists fuel, resolve fuel F n = Some cs;
     gres act F g cs       the same for a glyph value g whose components are looked up in F;
     ceqs cs cs'           cs' is cs up to the order of the contours and the orientation of
                           each contour (reversal only happens under a negative determinant;
                           the start point is not modelled at all);
     process fuel fl F ..  GlyphOrderWork::exec under option set fl; st_lossy of its result is
                           false when no contour was passed over on the way (see below). *)
From Coq Require Import List Permutation Arith Bool NArith ZArith QArith Qcanon Qabs Lqa.
From FV.C12 Require Import Model Ceq Sem Ops Pipeline Range Locs Quant Proofs.
Import ListNotations.
Close Scope Qc_scope.
Close Scope Q_scope.

(* What the proofs use about transforms: they act on points and the product acts
   as the composition.  kurbo::Affine over exact rationals satisfies it. *)
Definition transform_laws (P T : Type) (tmul : T -> T -> T) (tid : T) (act : T -> P -> P) : Prop :=
  (forall a b p, act (tmul a b) p = act a (act b p)) /\ (forall p, act tid p = p).

Theorem affine_compose_apply : forall (a b : aff) (p : pt),
  aff_act (aff_mul a b) p = aff_act a (aff_act b p).
Proof. exact aff_act_mul. Qed.
Print Assumptions affine_compose_apply.

Theorem affine_laws : transform_laws pt aff aff_mul aff_id aff_act.
Proof. split; [exact aff_act_mul|exact aff_act_id]. Qed.
Print Assumptions affine_laws.

(* the sign of the determinant, which decides contour reversal, is multiplicative *)
Theorem affine_det_multiplicative : forall a b : aff, aff_det (aff_mul a b) = (aff_det a * aff_det b)%Qc.
Proof. exact aff_det_mul. Qed.
Print Assumptions affine_det_multiplicative.

(* ---- the four rewrites, one glyph at a time ----------------------------------------- *)

(* Inlining non-export components (flatten_non_export_components_for_glyph): for
   every font, every glyph and every nesting below it, the resolved contours are
   the same up to order and orientation. *)
Theorem inline_preserves_resolve : forall P T tmul tid act tneg tovf,
  transform_laws P T tmul tid act ->
  forall (F : font P T) (g : glyph P T) cs,
    gres act F g cs ->
    exists cs', gres act F (inline_glyph P T tmul act tneg tovf F g) cs' /\ ceqs cs cs'
                /\ g_adv (inline_glyph P T tmul act tneg tovf F g) = g_adv g.
Proof.
  intros P T tmul tid act tneg tovf (Hm & _) F g cs H.
  destruct (inline_looks P T tmul act tneg tovf Hm F g cs H) as (cs' & H1 & H2). exists cs'; auto.
Qed.
Print Assumptions inline_preserves_resolve.

(* Decomposition (convert_components_to_contours), any depth, whenever its visited
   set never fires (second component of the result false). *)
Theorem decompose_preserves_resolve : forall P T tmul tid act tneg tovf teqb,
  transform_laws P T tmul tid act ->
  forall fuel (F : font P T) (g g' : glyph P T) cs,
    decompose P T tmul tid act tneg tovf teqb fuel F g = Some (g', false) ->
    gres act F g cs ->
    g_comps g' = [] /\ g_adv g' = g_adv g /\ ceqs cs (g_contours g').
Proof.
  intros P T tmul tid act tneg tovf teqb (Hm & Hi) fuel F g g' cs H Hg.
  destruct (decompose_looks P T tmul tid act tneg tovf teqb Hm Hi fuel F g g' cs H Hg) as (cs' & (k & Hk & ->) & E).
  unfold decompose in H. destruct (bfs _ _ _ _ _ _ _ _ _ _ _ _) as [[out d]|]; [|discriminate].
  inversion H; subst; simpl in *. inversion Hk; subst. rewrite app_nil_r in E. auto.
Qed.
Print Assumptions decompose_preserves_resolve.

(* ... and when the visited set does fire, the result still contains nothing but
   contours of the resolved glyph. *)
Theorem decompose_no_spurious_contours : forall P T tmul tid act tneg tovf teqb,
  transform_laws P T tmul tid act ->
  forall fuel (F : font P T) (g g' : glyph P T) d cs,
    decompose P T tmul tid act tneg tovf teqb fuel F g = Some (g', d) ->
    gres act F g cs -> csub (g_contours g') cs.
Proof.
  intros P T tmul tid act tneg tovf teqb (Hm & Hi). intros. eapply decompose_no_spurious; eauto.
Qed.
Print Assumptions decompose_no_spurious_contours.

(* ... and it contains every contour of the resolved glyph at least once: what the
   visited set drops is a repetition of a contour that is there.  (Needs the
   equality test on transforms to be an equality test, and an acyclic graph.) *)
Theorem decompose_loses_no_contour : forall P T tmul tid act tneg tovf teqb,
  transform_laws P T tmul tid act ->
  (forall a b : T, teqb a b = true -> a = b) -> (forall a : T, teqb a a = true) ->
  forall r fuel (F : font P T) (g g' : glyph P T) d cs,
    wf r F ->
    decompose P T tmul tid act tneg tovf teqb fuel F g = Some (g', d) ->
    gres act F g cs -> csub cs (g_contours g').
Proof.
  intros P T tmul tid act tneg tovf teqb (Hm & Hi) He Hr. intros. eapply decompose_covers; eauto.
Qed.
Print Assumptions decompose_loses_no_contour.

Theorem affine_key_equality : (forall a b : aff, aff_eqb a b = true -> a = b) /\ (forall a : aff, aff_eqb a a = true).
Proof. split; [exact aff_eqb_eq|exact aff_eqb_refl]. Qed.
Print Assumptions affine_key_equality.

(* The multiset of contours is NOT preserved in general: two parents reaching
   the same base under the same accumulated transform at the same component
   position are merged by the visited set (key = location, base, transform,
   index).  The companion for inputs outside this class is
   decompose_preserves_resolve. *)
Theorem decompose_multiset_refuted :
  exists (F : qfont) (g g' : qglyph) cs,
    q_decompose 10 F g = Some (g', true) /\ q_gsem 10 F g = Some cs /\
    length cs = 4%nat /\ length (g_contours g') = 2%nat.
Proof.
  exists dup_font, (mk [] [(Src 1, scale (qq 1 2)); (Src 1, scale (qq 1 2))] true).
  destruct (q_decompose 10 dup_font (mk [] [(Src 1, scale (qq 1 2)); (Src 1, scale (qq 1 2))] true)) as [[g' d]|] eqn:E;
    [|vm_compute in E; discriminate].
  destruct (q_gsem 10 dup_font (mk [] [(Src 1, scale (qq 1 2)); (Src 1, scale (qq 1 2))] true)) as [cs|] eqn:E2;
    [|vm_compute in E2; discriminate].
  exists g', cs. vm_compute in E. inversion E; subst. vm_compute in E2. inversion E2; subst.
  repeat split; reflexivity.
Qed.
Print Assumptions decompose_multiset_refuted.

(* Flattening (flatten_glyph, including its decomposition of a glyph whose composed
   2x2 leaves the F2Dot14 range): same resolved contours up to order and
   orientation and same advance, whenever no component with both contours and
   components is walked through and the visited test of the decomposition does
   not fire (second component of the result false).  While the glyph stays a
   composite the list is identical, in the same order (Ops.flat_sem). *)
Theorem flatten_preserves_resolve : forall P T tmul tid act tneg tovf teqb,
  transform_laws P T tmul tid act ->
  forall fuel (F : font P T) (g g' : glyph P T) cs,
    flatten_glyph P T tmul tid act tneg tovf teqb fuel F g = Some (g', false) ->
    gres act F g cs -> (exists cs', gres act F g' cs' /\ ceqs cs cs') /\ g_adv g' = g_adv g.
Proof.
  intros P T tmul tid act tneg tovf teqb (Hm & Hi) fuel F g g' cs H Hg. split.
  - eapply flatten_looks; eauto.
  - eapply flatten_shape; eauto.
Qed.
Print Assumptions flatten_preserves_resolve.

(* flatten_preserves_resolve is a statement about one location, and flatten_glyph
   rewrites a glyph only at the glyph's OWN source locations.  At a location where
   only a nested composite has a source (a brace layer on `mid` in top = [mid],
   mid = [a]) the flattened glyph is what interpolation makes of its flattened
   masters, and that is not what the unflattened glyph resolves to there: with
   both masters of top and mid equal (mid = a + (65,225)) and mid = a + (65,600) at
   the intermediate location, the flattened top = [a + (75,225)] resolves to a
   contour 375 units away from the one of top = [mid + (10,0)].  (Known finding
   flatten-drops-intermediate-master-of-nested-composite; the harness re-observes
   it on the real code.) *)
Theorem flatten_across_locations_refuted :
  exists (Fmaster Fbrace : qfont) (top top' : qglyph) cs cs',
    (* top has the same instance at every location; only mid differs at the brace location *)
    Fmaster (Src 2) = Some top /\ Fbrace (Src 2) = Some top /\ Fmaster (Src 0) = Fbrace (Src 0) /\
    q_flatten 10 Fmaster top = Some (top', false) /\
    q_gsem 10 Fbrace top = Some cs /\ q_gsem 10 Fbrace top' = Some cs' /\ ~ ceqs cs cs'.
Proof.
  set (a := mk [square] [] true).
  set (top := mk [] [(Src 1, shift (qz 1) 10 0)] true).
  set (Fm := font_of [(Src 0, a); (Src 1, mk [] [(Src 0, shift (qz 1) 65 225)] true); (Src 2, top)]).
  set (Fb := font_of [(Src 0, a); (Src 1, mk [] [(Src 0, shift (qz 1) 65 600)] true); (Src 2, top)]).
  exists Fm, Fb, top. eexists; eexists; eexists.
  split; [reflexivity|]. split; [reflexivity|]. split; [reflexivity|].
  split; [vm_compute; reflexivity|]. split; [vm_compute; reflexivity|]. split; [vm_compute; reflexivity|].
  intros (m & Hp & Hf).
  apply Permutation_length_1_inv in Hp. subst m.
  inversion Hf as [|x y l l' Hxy Hr]; subst.
  (* the first point's y coordinate tells the contours apart, in either direction *)
  destruct Hxy as [H|H];
    apply (f_equal (fun c : list pt => match c with p :: _ => Qnum (this (snd p)) | [] => 0%Z end)) in H;
    vm_compute in H; discriminate.
Qed.
Print Assumptions flatten_across_locations_refuted.

(* Hoisting the contours of a mixed glyph into a new component glyph
   (split_glyph / move_contours_to_new_component) under a name that is free. *)
Theorem split_preserves_resolve : forall P T tid act tovf,
  (forall p : P, act tid p = p) ->
  forall (F : font P T) (g : glyph P T) nf cs,
    closed F -> F nf = None -> (forall c t, In (c, t) (g_comps g) -> F c <> None) ->
    gres act F g cs ->
    exists cs', gres act (upd P T F nf (split_simple P T tovf g)) (split_composite P T tid tovf g nf) cs' /\ ceqs cs cs'.
Proof. intros. eapply split_looks; eauto. Qed.
Print Assumptions split_preserves_resolve.

(* the hypotheses of the four theorems are met by a glyph of the example source
   (nesting depth 3, flipped and scaled components, a mixed glyph, a non-export glyph) *)
Example rewrites_nonvacuous :
  let g := mk [] [(Src 2, shift (qz 1) 0 50); (Src 1, scale (qz 1))] true in
  (exists cs, q_gsem 6 ex_font g = Some cs /\ length cs = 4%nat) /\
  (exists g', q_decompose 20 ex_font g = Some (g', false) /\ length (g_contours g') = 4%nat) /\
  (exists g', q_flatten 20 ex_font g = Some (g', true)) /\
  (exists g', q_flatten 20 ex_font (mk [] [(Src 1, scale (qz 1))] true) = Some (g', false)
              /\ g_comps g' = [(Src 0, aff_mul (scale (qz 1)) (shift (qq 3 2) 10 0))]) /\
  g_comps (q_inline ex_font g) = [(Src 2, shift (qz 1) 0 50); (Src 0, aff_mul (scale (qz 1)) (shift (qq 3 2) 10 0))] /\
  ex_font (Der 3 0) = None.
Proof.
  cbv zeta. repeat split.
  - destruct (q_gsem 6 ex_font _) as [cs|] eqn:E; [|vm_compute in E; discriminate].
    exists cs; split; auto. vm_compute in E. inversion E; reflexivity.
  - destruct (q_decompose 20 ex_font _) as [[g' d]|] eqn:E; [|vm_compute in E; discriminate].
    vm_compute in E. inversion E; subst. eexists; split; reflexivity.
  - destruct (q_flatten 20 ex_font _) as [[g' d]|] eqn:E; [|vm_compute in E; discriminate].
    vm_compute in E. inversion E; subst. eexists; reflexivity.
  - destruct (q_flatten 20 ex_font (mk [] [(Src 1, scale (qz 1))] true)) as [[g' d]|] eqn:E; [|vm_compute in E; discriminate].
    vm_compute in E. inversion E; subst. eexists; split; reflexivity.
Qed.

(* ---- a rewritten glyph inside a font -------------------------------------------------- *)
(* Putting, in place of glyph x, any glyph that looks like x and refers only to
   glyphs of lower rank changes the look of NO glyph of the font, at any nesting
   depth above x. *)
Theorem replacement_preserves_all_glyphs : forall P T (act : T -> P -> P) r (F : font P T) x g',
  wf r F ->
  (forall c t, In (c, t) (g_comps g') -> r c < r x) ->
  looks_like act F x g' ->
  forall n cs, res act F n cs -> exists cs', res act (upd P T F x g') n cs' /\ ceqs cs cs'.
Proof. intros P T act r F x g' Hwf Hr Hl n. exact (replace_same_look P T act r F x g' Hwf Hr Hl n). Qed.
Print Assumptions replacement_preserves_all_glyphs.

(* ---- the whole of GlyphOrderWork::exec, every option subset ------------------------------ *)
(* For every source (acyclic, no dangling component, of any size and depth),
   every subset of the four options and every glyph of the source: after
   processing the glyph has the same advance and the same resolved contours, up
   to order and orientation — provided the run reports st_lossy = false. *)
Theorem options_keep_every_glyph : forall P T tmul tid act tneg tovf tnonid tvary teqb,
  transform_laws P T tmul tid act ->
  forall (F0 : font P T) fuel fl all order s,
    source_ok P T F0 ->
    process P T tmul tid act tneg tovf tnonid tvary teqb fuel fl F0 all order = Some s ->
    st_lossy s = false ->
    forall n g0, F0 n = Some g0 ->
      (exists g, st_font s n = Some g /\ g_adv g = g_adv g0 /\ g_export g = g_export g0)
      /\ (forall cs, res act F0 n cs -> exists cs', res act (st_font s) n cs' /\ ceqs cs cs').
Proof. intros P T tmul tid act tneg tovf tnonid tvary teqb (Hm & Hi). intros. eapply process_keeps; eauto. Qed.
Print Assumptions options_keep_every_glyph.

(* Any two option subsets give glyph sets that resolve alike. *)
Theorem option_lattice : forall P T tmul tid act tneg tovf tnonid tvary teqb,
  transform_laws P T tmul tid act ->
  forall (F0 : font P T) fuel fl1 fl2 all order s1 s2,
    source_ok P T F0 ->
    process P T tmul tid act tneg tovf tnonid tvary teqb fuel fl1 F0 all order = Some s1 -> st_lossy s1 = false ->
    process P T tmul tid act tneg tovf tnonid tvary teqb fuel fl2 F0 all order = Some s2 -> st_lossy s2 = false ->
    forall n g0, F0 n = Some g0 ->
      (exists g1 g2, st_font s1 n = Some g1 /\ st_font s2 n = Some g2 /\ g_adv g1 = g_adv g2)
      /\ (forall cs1, res act (st_font s1) n cs1 -> exists cs2, res act (st_font s2) n cs2 /\ ceqs cs1 cs2).
Proof. intros P T tmul tid act tneg tovf tnonid tvary teqb (Hm & Hi). intros. eapply process_options_agree; eauto. Qed.
Print Assumptions option_lattice.

(* the hypotheses are met: a nested, transformed (flipped, scaled), mixed source
   with a non-export glyph processes under all 16 subsets without loss *)
Definition all_flags : list flags :=
  flat_map (fun a => flat_map (fun b => flat_map (fun c => map (fun d => mkFlags a b c d) [false; true]) [false; true]) [false; true]) [false; true].
Example option_lattice_nonvacuous :
  source_ok pt aff ex_font /\
  forallb (fun fl => match q_process 12 fl ex_font ex_names ex_names with
                     | Some s => negb (st_lossy s)
                     | None => false
                     end) all_flags = true /\
  (exists cs, q_resolve 6 ex_font (Src 3) = Some cs /\ length cs = 4%nat).
Proof.
  split; [exact ex_font_ok|split]; [vm_compute; reflexivity|].
  destruct (q_resolve 6 ex_font (Src 3)) as [cs|] eqn:E; [|vm_compute in E; discriminate].
  exists cs; split; auto. vm_compute in E. inversion E; reflexivity.
Qed.

(* ---- where a decomposed glyph gets its sources ------------------------------------------- *)
(* collect_component_locations_nested (whose result ensure_composite_defined_at_component_locations
   turns into sources of the glyph before it is decomposed or inlined) returns exactly the
   locations of the glyph and of every glyph it refers to through ANY number of levels:
   a master that exists only deep in the component graph (an intermediate / brace master of
   a leaf glyph under composites that have none) is never missed, so the decomposed glyph
   has a source there like the builds that keep the components; and no location is invented. *)
Theorem decomposition_locations_transitive : forall (L : Type) fuel (F : lfont L) (g : lglyph L) res,
  collect_component_locations_nested L fuel F g = Some res ->
  forall l, In l res <->
    (In l (lg_locs g) \/
     exists c m gm, In c (lg_comps g) /\ reaches L F c m /\ F m = Some gm /\ In l (lg_locs gm)).
Proof. exact collect_is_transitive_closure. Qed.
Print Assumptions decomposition_locations_transitive.

(* outer -> mid -> leaf, only the leaf has the intermediate location 2: it is collected *)
Example decomposition_locations_nonvacuous :
  let F := lfont_of [ (Src 0, mkL [0; 4; 2]%Z []); (Src 1, mkL [0; 4]%Z [Src 0]); (Src 2, mkL [0; 4]%Z [Src 1]) ] in
  collect_component_locations_nested Z 10 F (mkL [0; 4]%Z [Src 1]) = Some [0; 4; 0; 4; 0; 4; 2]%Z
  /\ reaches Z F (Src 1) (Src 0)
  /\ locs_cover 10 F (Src 2) [0; 2; 4]%Z = true /\ locs_cover 10 F (Src 2) [0; 4]%Z = false.
Proof.
  cbv zeta. repeat split; try reflexivity.
  eapply r_step; [reflexivity|now left|constructor].
Qed.

(* ---- what the backend stores ------------------------------------------------------------ *)
(* Whatever the options and whatever the source's transforms: after processing, no
   glyph of the final glyph order has a component whose 2x2 leaves [-2,2], so the
   backend's saturating F2Dot14 conversion never sees an out-of-range value and
   the hypothesis `in_range` of quantisation_bound holds for every stored
   component.  (Glyphs whose own components overflow are decomposed by the fixing
   loop; flatten_glyph re-tests the composed transforms and decomposes: the repair
   of the defect in which 1.5 * 1.5 was stored as 1.99994.)  Needs only that the
   overflow flags of the source glyphs are what Glyph::new computes and that the
   identity is in range. *)
Theorem stored_components_in_range : forall P T tmul tid act tneg tovf tnonid tvary teqb,
  tovf tid = false ->
  forall (F0 : font P T) fuel fl all order s,
    closed F0 -> acc P T tovf F0 ->
    process P T tmul tid act tneg tovf tnonid tvary teqb fuel fl F0 all order = Some s ->
    forall n g c t, In n (st_order s) -> st_font s n = Some g -> In (c, t) (g_comps g) -> tovf t = false.
Proof.
  intros P T tmul tid act tneg tovf tnonid tvary teqb Hid F0 fuel fl all order s Hc Ha H n g c t Hn Hg Hin.
  exact (process_in_range P T tmul tid act tneg tovf tnonid tvary teqb Hid F0 fuel fl all order s Hc Ha H n g Hn Hg c t Hin).
Qed.
Print Assumptions stored_components_in_range.

(* the input that used to fail: c = 1.5 b, b = 1.5 a under --flatten-components.
   c is now a simple glyph (the composed scale 9/4 is out of range), b keeps its
   component; and a source with overflowing and composed-overflowing components
   meets the hypotheses of the theorem under all 16 option subsets *)
Example stored_components_in_range_nonvacuous :
  aff_ovf aff_id = false /\
  (exists s gb gc,
     q_process 10 (mkFlags true false false false) ovf_font [Src 0; Src 1; Src 2] [Src 0; Src 1; Src 2] = Some s /\
     st_font s (Src 1) = Some gb /\ g_comps gb = [(Src 0, scale (qq 3 2))] /\
     st_font s (Src 2) = Some gc /\ g_comps gc = [] /\ length (g_contours gc) = 1%nat /\ st_lossy s = false) /\
  forallb (fun fl => match q_process 12 fl ovf_font [Src 0; Src 1; Src 2] [Src 0; Src 1; Src 2] with
                     | Some _ => true | None => false end) all_flags = true /\
  (f2dot14 (9 # 4) == 32767 # 16384)%Q.
Proof.
  split; [reflexivity|]. split; [|split; [vm_compute; reflexivity|reflexivity]].
  destruct (q_process 10 (mkFlags true false false false) ovf_font [Src 0; Src 1; Src 2] [Src 0; Src 1; Src 2]) as [s|] eqn:E;
    [|vm_compute in E; discriminate].
  vm_compute in E. inversion E; subst. eexists; eexists; eexists. repeat split; reflexivity.
Qed.

(* A point of the base glyph seen through a chain of n stored components (base
   point rounded, offsets rounded, 2x2 in F2Dot14) against the same point decomposed
   (transformed exactly, rounded once): when every exact 2x2 entry is within
   [-2,2], the stored rows sum to at most R and the exact intermediate coordinates
   stay within B, each coordinate differs by at most chain_err R B n + 1/2, where
   chain_err R B 0 = 1/2 and chain_err R B (k+1) = R * chain_err R B k + B/8192 + 1/2. *)
Theorem quantisation_bound : forall (R B : Q) (ts : list qaff) (p : Q * Q),
  (0 <= R)%Q -> (0 <= B)%Q -> Forall in_range ts -> Forall (rows_le R) ts -> coords_in B ts p ->
  (Qabs (fst (chain_stored ts p) - fst (chain_decomposed ts p)) <= chain_err R B (length ts) + (1 # 2))%Q /\
  (Qabs (snd (chain_stored ts p) - snd (chain_decomposed ts p)) <= chain_err R B (length ts) + (1 # 2))%Q.
Proof. exact stored_vs_decomposed. Qed.
Print Assumptions quantisation_bound.

(* With no magnifying level (rows sum to at most 1) and coordinates within 4096
   units that is one unit for the base glyph plus at most one per nesting level;
   a magnifying level multiplies what the levels below it have accumulated, so
   "one unit per level" does not follow for R > 1. *)
Theorem quantisation_one_unit_per_level : forall (B : Q) (ts : list qaff) (p : Q * Q),
  (0 <= B <= 4096)%Q -> Forall in_range ts -> Forall (rows_le 1) ts -> coords_in B ts p ->
  (Qabs (fst (chain_stored ts p) - fst (chain_decomposed ts p)) <= 1 + inject_Z (Z.of_nat (length ts)))%Q /\
  (Qabs (snd (chain_stored ts p) - snd (chain_decomposed ts p)) <= 1 + inject_Z (Z.of_nat (length ts)))%Q.
Proof.
  intros B ts p HB Hr Hrows Hc.
  destruct (stored_vs_decomposed 1 B ts p) as (H1 & H2); auto; try (apply Qle_refl || exact (proj1 HB) || discriminate).
  assert (chain_err 1 B (length ts) + (1 # 2) <= 1 + inject_Z (Z.of_nat (length ts)))%Q as Hb.
  { pose proof (chain_err_linear 1 B (length ts)) as L.
    assert (0 <= 1 <= 1)%Q as H01 by (split; discriminate).
    specialize (L H01 (proj1 HB)).
    assert (0 <= inject_Z (Z.of_nat (length ts)))%Q as Hn.
    { change 0%Q with (inject_Z 0). rewrite <- Zle_Qle. apply Nat2Z.is_nonneg. }
    destruct HB as (HB0 & HB1).
    assert (0 <= inject_Z (Z.of_nat (length ts)) * ((1 # 2) - 2 * eps * B))%Q as M.
    { apply Qmult_le_0_compat; auto. unfold eps. lra. }
    unfold eps in *. lra. }
  split; eapply Qle_trans; eauto.
Qed.
Print Assumptions quantisation_one_unit_per_level.

Local Open Scope Q_scope.
Example quantisation_nonvacuous :
  let t := mkQ (9 # 10) 0 0 (9 # 10) (1 # 2) 0 in
  in_range t /\ rows_le 1 t /\ coords_in 4096 [t; t] (11 # 2, 3) /\
  Qred (fst (chain_stored [t; t] (11 # 2, 3)) - fst (chain_decomposed [t; t] (11 # 2, 3))) = (59065467 # 33554432).
Proof. vm_compute. repeat split; try discriminate; reflexivity. Qed.
