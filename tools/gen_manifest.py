#!/usr/bin/env python3
"""Regenerate MANIFEST.json from props/*.py (each may define MANIFEST = {...}) and tools/manifest_base.json."""
import importlib, json, os, sys
ROOT = os.path.dirname(os.path.dirname(os.path.abspath(__file__)))
sys.path.insert(0, ROOT); sys.path.insert(0, os.path.join(ROOT, "lib"))
base = json.load(open(os.path.join(ROOT, "tools", "manifest_base.json")))
props = [json.loads(l)["id"] for l in open(os.path.join(ROOT, "properties.jsonl"))]
checks, claimed = [], []
# only properties the lead has reviewed and run clean are claimed
approved = set(open(os.path.join(ROOT, "tools", "claimed.txt")).read().split())
for pid in props:
    if pid not in approved:
        continue
    path = os.path.join(ROOT, "props", pid.lower() + ".py")
    if not os.path.exists(path):
        continue
    mod = importlib.import_module("props." + pid.lower())
    m = getattr(mod, "MANIFEST", None)
    if not m:
        continue
    claimed.append(pid)
    checks.append({
        "property_id": pid,
        "quick_cmd": f"./check {pid} --tier quick",
        "thorough_cmd": f"./check {pid} --tier thorough",
        "evidence_file": f"evidence/{pid}.json",
        "replay_cmd_template": f"./check {pid} --replay {{path}}",
        "engine": "coq",
        "level_claimed": {"category": m.get("category", "proof"), "text": m["text"], "design_ref": f"DESIGN.md 5/{pid}"},
        "level_note": m["note"],
        "technique": m.get("technique", "Rocq/Coq proof over hand-written model + model/implementation correspondence (vm_compute)"),
    })
base["checks"] = checks
for e in base["engines"]:
    e["serves_properties"] = claimed
na = base.get("not_applicable_reasons", {})
base["not_applicable"] = [{"property_id": p, "reason": na.get(p, "check not built yet (work in progress); see DESIGN.md section 8")}
                          for p in props if p not in claimed]
base.pop("not_applicable_reasons", None)
json.dump(base, open(os.path.join(ROOT, "MANIFEST.json"), "w"), indent=1)
print("claimed:", claimed)
