#!/bin/sh
# tools/seedtest.sh <worktree-of-/repo-with-a-seeded-change> <Cxx> [tier]
# Runs ./check Cxx against the given worktree instead of /repo, without touching /repo or the committed
# evidence: the harness is copied to /tmp/vh-seed with its path dependencies rewritten.
set -e
WT=$1; P=$2; TIER=${3:-quick}
cd "$(dirname "$0")/.."
mkdir -p /tmp/vh-seed
rsync -a --delete --exclude target harness/ /tmp/vh-seed/
sed -i "s#/repo/#$WT/#g" /tmp/vh-seed/Cargo.toml
cp "$WT/Cargo.lock" /tmp/vh-seed/Cargo.lock 2>/dev/null || true
VERIF_HARNESS=/tmp/vh-seed VERIF_WORK=/tmp/vh-seed-work VERIF_EVIDENCE=/tmp/vh-seed-evidence ./check "$P" --tier "$TIER"
