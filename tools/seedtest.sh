#!/bin/sh
# tools/seedtest.sh <worktree-of-/repo-with-a-seeded-change> <Cxx> [tier]
# Runs ./check Cxx against the given worktree instead of /repo, without touching /repo or the committed
# evidence: the harness is copied to $SEEDTEST_DIR (default /tmp/vh-seed) with its path dependencies rewritten.
# Use a different SEEDTEST_DIR per concurrent user.
set -e
WT=$1; P=$2; TIER=${3:-quick}
D=${SEEDTEST_DIR:-/tmp/vh-seed}
cd "$(dirname "$0")/.."
mkdir -p "$D"
rsync -a --delete --exclude target harness/ "$D/"
sed -i "s#/repo/#$WT/#g" "$D/Cargo.toml"
cp "$WT/Cargo.lock" "$D/Cargo.lock" 2>/dev/null || true
VERIF_HARNESS="$D" VERIF_WORK="$D-work" VERIF_EVIDENCE="$D-evidence" ./check "$P" --tier "$TIER"
