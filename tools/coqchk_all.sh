#!/bin/sh
# Re-check every compiled property module (and everything it depends on) with Coq's independent checker and print the
# axioms they rely on.  Takes several minutes; not part of the per-change checks.
set -e
cd "$(dirname "$0")/../coq"
[ -f Makefile ] || coq_makefile -f _CoqProject -o Makefile
make -f Makefile -j8 > /dev/null
coqchk -o -silent -Q theories FV $(ls theories/*/Props.vo | sed 's#theories/\(C[0-9]*\)/Props.vo#FV.\1.Props#')
