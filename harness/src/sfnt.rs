//! Hand-written sfnt directory reader (independent of write-fonts/read-fonts).
pub fn be16(b: &[u8], o: usize) -> Option<u32> {
    Some(u16::from_be_bytes(b.get(o..o + 2)?.try_into().ok()?) as u32)
}
pub fn be32(b: &[u8], o: usize) -> Option<u32> {
    Some(u32::from_be_bytes(b.get(o..o + 4)?.try_into().ok()?))
}
pub fn bei16(b: &[u8], o: usize) -> Option<i32> {
    Some(i16::from_be_bytes(b.get(o..o + 2)?.try_into().ok()?) as i32)
}

#[derive(Debug, Clone)]
pub struct TableRec {
    pub tag: [u8; 4],
    pub checksum: u32,
    pub offset: u32,
    pub length: u32,
}

pub fn directory(b: &[u8]) -> Option<(u32, Vec<TableRec>)> {
    let version = be32(b, 0)?;
    let n = be16(b, 4)? as usize;
    let mut v = Vec::new();
    for i in 0..n {
        let o = 12 + 16 * i;
        let tag: [u8; 4] = b.get(o..o + 4)?.try_into().ok()?;
        v.push(TableRec { tag, checksum: be32(b, o + 4)?, offset: be32(b, o + 8)?, length: be32(b, o + 12)? });
    }
    Some((version, v))
}

pub fn table<'a>(b: &'a [u8], tag: &[u8; 4]) -> Option<&'a [u8]> {
    let (_, dir) = directory(b)?;
    let r = dir.iter().find(|r| &r.tag == tag)?;
    b.get(r.offset as usize..(r.offset as usize + r.length as usize))
}

/// OpenType table checksum: sum of big-endian u32 words, zero padded.
pub fn checksum(data: &[u8]) -> u32 {
    let mut sum = 0u32;
    let mut i = 0;
    while i < data.len() {
        let mut w = [0u8; 4];
        for k in 0..4 {
            if i + k < data.len() {
                w[k] = data[i + k];
            }
        }
        sum = sum.wrapping_add(u32::from_be_bytes(w));
        i += 4;
    }
    sum
}

pub fn tag_str(t: &[u8; 4]) -> String {
    String::from_utf8_lossy(t).into_owned()
}
