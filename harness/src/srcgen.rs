//! Writers for UFO / designspace sources and an in-process compile helper.
//! Everything is plain data so generators can build sources field by field.
use std::fmt::Write as _;
use std::fs;
use std::path::{Path, PathBuf};

#[derive(Clone, Debug, PartialEq)]
pub enum Pt {
    Line,
    Curve,
    QCurve,
    Off,
}

#[derive(Clone, Debug, Default)]
pub struct GlyphSrc {
    pub name: String,
    pub unicodes: Vec<u32>,
    pub advance: f64,
    pub height: Option<f64>,
    /// closed contours: (x, y, point type)
    pub contours: Vec<Vec<(f64, f64, Pt)>>,
    /// (base glyph, [xx, xy, yx, yy, dx, dy])
    pub components: Vec<(String, [f64; 6])>,
    pub anchors: Vec<(String, f64, f64)>,
}

impl GlyphSrc {
    pub fn new(name: &str, advance: f64) -> Self {
        GlyphSrc { name: name.into(), advance, ..Default::default() }
    }
    pub fn rect(mut self, x0: f64, y0: f64, x1: f64, y1: f64) -> Self {
        self.contours.push(vec![(x0, y0, Pt::Line), (x1, y0, Pt::Line), (x1, y1, Pt::Line), (x0, y1, Pt::Line)]);
        self
    }
    pub fn uni(mut self, cp: u32) -> Self {
        self.unicodes.push(cp);
        self
    }
    pub fn comp(mut self, base: &str, t: [f64; 6]) -> Self {
        self.components.push((base.into(), t));
        self
    }
    pub fn anchor(mut self, name: &str, x: f64, y: f64) -> Self {
        self.anchors.push((name.into(), x, y));
        self
    }
}

#[derive(Clone, Debug, Default)]
pub struct Master {
    pub name: String,
    pub style: String,
    /// design-space location, by axis *name*
    pub location: Vec<(String, f64)>,
    pub glyphs: Vec<GlyphSrc>,
    pub kerning: Vec<(String, String, f64)>,
    pub groups: Vec<(String, Vec<String>)>,
    /// extra fontinfo.plist entries: (key, raw plist xml value)
    pub fontinfo: Vec<(String, String)>,
    pub features: Option<String>,
    pub glyph_order: Option<Vec<String>>,
    pub skip_export: Vec<String>,
    /// extra lib.plist entries: (key, raw plist xml value)
    pub lib: Vec<(String, String)>,
    /// sparse master: written as a layer of another master's UFO
    pub layer_of: Option<String>,
}

#[derive(Clone, Debug, Default)]
pub struct AxisSrc {
    pub name: String,
    pub tag: String,
    pub min: f64,
    pub default: f64,
    pub max: f64,
    /// (user, design)
    pub map: Vec<(f64, f64)>,
    pub hidden: bool,
}

#[derive(Clone, Debug, Default)]
pub struct RuleSrc {
    pub name: String,
    /// condition sets: each a list of (axis name, min, max)
    pub condsets: Vec<Vec<(String, Option<f64>, Option<f64>)>>,
    pub subs: Vec<(String, String)>,
}

#[derive(Clone, Debug, Default)]
pub struct InstanceSrc {
    pub family: String,
    pub style: String,
    pub postscript: Option<String>,
    pub location: Vec<(String, f64)>,
}

#[derive(Clone, Debug, Default)]
pub struct Design {
    pub family: String,
    pub upem: u32,
    pub axes: Vec<AxisSrc>,
    pub masters: Vec<Master>,
    pub instances: Vec<InstanceSrc>,
    pub rules: Vec<RuleSrc>,
    pub rules_processing_last: bool,
    /// raw xml appended inside <designspace> (e.g. <lib>)
    pub extra_xml: String,
}

fn num(x: f64) -> String {
    if x == x.trunc() && x.abs() < 1e15 { format!("{}", x as i64) } else { format!("{}", x) }
}

pub fn xml_escape(s: &str) -> String {
    s.replace('&', "&amp;").replace('<', "&lt;").replace('>', "&gt;").replace('"', "&quot;")
}

const PLIST_HEAD: &str = "<?xml version=\"1.0\" encoding=\"UTF-8\"?>\n<!DOCTYPE plist PUBLIC \"-//Apple//DTD PLIST 1.0//EN\" \"http://www.apple.com/DTDs/PropertyList-1.0.dtd\">\n<plist version=\"1.0\">\n";

pub fn plist_str_array(v: &[String]) -> String {
    let mut s = String::from("<array>");
    for x in v {
        let _ = write!(s, "<string>{}</string>", xml_escape(x));
    }
    s.push_str("</array>");
    s
}

/// UFO-style glif file name (user name to file name convention, simplified but injective
/// for the names the generators use; contents.plist is authoritative anyway).
pub fn glif_name(i: usize) -> String {
    format!("g{:05}.glif", i)
}

pub fn glif_xml(g: &GlyphSrc) -> String {
    let mut s = String::new();
    let _ = write!(s, "<?xml version=\"1.0\" encoding=\"UTF-8\"?>\n<glyph name=\"{}\" format=\"2\">\n", xml_escape(&g.name));
    match g.height {
        Some(h) => {
            let _ = writeln!(s, "  <advance width=\"{}\" height=\"{}\"/>", num(g.advance), num(h));
        }
        None => {
            let _ = writeln!(s, "  <advance width=\"{}\"/>", num(g.advance));
        }
    }
    for u in &g.unicodes {
        let _ = writeln!(s, "  <unicode hex=\"{:04X}\"/>", u);
    }
    for (n, x, y) in &g.anchors {
        let _ = writeln!(s, "  <anchor name=\"{}\" x=\"{}\" y=\"{}\"/>", xml_escape(n), num(*x), num(*y));
    }
    if !g.contours.is_empty() || !g.components.is_empty() {
        s.push_str("  <outline>\n");
        for c in &g.contours {
            s.push_str("    <contour>\n");
            for (x, y, t) in c {
                let ty = match t {
                    Pt::Line => " type=\"line\"",
                    Pt::Curve => " type=\"curve\"",
                    Pt::QCurve => " type=\"qcurve\"",
                    Pt::Off => "",
                };
                let _ = writeln!(s, "      <point x=\"{}\" y=\"{}\"{}/>", num(*x), num(*y), ty);
            }
            s.push_str("    </contour>\n");
        }
        for (b, t) in &g.components {
            let _ = write!(s, "    <component base=\"{}\"", xml_escape(b));
            let names = ["xScale", "xyScale", "yxScale", "yScale", "xOffset", "yOffset"];
            let ident = [1.0, 0.0, 0.0, 1.0, 0.0, 0.0];
            for i in 0..6 {
                if t[i] != ident[i] {
                    let _ = write!(s, " {}=\"{}\"", names[i], num(t[i]));
                }
            }
            s.push_str("/>\n");
        }
        s.push_str("  </outline>\n");
    }
    s.push_str("</glyph>\n");
    s
}

fn write_layer(dir: &Path, glyphs: &[GlyphSrc]) {
    fs::create_dir_all(dir).unwrap();
    let mut contents = String::from(PLIST_HEAD);
    contents.push_str("<dict>\n");
    for (i, g) in glyphs.iter().enumerate() {
        let f = glif_name(i);
        let _ = writeln!(contents, "<key>{}</key><string>{}</string>", xml_escape(&g.name), f);
        fs::write(dir.join(&f), glif_xml(g)).unwrap();
    }
    contents.push_str("</dict>\n</plist>\n");
    fs::write(dir.join("contents.plist"), contents).unwrap();
}

impl Design {
    pub fn single(family: &str, glyphs: Vec<GlyphSrc>) -> Design {
        Design {
            family: family.into(),
            upem: 1000,
            masters: vec![Master { name: "Regular".into(), style: "Regular".into(), glyphs, ..Default::default() }],
            ..Default::default()
        }
    }

    pub fn ufo_name(m: &Master) -> String {
        format!("{}.ufo", m.name.replace(' ', "_"))
    }

    /// Write one UFO (with the layers of sparse masters that refer to it).
    pub fn write_ufo(&self, dir: &Path, m: &Master) -> PathBuf {
        let ufo = dir.join(Self::ufo_name(m));
        let _ = fs::remove_dir_all(&ufo);
        fs::create_dir_all(&ufo).unwrap();
        fs::write(ufo.join("metainfo.plist"), format!("{PLIST_HEAD}<dict><key>creator</key><string>vh</string><key>formatVersion</key><integer>3</integer></dict>\n</plist>\n")).unwrap();
        let mut fi = String::from(PLIST_HEAD);
        fi.push_str("<dict>\n");
        let has = |k: &str| m.fontinfo.iter().any(|(kk, _)| kk == k);
        if !has("familyName") {
            let _ = writeln!(fi, "<key>familyName</key><string>{}</string>", xml_escape(&self.family));
        }
        if !has("styleName") {
            let _ = writeln!(fi, "<key>styleName</key><string>{}</string>", xml_escape(&m.style));
        }
        if !has("unitsPerEm") {
            let _ = writeln!(fi, "<key>unitsPerEm</key><integer>{}</integer>", self.upem);
        }
        for (k, d) in [("ascender", 800), ("descender", -200), ("capHeight", 700), ("xHeight", 500)] {
            if !has(k) {
                let _ = writeln!(fi, "<key>{}</key><integer>{}</integer>", k, d);
            }
        }
        for (k, v) in &m.fontinfo {
            let _ = writeln!(fi, "<key>{}</key>{}", k, v);
        }
        fi.push_str("</dict>\n</plist>\n");
        fs::write(ufo.join("fontinfo.plist"), fi).unwrap();

        let mut lib = String::from(PLIST_HEAD);
        lib.push_str("<dict>\n");
        if let Some(order) = &m.glyph_order {
            let _ = writeln!(lib, "<key>public.glyphOrder</key>{}", plist_str_array(order));
        }
        if !m.skip_export.is_empty() {
            let _ = writeln!(lib, "<key>public.skipExportGlyphs</key>{}", plist_str_array(&m.skip_export));
        }
        for (k, v) in &m.lib {
            let _ = writeln!(lib, "<key>{}</key>{}", k, v);
        }
        lib.push_str("</dict>\n</plist>\n");
        fs::write(ufo.join("lib.plist"), lib).unwrap();

        let mut layers = vec![("public.default".to_string(), "glyphs".to_string())];
        write_layer(&ufo.join("glyphs"), &m.glyphs);
        for (i, sm) in self.masters.iter().enumerate() {
            if sm.layer_of.as_deref() == Some(m.name.as_str()) {
                let d = format!("glyphs.L{}", i);
                write_layer(&ufo.join(&d), &sm.glyphs);
                layers.push((sm.name.clone(), d));
            }
        }
        let mut lc = String::from(PLIST_HEAD);
        lc.push_str("<array>\n");
        for (n, d) in &layers {
            let _ = writeln!(lc, "<array><string>{}</string><string>{}</string></array>", xml_escape(n), d);
        }
        lc.push_str("</array>\n</plist>\n");
        fs::write(ufo.join("layercontents.plist"), lc).unwrap();

        if !m.kerning.is_empty() {
            let mut k = String::from(PLIST_HEAD);
            k.push_str("<dict>\n");
            let mut firsts: Vec<&String> = Vec::new();
            for (a, _, _) in &m.kerning {
                if !firsts.contains(&a) {
                    firsts.push(a);
                }
            }
            for a in firsts {
                let _ = writeln!(k, "<key>{}</key><dict>", xml_escape(a));
                for (a2, b, v) in &m.kerning {
                    if a2 == a {
                        let _ = writeln!(k, "<key>{}</key><real>{}</real>", xml_escape(b), num(*v));
                    }
                }
                k.push_str("</dict>\n");
            }
            k.push_str("</dict>\n</plist>\n");
            fs::write(ufo.join("kerning.plist"), k).unwrap();
        }
        if !m.groups.is_empty() {
            let mut g = String::from(PLIST_HEAD);
            g.push_str("<dict>\n");
            for (n, members) in &m.groups {
                let _ = writeln!(g, "<key>{}</key>{}", xml_escape(n), plist_str_array(members));
            }
            g.push_str("</dict>\n</plist>\n");
            fs::write(ufo.join("groups.plist"), g).unwrap();
        }
        if let Some(f) = &m.features {
            fs::write(ufo.join("features.fea"), f).unwrap();
        }
        ufo
    }

    pub fn designspace_xml(&self) -> String {
        let mut s = String::from("<?xml version='1.0' encoding='UTF-8'?>\n<designspace format=\"4.1\">\n  <axes>\n");
        for a in &self.axes {
            let _ = write!(
                s,
                "    <axis tag=\"{}\" name=\"{}\" minimum=\"{}\" maximum=\"{}\" default=\"{}\"{}",
                a.tag, xml_escape(&a.name), num(a.min), num(a.max), num(a.default),
                if a.hidden { " hidden=\"1\"" } else { "" }
            );
            if a.map.is_empty() {
                s.push_str("/>\n");
            } else {
                s.push_str(">\n");
                for (u, d) in &a.map {
                    let _ = writeln!(s, "      <map input=\"{}\" output=\"{}\"/>", num(*u), num(*d));
                }
                s.push_str("    </axis>\n");
            }
        }
        s.push_str("  </axes>\n");
        if !self.rules.is_empty() {
            let _ = writeln!(s, "  <rules{}>", if self.rules_processing_last { " processing=\"last\"" } else { "" });
            for r in &self.rules {
                let _ = writeln!(s, "    <rule name=\"{}\">", xml_escape(&r.name));
                for cs in &r.condsets {
                    s.push_str("      <conditionset>\n");
                    for (ax, mn, mx) in cs {
                        let _ = write!(s, "        <condition name=\"{}\"", xml_escape(ax));
                        if let Some(v) = mn {
                            let _ = write!(s, " minimum=\"{}\"", num(*v));
                        }
                        if let Some(v) = mx {
                            let _ = write!(s, " maximum=\"{}\"", num(*v));
                        }
                        s.push_str("/>\n");
                    }
                    s.push_str("      </conditionset>\n");
                }
                for (a, b) in &r.subs {
                    let _ = writeln!(s, "      <sub name=\"{}\" with=\"{}\"/>", xml_escape(a), xml_escape(b));
                }
                s.push_str("    </rule>\n");
            }
            s.push_str("  </rules>\n");
        }
        s.push_str("  <sources>\n");
        for m in &self.masters {
            let (file, layer) = match &m.layer_of {
                Some(base) => {
                    let bm = self.masters.iter().find(|x| &x.name == base).expect("layer_of names a master");
                    (Self::ufo_name(bm), format!(" layer=\"{}\"", xml_escape(&m.name)))
                }
                None => (Self::ufo_name(m), String::new()),
            };
            let _ = writeln!(
                s,
                "    <source filename=\"{}\" name=\"{}\" familyname=\"{}\" stylename=\"{}\"{}>\n      <location>",
                file, xml_escape(&m.name), xml_escape(&self.family), xml_escape(&m.style), layer
            );
            for (ax, v) in &m.location {
                let _ = writeln!(s, "        <dimension name=\"{}\" xvalue=\"{}\"/>", xml_escape(ax), num(*v));
            }
            s.push_str("      </location>\n    </source>\n");
        }
        s.push_str("  </sources>\n");
        if !self.instances.is_empty() {
            s.push_str("  <instances>\n");
            for i in &self.instances {
                let _ = write!(s, "    <instance familyname=\"{}\" stylename=\"{}\"", xml_escape(&i.family), xml_escape(&i.style));
                if let Some(p) = &i.postscript {
                    let _ = write!(s, " postscriptfontname=\"{}\"", xml_escape(p));
                }
                s.push_str(">\n      <location>\n");
                for (ax, v) in &i.location {
                    let _ = writeln!(s, "        <dimension name=\"{}\" xvalue=\"{}\"/>", xml_escape(ax), num(*v));
                }
                s.push_str("      </location>\n    </instance>\n");
            }
            s.push_str("  </instances>\n");
        }
        s.push_str(&self.extra_xml);
        s.push_str("</designspace>\n");
        s
    }

    /// Write the whole design under `dir`; returns the path to compile (a designspace, or
    /// the lone UFO when there are no axes and one master).
    pub fn write(&self, dir: &Path) -> PathBuf {
        fs::create_dir_all(dir).unwrap();
        let mut first = None;
        for m in &self.masters {
            if m.layer_of.is_none() {
                let p = self.write_ufo(dir, m);
                first.get_or_insert(p);
            }
        }
        if self.axes.is_empty() && self.masters.len() == 1 {
            return first.unwrap();
        }
        let ds = dir.join(format!("{}.designspace", self.family.replace(' ', "_")));
        fs::write(&ds, self.designspace_xml()).unwrap();
        ds
    }

    /// Always write a designspace document, even for a single master.
    pub fn write_designspace(&self, dir: &Path) -> PathBuf {
        fs::create_dir_all(dir).unwrap();
        for m in &self.masters {
            if m.layer_of.is_none() {
                self.write_ufo(dir, m);
            }
        }
        let ds = dir.join(format!("{}.designspace", self.family.replace(' ', "_")));
        fs::write(&ds, self.designspace_xml()).unwrap();
        ds
    }
}

#[derive(Debug, Clone)]
pub enum Outcome {
    Font(Vec<u8>),
    Error(String),
    Panic(String),
}

/// Compile in-process through the library entry point. Panics are caught.
pub fn compile_path(path: &Path, flags: Option<fontir::orchestration::Flags>, ir_dir: Option<PathBuf>) -> Outcome {
    let path = path.to_path_buf();
    let r = std::panic::catch_unwind(move || {
        let input = fontc::Input::new(&path).map_err(|e| e.to_string())?;
        let source = input.create_source().map_err(|e| e.to_string())?;
        let mut options = fontc::Options::default();
        if let Some(f) = flags {
            options.flags = f;
        }
        options.ir_dir = ir_dir;
        fontc::generate_font(source, options).map_err(|e| e.to_string())
    });
    match r {
        Ok(Ok(b)) => Outcome::Font(b),
        Ok(Err(e)) => Outcome::Error(e),
        Err(p) => {
            let msg = if let Some(s) = p.downcast_ref::<String>() {
                s.clone()
            } else if let Some(s) = p.downcast_ref::<&str>() {
                s.to_string()
            } else {
                "panic".into()
            };
            Outcome::Panic(msg)
        }
    }
}

/// Silence the default panic hook (the harness reports panics itself).
pub fn quiet_panics() {
    std::panic::set_hook(Box::new(|_| {}));
}

pub fn scratch_dir(tag: &str) -> tempfile::TempDir {
    tempfile::Builder::new().prefix(&format!("vh-{tag}-")).tempdir().expect("tempdir")
}
