//! vh — the correspondence harness: runs the real fontc code on generated
//! inputs, evaluates each property predicate on the implementation's output,
//! and prints JSON lines (cases with Gallina terms, violations, statistics).
mod util;
mod c14;

fn main() {
    let args: Vec<String> = std::env::args().collect();
    let cmd = args.get(1).map(|s| s.as_str()).unwrap_or("");
    let rest = &args[2.min(args.len())..];
    match cmd {
        "c14" => c14::run(rest),
        _ => {
            eprintln!("usage: vh <c01..c20> --seed N --n N");
            std::process::exit(2);
        }
    }
}
