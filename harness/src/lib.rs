#![allow(dead_code)]
pub mod srcgen;
pub mod sfnt;
// Shared helpers: PRNG, JSON-lines output, Gallina term printers.
use serde_json::{json, Value};
use std::io::Write;

/// splitmix64: one state, exact replay from VERIF_SEED.
pub struct Rng(pub u64);
impl Rng {
    pub fn new(seed: u64) -> Self {
        Rng(seed.wrapping_mul(0x9E3779B97F4A7C15) ^ 0xD1B54A32D192ED03)
    }
    pub fn next(&mut self) -> u64 {
        self.0 = self.0.wrapping_add(0x9E3779B97F4A7C15);
        let mut z = self.0;
        z = (z ^ (z >> 30)).wrapping_mul(0xBF58476D1CE4E5B9);
        z = (z ^ (z >> 27)).wrapping_mul(0x94D049BB133111EB);
        z ^ (z >> 31)
    }
    pub fn below(&mut self, n: u64) -> u64 {
        if n == 0 { 0 } else { self.next() % n }
    }
    pub fn range(&mut self, lo: i64, hi: i64) -> i64 {
        lo + self.below((hi - lo + 1) as u64) as i64
    }
    pub fn chance(&mut self, num: u64, den: u64) -> bool {
        self.below(den) < num
    }
    pub fn pick<'a, T>(&mut self, v: &'a [T]) -> &'a T {
        &v[self.below(v.len() as u64) as usize]
    }
    pub fn shuffle<T>(&mut self, v: &mut [T]) {
        for i in (1..v.len()).rev() {
            let j = self.below(i as u64 + 1) as usize;
            v.swap(i, j);
        }
    }
}

pub fn emit(v: Value) {
    let out = std::io::stdout();
    let mut l = out.lock();
    let _ = writeln!(l, "{}", v);
}

pub fn emit_case(id: usize, kind: &str, coq: String, show: Option<String>, nontrivial: bool, sig: String, extra: Value) {
    let mut v = json!({"type":"case","id":id,"kind":kind,"coq":coq,"nontrivial":nontrivial,"sig":sig});
    if let Some(s) = show {
        v["show"] = json!(s);
    }
    if let Value::Object(m) = extra {
        for (k, x) in m {
            v[k] = x;
        }
    }
    emit(v);
}

pub fn emit_violation(key: &str, desc: String, extra: Value) {
    let mut v = json!({"type":"violation","key":key,"desc":desc,"found_input":true});
    if let Value::Object(m) = extra {
        for (k, x) in m {
            v[k] = x;
        }
    }
    emit(v);
}

pub fn emit_stat(extra: Value) {
    let mut v = json!({"type":"stat"});
    if let Value::Object(m) = extra {
        for (k, x) in m {
            v[k] = x;
        }
    }
    emit(v);
}

// ---- Gallina printers -------------------------------------------------------
pub fn coq_n(n: u64) -> String {
    format!("{}%N", n)
}
pub fn coq_z(n: i64) -> String {
    if n < 0 { format!("({})%Z", n) } else { format!("{}%Z", n) }
}
pub fn coq_nat(n: usize) -> String {
    format!("{}%nat", n)
}
pub fn coq_bool(b: bool) -> String {
    (if b { "true" } else { "false" }).to_string()
}
pub fn coq_list<T>(v: &[T], f: impl Fn(&T) -> String) -> String {
    format!("[{}]", v.iter().map(f).collect::<Vec<_>>().join("; "))
}
pub fn coq_str(s: &str) -> String {
    coq_list(&s.chars().collect::<Vec<_>>(), |c| coq_n(*c as u64))
}
pub fn coq_opt<T>(v: &Option<T>, f: impl Fn(&T) -> String) -> String {
    match v {
        None => "None".into(),
        Some(x) => format!("(Some {})", f(x)),
    }
}

/// exact rational value of a finite f64 as (numerator, denominator = 2^k)
pub fn f64_to_ratio(x: f64) -> (i128, u128) {
    assert!(x.is_finite());
    if x == 0.0 {
        return (0, 1);
    }
    let bits = x.to_bits();
    let sign: i128 = if bits >> 63 == 1 { -1 } else { 1 };
    let exp = ((bits >> 52) & 0x7ff) as i64;
    let frac = bits & ((1u64 << 52) - 1);
    let (mut m, mut e) = if exp == 0 { (frac as i128, -1074i64) } else { ((frac | (1u64 << 52)) as i128, exp - 1075) };
    while m % 2 == 0 && e < 0 {
        m /= 2;
        e += 1;
    }
    if e >= 0 {
        assert!(e < 60, "f64 too large for the harness: {x}");
        (sign * (m << e), 1)
    } else {
        assert!(-e < 120, "f64 too small for the harness: {x}");
        (sign * m, 1u128 << (-e))
    }
}

/// Gallina Q literal for the exact value of a finite f64.
pub fn coq_q(x: f64) -> String {
    let (n, d) = f64_to_ratio(x);
    if n < 0 { format!("(({}) # {})%Q", n, d) } else { format!("({} # {})%Q", n, d) }
}

/// Gallina Q literal from an explicit fraction.
pub fn coq_frac(n: i64, d: u64) -> String {
    if n < 0 { format!("(({}) # {})%Q", n, d) } else { format!("({} # {})%Q", n, d) }
}

pub fn arg_val(args: &[String], name: &str, default: u64) -> u64 {
    args.iter().position(|a| a == name).and_then(|i| args.get(i + 1)).and_then(|v| v.parse().ok()).unwrap_or(default)
}

/// The fontc working tree this harness was built against: `VERIF_REPO`, or the directory of the `fontc` path
/// dependency in this crate's Cargo.toml (/repo; a scratch worktree when tools/seedtest.sh rewrote it).
pub fn repo_root() -> std::path::PathBuf {
    if let Ok(r) = std::env::var("VERIF_REPO") {
        return r.into();
    }
    let manifest = concat!(env!("CARGO_MANIFEST_DIR"), "/Cargo.toml");
    if let Ok(text) = std::fs::read_to_string(manifest) {
        for line in text.lines() {
            if line.trim_start().starts_with("fontc = ") {
                let parts: Vec<&str> = line.split('"').collect();
                if parts.len() >= 2 {
                    if let Some(p) = std::path::Path::new(parts[1]).parent() {
                        return p.to_path_buf();
                    }
                }
            }
        }
    }
    "/repo".into()
}

/// Where CLI binaries of `repo_root()` are built: the shared target directory for /repo itself, a directory under
/// `VERIF_WORK` for a scratch worktree.
pub fn repo_target(repo: &std::path::Path) -> std::path::PathBuf {
    if repo == std::path::Path::new("/repo") {
        "/verif/work/repo-target".into()
    } else {
        std::path::PathBuf::from(std::env::var("VERIF_WORK").unwrap_or_else(|_| "/tmp/vh-seed-work".into())).join("repo-target")
    }
}
