//! C15: the CLI terminates on every source tree -- with a font and exit 0, or with a
//! diagnostic, a failure status and no font; never by signal, abort or runaway recursion.
//!
//! Streams (all randomness from one Rng, cases generated before anything is run):
//!   D  fixed corpus of component graphs (cycles, flags) -- compared with FV.C15.Model.exec
//!   A  random component graphs + one structural mutation -- compared with FV.C15.Model.exec
//!   B  fontdrasil::util::depth_sorted_composite_glyphs, in process -- compared with depth_sorted
//!   C  malformed sources (byte/line/number/file mutations, token soup, degenerate
//!      designspaces, nesting bombs) -- property predicate only
//! The real `fontc` binary is rebuilt from /repo's working tree and run as a subprocess under
//! ulimits; what is observed is the exit status / terminating signal, stderr and the output file.
use fontdrasil::util::{depth_sorted_composite_glyphs, CompositeLike};
use serde_json::{json, Value};
use smol_str::SmolStr;
use std::collections::{BTreeMap, BTreeSet};
use std::io::Read;
use std::os::unix::process::ExitStatusExt;
use std::path::Path;
use std::process::{Command, Stdio};
use std::sync::atomic::{AtomicUsize, Ordering};
use std::sync::Mutex;
use std::time::Instant;
use vh::srcgen::{scratch_dir, AxisSrc, Design, GlyphSrc, InstanceSrc, Master};
use vh::*;
use write_fonts::read::types::Tag;
use write_fonts::read::FontRef;

static REPO: std::sync::LazyLock<String> = std::sync::LazyLock::new(|| vh::repo_root().to_string_lossy().into_owned());
static TARGET_DIR: std::sync::LazyLock<String> = std::sync::LazyLock::new(|| vh::repo_target(&vh::repo_root()).to_string_lossy().into_owned());
static FONTC: std::sync::LazyLock<String> = std::sync::LazyLock::new(|| format!("{}/debug/fontc", &*TARGET_DIR));
/// CPU seconds per compile (a normal compile of these sources needs well under 1 s of CPU).
const SH_WRAPPER: &str = r#"ulimit -c 0; ulimit -v 4000000; ulimit -t "$C15_CPU"; exec timeout -s KILL 300 "$0" "$@""#;
const CPU_LIMIT: u32 = 6;
const RAYON_THREADS: &str = "4";
/// the 1500-glyph chains of the deep-nesting corpus need about 3 s of CPU
const CPU_LIMIT_DEEP: u32 = 30;
const FUEL: usize = 1500;
const MISSING: usize = 99;

// ------------------------------------------------------------------ subprocess runner
#[derive(Clone, Copy, PartialEq, Eq, Debug)]
enum Class {
    OkFont,
    Error,
    Signal,
    Timeout,
    Panic101,
    Bogus,
}
impl Class {
    fn name(self) -> &'static str {
        match self {
            Class::OkFont => "OkFont",
            Class::Error => "Error",
            Class::Signal => "Signal",
            Class::Timeout => "Timeout",
            Class::Panic101 => "Panic101",
            Class::Bogus => "Bogus",
        }
    }
}

#[derive(Clone, Debug)]
struct Run {
    class: Class,
    exit_code: Option<i32>,
    signal: Option<i32>,
    /// last 2000 bytes of stderr, normalised (no time stamps, thread ids, scratch paths)
    stderr_tail: String,
    font_exists: bool,
    font_ok: bool,
    wall_ms: u64,
    // derived from the whole captured stderr
    stack_overflow: bool,
    cycle_msg: bool,
    panic_site: Option<String>,
}

fn font_parses(bytes: &[u8]) -> bool {
    if bytes.is_empty() || vh::sfnt::directory(bytes).is_none() {
        return false;
    }
    let Ok(f) = FontRef::new(bytes) else { return false };
    let has = |t: &[u8; 4]| f.table_data(Tag::new(t)).is_some();
    has(b"head") && has(b"maxp") && (has(b"glyf") || has(b"CFF ") || has(b"CFF2")) && has(b"cmap") && has(b"name")
}

/// strip time stamps, thread ids, pids and the scratch path: what is left is a function of the input
fn normalise(s: &str, scratch: &str) -> String {
    let s = s.replace(scratch, "<scratch>");
    let mut out = String::new();
    for line in s.lines() {
        let mut l = line.to_string();
        if l.starts_with('[') {
            if let Some(p) = l.find("ThreadId(") {
                if let Some(q) = l[p..].find(") ") {
                    l = format!("[{}", &l[p + q + 2..]);
                }
            }
        }
        // "thread 'main' (12345) panicked at ..." / "thread '<unknown>' (12345) has overflowed its stack"
        if l.starts_with("thread '") {
            if let Some(o) = l.find("' (") {
                if let Some(q) = l[o + 3..].find(')') {
                    if q > 0 && l[o + 3..o + 3 + q].chars().all(|c| c.is_ascii_digit()) {
                        l = format!("{}{}", &l[..o + 1], &l[o + 3 + q + 1..]);
                    }
                }
            }
        }
        out.push_str(&l);
        out.push('\n');
    }
    out
}

/// Stable name of a panic site: `crate/src/file.rs:<what>` where <what> is the error type named in
/// the panic message (e.g. ParseIntError) or its first words; the line number is kept out of the
/// key (it moves with unrelated edits) and stays in the stderr tail of the violation record.
fn panic_site(stderr: &str) -> Option<String> {
    let p = stderr.find("panicked at ")?;
    let mut lines = stderr[p + "panicked at ".len()..].lines();
    let rest = lines.next()?;
    let msg = lines.next().unwrap_or("");
    let path = rest.split(':').next()?.trim();
    let comps: Vec<&str> = path.split('/').filter(|c| !c.is_empty()).collect();
    let short = match comps.iter().rposition(|c| *c == "src") {
        Some(i) if i >= 1 => comps[i - 1..].join("/"),
        _ => comps.last().copied().unwrap_or("?").to_string(),
    };
    let words: Vec<&str> = msg.split(|c: char| !c.is_ascii_alphanumeric()).filter(|w| !w.is_empty()).collect();
    if msg.contains("Option::unwrap()") {
        return Some(format!("{}:unwrap-on-None", short));
    }
    let what = match words.iter().find(|w| w.len() > 5 && w.ends_with("Error") && w.chars().next().is_some_and(|c| c.is_ascii_uppercase())) {
        Some(w) => w.to_string(),
        None => words.iter().take(4).copied().collect::<Vec<_>>().join("-"),
    };
    Some(format!("{}:{}", short, if what.is_empty() { "panic".to_string() } else { what }))
}

fn run_fontc(src: &Path, extra: &[String], out: &Path) -> Run {
    run_fontc_limit(src, extra, out, CPU_LIMIT)
}

fn run_fontc_limit(src: &Path, extra: &[String], out: &Path, cpu_secs: u32) -> Run {
    let scratch = out.parent().expect("out path has a parent").to_path_buf();
    let t0 = Instant::now();
    let mut cmd = Command::new("sh");
    cmd.arg("-c").arg(SH_WRAPPER).arg(&*FONTC).arg(src).arg("-o").arg(out).arg("--build-dir").arg(scratch.join("build"));
    cmd.args(extra);
    // 16 concurrent compiles x 16 rayon workers each spend most of their time in sched_yield on a shared
    // machine; 4 workers per compile (what a 4-core machine gets by default) unless the caller says otherwise
    if std::env::var_os("RAYON_NUM_THREADS").is_none() {
        cmd.env("RAYON_NUM_THREADS", RAYON_THREADS);
    }
    cmd.env("C15_CPU", cpu_secs.to_string()).env("RUST_BACKTRACE", "0").env_remove("RUST_LOG").env_remove("RUST_LIB_BACKTRACE");
    cmd.current_dir(&scratch).stdin(Stdio::null()).stdout(Stdio::null()).stderr(Stdio::piped());
    let mut child = match cmd.spawn() {
        Ok(c) => c,
        Err(e) => {
            return Run {
                class: Class::Bogus,
                exit_code: None,
                signal: None,
                stderr_tail: format!("harness: cannot spawn sh: {e}"),
                font_exists: false,
                font_ok: false,
                wall_ms: 0,
                stack_overflow: false,
                cycle_msg: false,
                panic_site: None,
            };
        }
    };
    // bounded capture: first 16 kB and last 2000 bytes
    let mut head: Vec<u8> = Vec::new();
    let mut tail: Vec<u8> = Vec::new();
    if let Some(mut e) = child.stderr.take() {
        let mut buf = [0u8; 8192];
        loop {
            match e.read(&mut buf) {
                Ok(0) | Err(_) => break,
                Ok(k) => {
                    if head.len() < 16384 {
                        let room = 16384 - head.len();
                        head.extend_from_slice(&buf[..k.min(room)]);
                    }
                    tail.extend_from_slice(&buf[..k]);
                    if tail.len() > 4000 {
                        let cut = tail.len() - 2000;
                        tail.drain(..cut);
                    }
                }
            }
        }
    }
    let status = child.wait();
    let wall_ms = t0.elapsed().as_millis() as u64;
    if tail.len() > 2000 {
        let cut = tail.len() - 2000;
        tail.drain(..cut);
    }
    let scratch_s = scratch.to_string_lossy().into_owned();
    let head_s = normalise(&String::from_utf8_lossy(&head), &scratch_s);
    let tail_s = normalise(&String::from_utf8_lossy(&tail), &scratch_s);
    let (exit_code, signal) = match &status {
        Ok(s) => (s.code(), s.signal()),
        Err(_) => (None, None),
    };
    let (font_exists, font_ok) = match std::fs::read(out) {
        Ok(b) => (true, font_parses(&b)),
        Err(_) => (false, false),
    };
    let class = if matches!(signal, Some(24) | Some(9)) || matches!(exit_code, Some(137) | Some(124) | Some(152)) {
        Class::Timeout
    } else if signal.is_some() || matches!(exit_code, Some(134) | Some(139) | Some(135) | Some(132) | Some(136) | Some(133)) {
        Class::Signal
    } else if exit_code == Some(0) {
        if font_ok { Class::OkFont } else { Class::Bogus }
    } else if exit_code == Some(101) {
        Class::Panic101
    } else {
        Class::Error
    };
    let both = |pat: &str| head_s.contains(pat) || tail_s.contains(pat);
    Run {
        class,
        exit_code,
        signal,
        // two threads overflowing at once: the runtime prints "deadlock in SIGSEGV handler" and dies of SIGSEGV
        stack_overflow: both("overflowed its stack") || both("deadlock in SIGSEGV handler"),
        cycle_msg: both("component cycle"),
        panic_site: panic_site(&head_s).or_else(|| panic_site(&tail_s)),
        stderr_tail: tail_s,
        font_exists,
        font_ok,
        wall_ms,
    }
}

// ------------------------------------------------------------------ component graphs
#[derive(Clone, Debug, PartialEq)]
struct Comp {
    base: usize,
    dx: i64,
    dy: i64,
}
#[derive(Clone, Debug, PartialEq)]
struct G {
    comps: Vec<Comp>,
    contours: usize,
    export: bool,
}
#[derive(Clone, Copy, Debug, PartialEq)]
enum FlagV {
    Default,
    Flatten,
    Decompose,
    NoPreferSimple,
    PropagateAnchors,
}
impl FlagV {
    fn cli(self) -> Vec<String> {
        match self {
            FlagV::Default => vec![],
            FlagV::Flatten => vec!["--flatten-components".into()],
            FlagV::Decompose => vec!["--decompose-components".into()],
            FlagV::NoPreferSimple => vec!["--prefer-simple-glyphs=false".into()],
            FlagV::PropagateAnchors => vec!["--propagate-anchors".into()],
        }
    }
    fn name(self) -> &'static str {
        match self {
            FlagV::Default => "default",
            FlagV::Flatten => "flatten-components",
            FlagV::Decompose => "decompose-components",
            FlagV::NoPreferSimple => "prefer-simple-glyphs=false",
            FlagV::PropagateAnchors => "propagate-anchors",
        }
    }
    /// mkFlags <prefer_simple> <flatten> <decompose>
    fn coq(self) -> String {
        format!(
            "(mkFlags {} {} {})",
            coq_bool(self != FlagV::NoPreferSimple),
            coq_bool(self == FlagV::Flatten),
            coq_bool(self == FlagV::Decompose)
        )
    }
}

#[derive(Clone, Debug)]
struct GraphCase {
    store: Vec<G>,
    flags: FlagV,
    label: String,
    corpus: bool,
}

fn gname(i: usize) -> String {
    if i == 0 {
        ".notdef".into()
    } else if i == MISSING {
        "zz_missing".into()
    } else {
        format!("g{:02}", i)
    }
}

fn g(comps: &[(usize, i64, i64)], contours: usize, export: bool) -> G {
    G { comps: comps.iter().map(|&(base, dx, dy)| Comp { base, dx, dy }).collect(), contours, export }
}

/// reach[i][j]: there is a path of length >= 1 from i to j (missing bases ignored: they are pruned)
fn closure(store: &[G]) -> Vec<Vec<bool>> {
    let n = store.len();
    let mut r = vec![vec![false; n]; n];
    for (i, gl) in store.iter().enumerate() {
        for c in &gl.comps {
            if c.base < n {
                r[i][c.base] = true;
            }
        }
    }
    for k in 0..n {
        for i in 0..n {
            for j in 0..n {
                if r[i][k] && r[k][j] {
                    r[i][j] = true;
                }
            }
        }
    }
    r
}

/// DFS with colours (independent of `closure`): is there a cycle among existing glyphs?
fn has_cycle(store: &[G]) -> bool {
    fn visit(v: usize, store: &[G], col: &mut [u8]) -> bool {
        col[v] = 1;
        for c in &store[v].comps {
            if c.base >= store.len() {
                continue;
            }
            if col[c.base] == 1 || (col[c.base] == 0 && visit(c.base, store, col)) {
                return true;
            }
        }
        col[v] = 2;
        false
    }
    let mut col = vec![0u8; store.len()];
    (0..store.len()).any(|v| col[v] == 0 && visit(v, store, &mut col))
}

fn is_mixed(gl: &G, n: usize) -> bool {
    gl.contours > 0 && gl.comps.iter().any(|c| c.base < n)
}

/// cheap syntactic prediction of the cases that burn the whole CPU limit on the unrepaired tree
fn hang_prone(store: &[G], flags: FlagV) -> bool {
    if !has_cycle(store) {
        return false;
    }
    if matches!(flags, FlagV::Flatten | FlagV::Decompose) {
        return true;
    }
    let n = store.len();
    let r = closure(store);
    let touches: Vec<bool> = (0..n).map(|i| r[i][i] || (0..n).any(|j| r[i][j] && r[j][j])).collect();
    (0..n).any(|i| {
        touches[i]
            && (is_mixed(&store[i], n)
                || !store[i].export
                || store[i].comps.iter().any(|c| c.base < n && !store[c.base].export))
    })
}

fn graph_design(store: &[G]) -> Design {
    let mut glyphs = Vec::new();
    for (i, gl) in store.iter().enumerate() {
        let mut s = GlyphSrc::new(&gname(i), 500.0 + 10.0 * i as f64);
        if i > 0 {
            s = s.uni(0x40 + i as u32);
        }
        for k in 0..gl.contours {
            let x0 = 20.0 + 15.0 * i as f64 + 150.0 * k as f64;
            let y0 = 10.0 * i as f64;
            s = s.rect(x0, y0, x0 + 100.0 + i as f64, y0 + 100.0 + k as f64);
        }
        for c in &gl.comps {
            s = s.comp(&gname(c.base), [1.0, 0.0, 0.0, 1.0, c.dx as f64, c.dy as f64]);
        }
        glyphs.push(s);
    }
    let mut d = Design::single("C15Graph", glyphs);
    d.masters[0].glyph_order = Some((0..store.len()).map(gname).collect());
    d.masters[0].skip_export = (0..store.len()).filter(|&i| !store[i].export).map(gname).collect();
    d
}

/// A component graph that differs between masters (seed C15-1): stores[0] is the default master, the others
/// are further masters on one axis.  The cycle check must look at every master.
#[derive(Clone, Debug)]
struct MCycleCase {
    stores: Vec<Vec<G>>,
    flags: FlagV,
    label: String,
}

fn mcycle_design(stores: &[Vec<G>]) -> Design {
    let mut d = graph_design(&stores[0]);
    d.family = "C15MGraph".into();
    d.axes.push(AxisSrc { name: "Weight".into(), tag: "wght".into(), min: 400.0, default: 400.0, max: 900.0, ..Default::default() });
    d.masters[0].location = vec![("Weight".into(), 400.0)];
    for (k, st) in stores[1..].iter().enumerate() {
        let mut m = graph_design(st).masters[0].clone();
        m.name = format!("M{}", k + 1);
        m.style = format!("M{}", k + 1);
        m.location = vec![("Weight".into(), 900.0 - 150.0 * k as f64)];
        d.masters.push(m);
    }
    d
}

/// union over the masters: what a cycle check has to look at
fn union_store(stores: &[Vec<G>]) -> Vec<G> {
    let mut u = stores[0].clone();
    for st in &stores[1..] {
        for (i, gl) in st.iter().enumerate() {
            for c in &gl.comps {
                if !u[i].comps.contains(c) {
                    u[i].comps.push(c.clone());
                }
            }
        }
    }
    u
}

fn mcycle_corpus() -> Vec<MCycleCase> {
    let nd = || g(&[], 1, true);
    let mut v = Vec::new();
    let mut add = |label: &str, stores: Vec<Vec<G>>, flags: FlagV| v.push(MCycleCase { stores, flags, label: label.into() });
    // default: a simple, b -> a; other master: a -> b, b -> a
    let dflt = vec![nd(), g(&[], 1, true), g(&[(1, 0, 0)], 0, true)];
    let bold = vec![nd(), g(&[(2, 0, 0)], 0, true), g(&[(1, 0, 0)], 0, true)];
    add("cycle-only-in-second-master", vec![dflt.clone(), bold.clone()], FlagV::Default);
    add("cycle-only-in-second-master-flatten", vec![dflt.clone(), bold.clone()], FlagV::Flatten);
    add("cycle-only-in-second-master-decompose", vec![dflt.clone(), bold.clone()], FlagV::Decompose);
    add("cycle-only-in-third-master", vec![dflt.clone(), dflt.clone(), bold.clone()], FlagV::Default);
    // self reference only in the second master
    add("self-reference-only-in-second-master", vec![dflt.clone(), vec![nd(), g(&[(1, 5, 0)], 0, true), g(&[(1, 0, 0)], 0, true)]], FlagV::Default);
    // cycle closed by edges from two different masters: a -> b in master 2, b -> a in the default
    add("cycle-across-masters", vec![vec![nd(), g(&[], 1, true), g(&[(1, 0, 0)], 0, true)], vec![nd(), g(&[(2, 0, 0)], 0, true), g(&[], 1, true)]], FlagV::Default);
    // the same composites in every master (no cycle): must compile
    add("consistent-composites", vec![dflt.clone(), dflt.clone()], FlagV::Default);
    v
}

fn gen_mcycle(rng: &mut Rng) -> MCycleCase {
    let n = rng.range(3, 6) as usize;
    let nmasters = rng.range(2, 3) as usize;
    // default master: acyclic (components point to lower ids only)
    let mut dflt = vec![g(&[], 1, true)];
    for i in 1..n {
        if i == 1 || rng.chance(1, 2) {
            dflt.push(g(&[], 1, true));
        } else {
            let b = rng.range(1, i as i64 - 1) as usize;
            dflt.push(g(&[(b, rng.range(-2, 2) * 10, 0)], 0, true));
        }
    }
    let mut stores = vec![dflt.clone()];
    for _ in 1..nmasters {
        let mut st = dflt.clone();
        // redirect or add a few components, possibly upwards (closing a cycle) or to itself
        for _ in 0..rng.range(1, 2) {
            let i = rng.range(1, n as i64 - 1) as usize;
            let b = rng.range(1, n as i64 - 1) as usize;
            st[i] = g(&[(b, rng.range(-2, 2) * 10, 0)], 0, true);
        }
        stores.push(st);
    }
    let flags = match rng.below(5) {
        0 => FlagV::Flatten,
        1 => FlagV::Decompose,
        2 => FlagV::NoPreferSimple,
        _ => FlagV::Default,
    };
    let cyc = has_cycle(&union_store(&stores));
    MCycleCase { stores, flags, label: format!("gen-{}", if cyc { "cyclic" } else { "acyclic" }) }
}

fn run_mcycle(c: &MCycleCase) -> Run {
    let tmp = scratch_dir("c15mg");
    let src = mcycle_design(&c.stores).write(&tmp.path().join("src"));
    run_fontc(&src, &c.flags.cli(), &tmp.path().join("out.ttf"))
}

fn coq_glyph(gl: &G) -> String {
    format!(
        "mkGlyph {} {} {}",
        coq_list(&gl.comps, |c| format!("mkComp {} {} {}", c.base, coq_z(c.dx), coq_z(c.dy))),
        gl.contours,
        coq_bool(gl.export)
    )
}
fn coq_store(store: &[G]) -> String {
    coq_list(store, coq_glyph)
}
fn store_json(store: &[G]) -> Value {
    Value::Array(
        store
            .iter()
            .enumerate()
            .map(|(i, gl)| {
                json!({"id": i, "name": gname(i), "contours": gl.contours, "export": gl.export,
                       "comps": gl.comps.iter().map(|c| json!([c.base, c.dx, c.dy])).collect::<Vec<_>>()})
            })
            .collect(),
    )
}
fn store_sig(store: &[G], flags: FlagV) -> String {
    let mut s = format!("G|{}", flags.name());
    for gl in store {
        s.push_str(&format!("|{}{}", gl.contours, if gl.export { "e" } else { "n" }));
        for c in &gl.comps {
            s.push_str(&format!(",{}@{},{}", c.base, c.dx, c.dy));
        }
    }
    s
}

fn corpus() -> Vec<GraphCase> {
    let nd = || g(&[], 1, true);
    let simple = || g(&[], 1, true);
    let mut v = Vec::new();
    let mut add = |label: &str, store: Vec<G>, flags: FlagV| v.push(GraphCase { store, flags, label: label.into(), corpus: true });
    let two = |a: (i64, i64), b: (i64, i64)| vec![nd(), g(&[(2, a.0, a.1)], 0, true), g(&[(1, b.0, b.1)], 0, true)];
    add("2-cycle", two((0, 0), (0, 0)), FlagV::Default);
    add("self-loop", vec![nd(), g(&[(1, 0, 0)], 0, true), simple()], FlagV::Default);
    add("3-cycle", vec![nd(), g(&[(2, 0, 0)], 0, true), g(&[(3, 10, 0)], 0, true), g(&[(1, 0, 0)], 0, true)], FlagV::Default);
    add("2-cycle-mixed-member", vec![nd(), g(&[(2, 0, 0)], 1, true), g(&[(1, 0, 0)], 0, true)], FlagV::Default);
    add("2-cycle-nonexport-zero-net", vec![nd(), g(&[(2, 10, 0)], 0, true), g(&[(1, -10, 0)], 0, false)], FlagV::Default);
    add("2-cycle-nonexport-nonzero-net", vec![nd(), g(&[(2, 10, 0)], 0, true), g(&[(1, 10, 0)], 0, false)], FlagV::Default);
    add("2-cycle-flatten", two((0, 0), (0, 0)), FlagV::Flatten);
    add("2-cycle-decompose-zero-net", two((0, 0), (0, 0)), FlagV::Decompose);
    add("2-cycle-decompose-nonzero-net", two((10, 0), (0, 0)), FlagV::Decompose);
    let nested = || vec![nd(), simple(), g(&[(1, 10, 0)], 0, true), g(&[(2, 0, 10)], 0, true), g(&[(3, 3, 0)], 0, true)];
    add("nested-depth3", nested(), FlagV::Default);
    add("nested-depth3-flatten", nested(), FlagV::Flatten);
    add("nested-depth3-decompose", nested(), FlagV::Decompose);
    add("missing-component", vec![nd(), simple(), g(&[(1, 0, 0), (MISSING, 10, 0)], 0, true)], FlagV::Default);
    let mixed = || vec![nd(), simple(), g(&[(1, 25, 0)], 1, true)];
    add("mixed-off-cycle-prefer-simple", mixed(), FlagV::Default);
    add("mixed-off-cycle-no-prefer-simple", mixed(), FlagV::NoPreferSimple);
    v
}

const TR: [i64; 7] = [0, 0, 0, 10, -10, 25, 3];

fn gen_graph(rng: &mut Rng) -> GraphCase {
    let n = rng.range(3, 6) as usize;
    let mut store = vec![g(&[], 1, true)];
    for i in 1..n {
        let contours = rng.below(3) as usize;
        let export = rng.chance(8, 10);
        let nc = rng.below(3) as usize;
        let mut comps = Vec::new();
        for _ in 0..nc {
            let base = if rng.chance(85, 100) { rng.below(i as u64) as usize } else { rng.below(n as u64) as usize };
            comps.push(Comp { base, dx: *rng.pick(&TR), dy: *rng.pick(&TR) });
        }
        store.push(G { comps, contours, export });
    }
    let label;
    let m = rng.below(100);
    if m < 40 {
        label = "none".to_string();
    } else if m < 75 {
        // a cycle of length 1..=4 through randomly chosen glyphs (never .notdef)
        let mut members: Vec<usize> = (1..n).collect();
        rng.shuffle(&mut members);
        let len = (rng.range(1, 4) as usize).min(members.len());
        members.truncate(len);
        let zero_net = rng.chance(1, 2);
        let mut tr: Vec<(i64, i64)> = (0..len).map(|_| (*rng.pick(&TR), *rng.pick(&TR))).collect();
        let (sx, sy) = tr[..len - 1].iter().fold((0, 0), |a, t| (a.0 + t.0, a.1 + t.1));
        if zero_net {
            tr[len - 1] = (-sx, -sy);
        } else if (sx + tr[len - 1].0, sy + tr[len - 1].1) == (0, 0) {
            tr[len - 1].0 += 10;
        }
        for k in 0..len {
            let v = members[k];
            let c = Comp { base: members[(k + 1) % len], dx: tr[k].0, dy: tr[k].1 };
            // members start as pure, exported composites
            store[v].contours = 0;
            store[v].export = true;
            if !store[v].comps.is_empty() && rng.chance(1, 2) {
                store[v].comps[0] = c;
            } else {
                store[v].comps.push(c);
            }
        }
        let mut l = format!("cycle{}-{}", len, if zero_net { "zero" } else { "nonzero" });
        if rng.chance(3, 10) {
            let v = *rng.pick(&members);
            store[v].contours = 1 + rng.below(2) as usize;
            l.push_str("-mixed");
        }
        if rng.chance(3, 10) {
            let v = *rng.pick(&members);
            store[v].export = false;
            l.push_str("-nonexport");
        }
        label = l;
    } else if m < 85 {
        let v = rng.range(1, n as i64 - 1) as usize;
        store[v].comps.push(Comp { base: MISSING, dx: *rng.pick(&TR), dy: *rng.pick(&TR) });
        label = "missing-ref".to_string();
    } else if m < 92 {
        let v = rng.range(1, n as i64 - 1) as usize;
        if store[v].comps.is_empty() {
            let base = rng.below(v as u64) as usize;
            store[v].comps.push(Comp { base, dx: 0, dy: 0 });
        }
        let c = store[v].comps[0].clone();
        store[v].comps.push(c);
        label = "duplicate-component".to_string();
    } else {
        let v = rng.range(1, n as i64 - 1) as usize;
        if store[v].comps.is_empty() {
            let base = rng.below(v as u64) as usize;
            store[v].comps.push(Comp { base, dx: *rng.pick(&TR), dy: *rng.pick(&TR) });
        }
        if store[v].contours == 0 {
            store[v].contours = 1;
        }
        label = "mixed".to_string();
    }
    let f = rng.below(100);
    let flags = if f < 60 {
        FlagV::Default
    } else if f < 72 {
        FlagV::Flatten
    } else if f < 84 {
        FlagV::Decompose
    } else if f < 94 {
        FlagV::NoPreferSimple
    } else {
        FlagV::PropagateAnchors
    };
    GraphCase { store, flags, label, corpus: false }
}

// ------------------------------------------------------------------ depth sort (in process)
#[derive(Clone, Debug)]
struct DepthCase {
    /// per node: component base ids (MISSING = a name that is not in the map)
    nodes: Vec<Vec<usize>>,
}
struct Mock {
    name: SmolStr,
    comps: Vec<SmolStr>,
}
impl CompositeLike for Mock {
    fn name(&self) -> SmolStr {
        self.name.clone()
    }
    fn has_components(&self) -> bool {
        !self.comps.is_empty()
    }
    fn component_names(&self) -> impl Iterator<Item = SmolStr> {
        self.comps.iter().cloned()
    }
}
fn dname(i: usize) -> String {
    if i == MISSING { "zz".into() } else { format!("g{:02}", i) }
}

fn gen_depth(rng: &mut Rng) -> DepthCase {
    let n = rng.range(1, 8) as usize;
    let mut nodes = Vec::new();
    for i in 0..n {
        let mut comps = Vec::new();
        if !rng.chance(4, 10) {
            let k = rng.range(1, 3);
            for _ in 0..k {
                let r = rng.below(100);
                let b = if r < 70 && i > 0 {
                    rng.below(i as u64) as usize
                } else if r < 92 {
                    rng.below(n as u64) as usize
                } else {
                    MISSING
                };
                comps.push(b);
            }
            if rng.chance(15, 100) {
                let d = *rng.pick(&comps);
                comps.push(d);
            }
        }
        nodes.push(comps);
    }
    DepthCase { nodes }
}

fn run_depth(c: &DepthCase) -> Result<Vec<String>, String> {
    let mut m: BTreeMap<SmolStr, Mock> = BTreeMap::new();
    for (i, comps) in c.nodes.iter().enumerate() {
        let name = SmolStr::new(dname(i));
        m.insert(name.clone(), Mock { name, comps: comps.iter().map(|b| SmolStr::new(dname(*b))).collect() });
    }
    match std::panic::catch_unwind(std::panic::AssertUnwindSafe(|| depth_sorted_composite_glyphs(&m))) {
        Ok(v) => Ok(v.into_iter().map(|s| s.to_string()).collect()),
        Err(p) => Err(p.downcast_ref::<String>().cloned().or_else(|| p.downcast_ref::<&str>().map(|s| s.to_string())).unwrap_or_else(|| "panic".into())),
    }
}

// ------------------------------------------------------------------ malformed sources
type Tree = BTreeMap<String, Vec<u8>>;
struct Base {
    /// "ufo" | "designspace" | "glyphs" | "glyphspackage" | "fontra"
    kind: &'static str,
    label: String,
    entry: String,
    files: Tree,
}
#[derive(Clone, Debug)]
struct MalCase {
    base: usize,
    ov: BTreeMap<String, Option<Vec<u8>>>,
    muts: Vec<Value>,
    ops: Vec<String>,
    formats: Vec<String>,
}

fn read_tree(root: &Path, rel: &str, out: &mut Tree) {
    let p = root.join(rel);
    if p.is_dir() {
        let mut names: Vec<String> = std::fs::read_dir(&p).map(|d| d.filter_map(|e| e.ok()).map(|e| e.file_name().to_string_lossy().into_owned()).collect()).unwrap_or_default();
        names.sort();
        for nme in names {
            read_tree(root, &format!("{}/{}", rel, nme), out);
        }
    } else if let Ok(b) = std::fs::read(&p) {
        out.insert(rel.to_string(), b);
    }
}

fn write_tree(root: &Path, base: &Base, ov: &BTreeMap<String, Option<Vec<u8>>>) {
    for (p, content) in &base.files {
        let c = match ov.get(p) {
            Some(None) => continue,
            Some(Some(v)) => v,
            None => content,
        };
        let path = root.join(p);
        if let Some(par) = path.parent() {
            let _ = std::fs::create_dir_all(par);
        }
        let _ = std::fs::write(&path, c);
    }
    // files a mutation adds to the tree
    for (p, content) in ov {
        if let (false, Some(c)) = (base.files.contains_key(p), content) {
            let path = root.join(p);
            if let Some(par) = path.parent() {
                let _ = std::fs::create_dir_all(par);
            }
            let _ = std::fs::write(&path, c);
        }
    }
}

/// FEA include graphs (fea-rs/src/parse/context.rs): self include, 2-cycle, a chain deeper than
/// MAX_INCLUDE_DEPTH. Fixed corpus on the generated UFO (base 0); predicate only.
fn fea_include_corpus(base: &Base) -> Vec<MalCase> {
    let Some(fea_path) = base.files.keys().find(|k| k.ends_with("features.fea")).cloned() else {
        return vec![];
    };
    let dir = fea_path.trim_end_matches("features.fea").to_string();
    let mk = |name: &str, files: Vec<(String, String)>| {
        let mut ov = BTreeMap::new();
        for (f, c) in files {
            ov.insert(f, Some(c.into_bytes()));
        }
        MalCase { base: 0, ov, muts: vec![json!({"op": format!("fea-include:{name}"), "file": fea_path.clone()})], ops: vec![format!("fea-include:{name}")], formats: vec!["fea".into()] }
    };
    let rule = "feature liga { sub A by B; } liga;\n";
    let mut chain: Vec<(String, String)> = vec![(fea_path.clone(), "include(i0.fea);\n".to_string())];
    for i in 0..60 {
        chain.push((format!("{dir}i{i}.fea"), format!("include(i{}.fea);\n", i + 1)));
    }
    chain.push((format!("{dir}i60.fea"), rule.to_string()));
    vec![
        mk("self", vec![(fea_path.clone(), format!("include(features.fea);\n{rule}"))]),
        mk("two-cycle", vec![
            (fea_path.clone(), "include(x.fea);\n".to_string()),
            (format!("{dir}x.fea"), "include(y.fea);\n".to_string()),
            (format!("{dir}y.fea"), "include(x.fea);\n".to_string()),
        ]),
        mk("chain-60", chain),
    ]
}

/// Inputs that are known to take the unrepaired process down, so that every run reports the
/// same violation keys whatever the seed: parser nesting bombs (glyphs-reader plist parser,
/// norad/plist deserialiser) and two number-parsing unwraps of glyphs-reader. Predicate only.
fn crash_corpus(bases: &[Base]) -> Vec<MalCase> {
    const D: usize = 20000;
    let mut out = Vec::new();
    let find = |label: &str| bases.iter().position(|b| b.label == label);
    let mut push = |bi: usize, file: String, content: Vec<u8>, op: &str, fmt: &str| {
        let mut ov = BTreeMap::new();
        let n = content.len();
        ov.insert(file.clone(), Some(content));
        out.push(MalCase { base: bi, ov, muts: vec![json!({"op": op, "file": file, "bytes": n})], ops: vec![op.to_string()], formats: vec![fmt.to_string()] });
    };
    if let Some(bi) = find("glyphs3/WghtVar.glyphs") {
        let f = bases[bi].entry.clone();
        push(bi, f.clone(), format!("{{\n{}", "a = {".repeat(D)).into_bytes(), "nest-bomb:glyphs-braces", "glyphs");
        push(bi, f, format!("{{\nuserData = {}", "(".repeat(D)).into_bytes(), "nest-bomb:glyphs-parens", "glyphs");
    }
    if let Some(bi) = find("generated-designspace") {
        let f = bases[bi].entry.clone();
        push(bi, f, format!("<?xml version='1.0' encoding='UTF-8'?>\n<designspace format=\"4.1\">\n<lib>\n{}", "<dict><key>a</key>".repeat(D)).into_bytes(), "nest-bomb:designspace-lib-dicts", "designspace");
    }
    if let Some(bi) = find("generated-ufo") {
        if let Some(f) = bases[bi].files.keys().find(|k| k.ends_with("metainfo.plist")).cloned() {
            push(bi, f, format!("{}{}", PLIST_HEAD, "<dict><key>a</key>".repeat(D)).into_bytes(), "nest-bomb:plist-dicts", "plist");
        }
    }
    if let Some(bi) = find("glyphs3/NestedComponent.glyphs") {
        let f = bases[bi].entry.clone();
        if let Some(t) = bases[bi].files.get(&f).map(|b| String::from_utf8_lossy(b).into_owned()) {
            if t.contains("unicode = 44;") {
                push(bi, f, t.replacen("unicode = 44;", "unicode = 0.0000000001;", 1).into_bytes(), "number-out-of-range:unicode", "glyphs");
            }
        }
    }
    if let Some(bi) = find("glyphs2/WghtVar.glyphs") {
        let f = bases[bi].entry.clone();
        if let Some(t) = bases[bi].files.get(&f).map(|b| String::from_utf8_lossy(b).into_owned()) {
            if let Some(i) = t.find("nodes = (\n\"") {
                let j = i + "nodes = (\n\"".len();
                let mut m = t.clone();
                m.insert_str(j, "abc ");
                push(bi, f, m.into_bytes(), "token-soup:node-string", "glyphs");
            }
        }
    }
    out
}

const FEA: &str = "languagesystem DFLT dflt;\nlanguagesystem latn dflt;\n@caps = [A B];\nfeature liga {\n    sub A B by Aacute;\n} liga;\nfeature ss01 {\n    sub A by B;\n} ss01;\n";

fn base_glyphs(bold: bool) -> Vec<GlyphSrc> {
    let w = if bold { 40.0 } else { 0.0 };
    vec![
        GlyphSrc::new(".notdef", 500.0).rect(50.0, 0.0, 450.0, 700.0),
        GlyphSrc::new("space", 250.0 + w).uni(0x20),
        GlyphSrc::new("A", 600.0 + w).uni(0x41).rect(50.0, 0.0, 550.0 + w, 700.0).anchor("top", 300.0, 700.0),
        GlyphSrc::new("B", 580.0 + w).uni(0x42).rect(60.0, 0.0, 500.0 + w, 700.0).rect(150.0, 100.0, 400.0, 300.0),
        GlyphSrc::new("acutecomb", 0.0).uni(0x301).rect(-60.0, 720.0, 60.0 + w, 800.0).anchor("_top", 0.0, 700.0),
        GlyphSrc::new("Aacute", 600.0 + w).uni(0xC1).comp("A", [1.0, 0.0, 0.0, 1.0, 0.0, 0.0]).comp("acutecomb", [1.0, 0.0, 0.0, 1.0, 300.0, 0.0]),
    ]
}
fn base_master(name: &str, bold: bool) -> Master {
    Master {
        name: name.into(),
        style: name.into(),
        location: vec![("Weight".into(), if bold { 700.0 } else { 400.0 })],
        glyphs: base_glyphs(bold),
        kerning: vec![
            ("public.kern1.A".into(), "public.kern2.B".into(), if bold { -30.0 } else { -20.0 }),
            ("A".into(), "A".into(), -10.0),
            ("B".into(), "public.kern2.B".into(), 5.0),
        ],
        groups: vec![("public.kern1.A".into(), vec!["A".into(), "Aacute".into()]), ("public.kern2.B".into(), vec!["B".into()])],
        features: Some(FEA.into()),
        glyph_order: Some(vec![".notdef".into(), "space".into(), "A".into(), "B".into(), "acutecomb".into(), "Aacute".into()]),
        ..Default::default()
    }
}
fn base_ufo_design() -> Design {
    Design { family: "C15Base".into(), upem: 1000, masters: vec![base_master("Regular", false)], ..Default::default() }
}
fn base_ds_design() -> Design {
    let inst = |style: &str, w: f64| InstanceSrc { family: "C15DS".into(), style: style.into(), postscript: Some(format!("C15DS-{style}")), location: vec![("Weight".into(), w)] };
    Design {
        family: "C15DS".into(),
        upem: 1000,
        axes: vec![AxisSrc { name: "Weight".into(), tag: "wght".into(), min: 400.0, default: 400.0, max: 700.0, map: vec![], hidden: false }],
        masters: vec![base_master("Regular", false), base_master("Bold", true)],
        instances: vec![inst("Regular", 400.0), inst("Medium", 550.0), inst("Bold", 700.0)],
        ..Default::default()
    }
}

fn generated_base(kind: &'static str, d: &Design) -> Base {
    let tmp = scratch_dir("c15-base");
    let entry = d.write(tmp.path());
    let entry_rel = entry.strip_prefix(tmp.path()).unwrap().to_string_lossy().into_owned();
    let mut files = Tree::new();
    let mut names: Vec<String> = std::fs::read_dir(tmp.path()).unwrap().filter_map(|e| e.ok()).map(|e| e.file_name().to_string_lossy().into_owned()).collect();
    names.sort();
    for nme in names {
        read_tree(tmp.path(), &nme, &mut files);
    }
    Base { kind, label: format!("generated-{kind}"), entry: entry_rel, files }
}

fn real_base(kind: &'static str, rel: &str) -> Option<Base> {
    let src = Path::new(&*REPO).join("resources/testdata").join(rel);
    if !src.exists() {
        return None;
    }
    let name = src.file_name()?.to_string_lossy().into_owned();
    let mut files = Tree::new();
    read_tree(src.parent()?, &name, &mut files);
    if files.is_empty() || files.values().map(|v| v.len()).sum::<usize>() > 400_000 {
        return None;
    }
    Some(Base { kind, label: rel.to_string(), entry: name, files })
}

fn format_of(path: &str, base_kind: &str) -> &'static str {
    if path.ends_with(".fea") {
        "fea"
    } else if path.ends_with(".glif") {
        "glif"
    } else if path.ends_with(".designspace") {
        "designspace"
    } else if path.ends_with(".glyphs") || path.ends_with(".glyph") {
        "glyphs"
    } else if path.ends_with(".plist") {
        if base_kind == "glyphspackage" { "glyphs" } else { "plist" }
    } else if path.ends_with(".json") || path.ends_with(".csv") || base_kind == "fontra" {
        "fontra"
    } else {
        "other"
    }
}

fn fnv(b: &[u8]) -> String {
    let mut h: u64 = 0xcbf29ce484222325;
    for x in b {
        h ^= *x as u64;
        h = h.wrapping_mul(0x100000001b3);
    }
    format!("{:016x}", h)
}

const OOR: [&str; 9] = ["1e308", "-1e309", "nan", "inf", "99999999999999999999", "-32769", "65536", "0.0000000001", "-0"];
const FEA_VOCAB: [&str; 52] = [
    "feature", "lookup", "sub", "by", "pos", "languagesystem", "DFLT", "dflt", "latn", "script", "language", "liga", "kern", "{", "}", "[", "]", "(", ")", ";", "@c", "=", "A", "B",
    "Aacute", "acutecomb", "'", "<", ">", "-20", "100", "0", "\\A", "include", "table", "GDEF", "GlyphClassDef", ",", "#", "anchor", "mark", "markClass", "ignore", "from",
    "useExtension", "NULL", "\"str\"", "0x41", "1.5", "-", "cid1", "A-B",
];
const XML_VOCAB: [&str; 56] = [
    "<dict>", "</dict>", "<key>", "</key>", "<array>", "</array>", "<string>", "</string>", "<integer>", "</integer>", "<real>", "</real>", "<true/>", "<false/>", "&", "<", ">", "\"", "'",
    "&amp;", "&#x41;", "&bogus;", "<?xml version=\"1.0\" encoding=\"UTF-8\"?>", "<plist version=\"1.0\">", "</plist>", "unitsPerEm", "familyName", "1000", "-1", "1e308", "<!--", "-->",
    "<![CDATA[", "]]>", "<glyph name=\"A\" format=\"2\">", "</glyph>", "<outline>", "</outline>", "<contour>", "</contour>", "<point x=\"1\" y=\"2\" type=\"line\"/>",
    "<component base=\"A\"/>", "<advance width=\"500\"/>", "<designspace format=\"4.1\">", "</designspace>", "<axes>", "</axes>",
    "<axis tag=\"wght\" name=\"Weight\" minimum=\"400\" maximum=\"700\" default=\"400\"/>", "<sources>", "</sources>", "<source filename=\"Regular.ufo\">", "</source>", "<location>",
    "</location>", "<dimension name=\"Weight\" xvalue=\"400\"/>", "<lib>",
];
const GLYPHS_VOCAB: [&str; 44] = [
    "{", "}", "(", ")", "=", ";", ",", "\"str\"", "\"\"", "1", "-1", "1.5", "1e308", "glyphs", "layers", "shapes", "ref", "nodes", "fontMaster", "fontMasters", "axes", "glyphname", "layerId",
    "\"m01\"", "id", "name", "unitsPerEm", "familyName", "width", "pos", "closed", "(0,0,l)", "instances", ".appVersion", "\"3300\"", "unicode", "0041", "<", "data", ">", "/*", "*/", "\\",
    "\"unterminated",
];
const PLIST_HEAD: &str = "<?xml version=\"1.0\" encoding=\"UTF-8\"?>\n<!DOCTYPE plist PUBLIC \"-//Apple//DTD PLIST 1.0//EN\" \"http://www.apple.com/DTDs/PropertyList-1.0.dtd\">\n<plist version=\"1.0\">\n";

fn token_soup(rng: &mut Rng, fmt: &str) -> (Vec<u8>, usize) {
    let k = rng.range(5, 60) as usize;
    let vocab: &[&str] = match fmt {
        "fea" => &FEA_VOCAB,
        "glyphs" => &GLYPHS_VOCAB,
        _ => &XML_VOCAB,
    };
    let mut s = String::new();
    let wrap = rng.chance(1, 2);
    if wrap {
        match fmt {
            "glyphs" => s.push_str("{\n"),
            "plist" => s.push_str(PLIST_HEAD),
            "glif" => s.push_str("<?xml version=\"1.0\" encoding=\"UTF-8\"?>\n<glyph name=\"A\" format=\"2\">\n"),
            "designspace" => s.push_str("<?xml version='1.0' encoding='UTF-8'?>\n<designspace format=\"4.1\">\n"),
            _ => {}
        }
    }
    for i in 0..k {
        if i > 0 {
            s.push(if rng.chance(1, 6) { '\n' } else { ' ' });
        }
        s.push_str(*rng.pick::<&str>(vocab));
    }
    if wrap && fmt == "glyphs" {
        s.push_str("\n}\n");
    }
    s.push('\n');
    (s.into_bytes(), k)
}

fn nest_bomb(rng: &mut Rng, fmt: &str) -> (Vec<u8>, String) {
    const D: usize = 20000;
    match fmt {
        "fea" => match rng.below(4) {
            0 => (format!("languagesystem DFLT dflt;\nfeature test {{\n{}", "{".repeat(D)).into_bytes(), "fea-braces".into()),
            1 => (format!("feature test {{\n sub A by {};\n}} test;\n", "(".repeat(D)).into_bytes(), "fea-parens".into()),
            2 => (format!("@c = {}A{};\n", "[".repeat(D), "]".repeat(D)).into_bytes(), "fea-class-brackets".into()),
            _ => (format!("feature test {{\n sub {} by A;\n}} test;\n", "a".repeat(200_000)).into_bytes(), "fea-200kB-token".into()),
        },
        "glyphs" => match rng.below(2) {
            0 => (format!("{{\nuserData = {}", "(".repeat(D)).into_bytes(), "glyphs-parens".into()),
            _ => (format!("{{\n{}", "a = {".repeat(D)).into_bytes(), "glyphs-braces".into()),
        },
        "glif" => (
            format!("<?xml version=\"1.0\" encoding=\"UTF-8\"?>\n<glyph name=\"A\" format=\"2\">\n<advance width=\"600\"/>\n<lib>\n{}", "<array>".repeat(D)).into_bytes(),
            "glif-lib-arrays".into(),
        ),
        "designspace" => (
            format!("<?xml version='1.0' encoding='UTF-8'?>\n<designspace format=\"4.1\">\n<lib>\n{}", "<dict><key>a</key>".repeat(D)).into_bytes(),
            "designspace-lib-dicts".into(),
        ),
        _ => match rng.below(2) {
            0 => (format!("{}{}", PLIST_HEAD, "<array>".repeat(D)).into_bytes(), "plist-arrays".into()),
            _ => (format!("{}{}", PLIST_HEAD, "<dict><key>a</key>".repeat(D)).into_bytes(), "plist-dicts".into()),
        },
    }
}

fn remove_block(t: &str, open: &str, close: &str, with: &str) -> String {
    if let (Some(a), Some(b)) = (t.find(open), t.find(close)) {
        if a < b {
            return format!("{}{}{}", &t[..a], with, &t[b + close.len()..]);
        }
    }
    t.to_string()
}

fn ds_degenerate(rng: &mut Rng, t: &str) -> (String, &'static str) {
    match rng.below(13) {
        0 => (t.replacen("maximum=\"700\"", "maximum=\"400\"", 1), "axis-min-eq-max"),
        1 => (t.replacen("default=\"400\"", "default=\"1000\"", 1), "default-outside-range"),
        2 => (t.replacen("minimum=\"400\"", "minimum=\"900\"", 1), "axis-min-gt-max"),
        3 => (remove_block(t, "  <sources>", "</sources>\n", if rng.chance(1, 2) { "" } else { "  <sources/>\n" }), "no-sources"),
        4 => {
            let mut r = t.to_string();
            if let (Some(a), Some(b)) = (t.find("    <source "), t.find("</source>\n")) {
                if a < b {
                    let blk = &t[a..b + "</source>\n".len()];
                    r.insert_str(a, blk);
                }
            }
            (r, "duplicate-source-same-location")
        }
        5 => (t.replacen("filename=\"Bold.ufo\"", "filename=\"Nope.ufo\"", 1), "source-missing-ufo"),
        6 => {
            let mut r = t.to_string();
            if let Some(a) = t.find("<sources>") {
                r = format!("{}{}", &t[..a], t[a..].replacen("xvalue=\"400\"", "xvalue=\"500\"", 1));
            }
            (r, "no-source-at-default")
        }
        7 => (
            t.replacen("  <axes>\n", "  <axes>\n    <axis tag=\"wght\" name=\"Weight2\" minimum=\"400\" maximum=\"700\" default=\"400\"/>\n", 1),
            "duplicate-axis-tag",
        ),
        8 => (t.replacen("name=\"Weight\"", "name=\"\"", 1), "empty-axis-name"),
        9 => (remove_block(t, "  <instances>", "</instances>\n", if rng.chance(1, 2) { "  <instances/>\n" } else { "  <instances></instances>\n" }), "empty-instances"),
        10 => (
            t.replacen(
                "default=\"400\"/>",
                "default=\"400\">\n      <map input=\"400\" output=\"400\"/>\n      <map input=\"400\" output=\"500\"/>\n      <map input=\"700\" output=\"700\"/>\n      <map input=\"700\" output=\"650\"/>\n    </axis>",
                1,
            ),
            "map-repeated-inputs",
        ),
        11 => (t.replacen(if rng.chance(1, 2) { "xvalue=\"700\"" } else { "xvalue=\"400\"" }, "xvalue=\"nan\"", 1), "nan-location"),
        _ => (t.replacen("  <axes>\n", "  <axes>\n    <axis tag=\"wdth\" name=\"Width\" minimum=\"100\" maximum=\"100\" default=\"100\"/>\n", 1), "extra-point-axis"),
    }
}

/// numeric literals: [-]digits[.digits] not glued to a name
fn numeric_spans(b: &[u8]) -> Vec<(usize, usize)> {
    let mut v = Vec::new();
    let mut i = 0;
    while i < b.len() {
        if b[i].is_ascii_digit() {
            let mut s = i;
            let prev = if s > 0 { b[s - 1] } else { b' ' };
            let mut e = i;
            while e < b.len() && (b[e].is_ascii_digit() || (b[e] == b'.' && e + 1 < b.len() && b[e + 1].is_ascii_digit())) {
                e += 1;
            }
            let glued = prev.is_ascii_alphanumeric() || prev == b'_' || prev == b'.';
            let next_glued = e < b.len() && (b[e].is_ascii_alphabetic() || b[e] == b'_');
            if !glued && !next_glued {
                if prev == b'-' {
                    s -= 1;
                }
                v.push((s, e));
            }
            i = e.max(i + 1);
        } else {
            i += 1;
        }
    }
    v
}

fn line_spans(b: &[u8]) -> Vec<(usize, usize)> {
    let mut v = Vec::new();
    let mut s = 0;
    for (i, c) in b.iter().enumerate() {
        if *c == b'\n' {
            v.push((s, i + 1));
            s = i + 1;
        }
    }
    if s < b.len() {
        v.push((s, b.len()));
    }
    v
}

fn mutate_once(rng: &mut Rng, base: &Base, case: &mut MalCase) {
    let live: Vec<&String> = base.files.keys().filter(|k| !matches!(case.ov.get(*k), Some(None))).collect();
    if live.is_empty() {
        return;
    }
    let cur = |case: &MalCase, f: &str| -> Vec<u8> {
        match case.ov.get(f) {
            Some(Some(v)) => v.clone(),
            _ => base.files.get(f).cloned().unwrap_or_default(),
        }
    };
    let entry_is_file = base.files.contains_key(&base.entry);
    let pick_file = |rng: &mut Rng| -> String {
        if entry_is_file && live.iter().any(|f| **f == base.entry) && rng.chance(1, 3) {
            base.entry.clone()
        } else {
            (*rng.pick(&live)).clone()
        }
    };
    loop {
        // designspace bases: a third of the mutations are the degenerate-designspace edits
        let ds_ok = base.kind == "designspace" && live.iter().any(|f| **f == base.entry);
        let w = if ds_ok && rng.chance(30, 100) { 90 } else { rng.below(100) };
        if w < 14 {
            let f = pick_file(rng);
            let c = cur(case, &f);
            let off = if rng.chance(1, 8) { 0 } else { rng.below(c.len() as u64 + 1) as usize };
            let n = c[..off.min(c.len())].to_vec();
            case.muts.push(json!({"file": f, "op": "truncate", "offset": off, "of": c.len()}));
            case.ops.push("truncate".into());
            case.formats.push(format_of(&f, base.kind).into());
            case.ov.insert(f, Some(n));
        } else if w < 28 {
            let f = pick_file(rng);
            let mut c = cur(case, &f);
            if c.is_empty() {
                continue;
            }
            let k = rng.range(1, 8) as usize;
            let mut edits = Vec::new();
            for _ in 0..k {
                let off = rng.below(c.len() as u64) as usize;
                let val = match rng.below(4) {
                    0 => c[off] ^ (1 << rng.below(8)),
                    1 => *rng.pick(&[0u8, 0xff, 0x80, b'<', b'>', b'&', b'"', b'{', b'(', b';', b'\n', b'\\']),
                    _ => rng.below(256) as u8,
                };
                c[off] = val;
                edits.push(json!([off, val]));
            }
            case.muts.push(json!({"file": f, "op": "bytes", "edits": edits}));
            case.ops.push("bytes".into());
            case.formats.push(format_of(&f, base.kind).into());
            case.ov.insert(f, Some(c));
        } else if w < 48 {
            let f = pick_file(rng);
            let c = cur(case, &f);
            let ls = line_spans(&c);
            if ls.len() < 2 {
                continue;
            }
            let i = rng.below(ls.len() as u64) as usize;
            let j = rng.below(ls.len() as u64) as usize;
            let op = if w < 36 { "delete-line" } else if w < 42 { "duplicate-line" } else { "swap-lines" };
            let mut n = Vec::new();
            for (k, (s, e)) in ls.iter().enumerate() {
                let seg = &c[*s..*e];
                match op {
                    "delete-line" => {
                        if k != i {
                            n.extend_from_slice(seg);
                        }
                    }
                    "duplicate-line" => {
                        n.extend_from_slice(seg);
                        if k == i {
                            if !seg.ends_with(b"\n") {
                                n.push(b'\n');
                            }
                            n.extend_from_slice(seg);
                        }
                    }
                    _ => {
                        let src = if k == i { j } else if k == j { i } else { k };
                        let sg = &c[ls[src].0..ls[src].1];
                        n.extend_from_slice(sg);
                        if !sg.ends_with(b"\n") && k + 1 < ls.len() {
                            n.push(b'\n');
                        }
                    }
                }
            }
            case.muts.push(json!({"file": f, "op": op, "line": i, "other": j, "lines": ls.len()}));
            case.ops.push(op.into());
            case.formats.push(format_of(&f, base.kind).into());
            case.ov.insert(f, Some(n));
        } else if w < 60 {
            let f = pick_file(rng);
            let c = cur(case, &f);
            let ns = numeric_spans(&c);
            if ns.is_empty() {
                continue;
            }
            let (s, e) = *rng.pick(&ns);
            let rep = *rng.pick(&OOR);
            let mut n = c[..s].to_vec();
            n.extend_from_slice(rep.as_bytes());
            n.extend_from_slice(&c[e..]);
            case.muts.push(json!({"file": f, "op": "number-out-of-range", "offset": s, "was": String::from_utf8_lossy(&c[s..e]), "now": rep}));
            case.ops.push("number-out-of-range".into());
            case.formats.push(format_of(&f, base.kind).into());
            case.ov.insert(f, Some(n));
        } else if w < 70 {
            // delete a file (structural ones preferred) or a whole master UFO
            let ufos: BTreeSet<String> = live.iter().filter_map(|f| f.find(".ufo/").map(|p| f[..p + 5].to_string())).collect();
            if base.kind == "designspace" && !ufos.is_empty() && rng.chance(1, 4) {
                let u: Vec<&String> = ufos.iter().collect();
                let d = (*rng.pick(&u)).clone();
                for f in base.files.keys().filter(|f| f.starts_with(&d)) {
                    case.ov.insert(f.clone(), None);
                }
                case.muts.push(json!({"file": d, "op": "delete-master-ufo"}));
                case.ops.push("delete-master-ufo".into());
                case.formats.push("ufo-dir".into());
            } else {
                let structural: Vec<&String> = live
                    .iter()
                    .copied()
                    .filter(|f| ["layercontents.plist", "contents.plist", "metainfo.plist", "fontinfo.plist", "lib.plist", "order.plist"].iter().any(|s| f.ends_with(s)))
                    .collect();
                let f = if !structural.is_empty() && rng.chance(1, 2) { (*rng.pick(&structural)).clone() } else { (*rng.pick(&live)).clone() };
                case.muts.push(json!({"file": f, "op": "delete-file"}));
                case.ops.push("delete-file".into());
                case.formats.push(format_of(&f, base.kind).into());
                case.ov.insert(f, None);
            }
        } else if w < 84 {
            let f = pick_file(rng);
            let fmt = format_of(&f, base.kind);
            let (n, k) = token_soup(rng, fmt);
            case.muts.push(json!({"file": f, "op": "token-soup", "tokens": k, "fnv": fnv(&n)}));
            case.ops.push("token-soup".into());
            case.formats.push(fmt.into());
            case.ov.insert(f, Some(n));
        } else if w < 94 {
            if !ds_ok {
                continue;
            }
            let c = cur(case, &base.entry);
            let (n, what) = ds_degenerate(rng, &String::from_utf8_lossy(&c));
            let op = format!("designspace:{what}");
            case.muts.push(json!({"file": base.entry, "op": op}));
            case.ops.push(op);
            case.formats.push("designspace".into());
            case.ov.insert(base.entry.clone(), Some(n.into_bytes()));
        } else {
            let f = pick_file(rng);
            let fmt = format_of(&f, base.kind);
            if fmt == "other" || fmt == "fontra" {
                continue;
            }
            let (n, what) = nest_bomb(rng, fmt);
            let op = format!("nest-bomb:{what}");
            case.muts.push(json!({"file": f, "op": op, "bytes": n.len()}));
            case.ops.push(op);
            case.formats.push(fmt.into());
            case.ov.insert(f, Some(n));
        }
        return;
    }
}

fn gen_malformed(rng: &mut Rng, bases: &[Base]) -> MalCase {
    // generated UFO 30%, generated designspace 35%, real sources 35%
    let r = rng.below(100);
    let bi = if bases.len() <= 2 {
        rng.below(bases.len() as u64) as usize
    } else if r < 30 {
        0
    } else if r < 65 {
        1
    } else {
        2 + rng.below(bases.len() as u64 - 2) as usize
    };
    let mut case = MalCase { base: bi, ov: BTreeMap::new(), muts: vec![], ops: vec![], formats: vec![] };
    mutate_once(rng, &bases[bi], &mut case);
    if rng.chance(3, 10) {
        mutate_once(rng, &bases[bi], &mut case);
    }
    case
}

// ------------------------------------------------------------------ cases, pool
enum Case {
    Graph(GraphCase),
    Depth(DepthCase),
    Mal(MalCase),
    Deep(DeepCase),
    GCycle(GCycleCase),
    MCycle(MCycleCase),
}

/// acyclic chain g00000 (simple), g_i = one identity component of g_{i-1}
#[derive(Clone, Debug)]
struct DeepCase {
    len: usize,
    flags: FlagV,
}
/// a real .glyphs source whose component references were edited (as text) into a cycle
#[derive(Clone, Debug)]
struct GCycleCase {
    base: String,
    label: String,
    file: String,
    text: String,
    edits: Vec<Value>,
}

fn run_deep(c: &DeepCase) -> Run {
    let tmp = scratch_dir("c15d");
    let mut glyphs = vec![GlyphSrc::new("g00000", 500.0).uni(0x41).rect(10.0, 0.0, 110.0, 100.0)];
    for i in 1..c.len {
        glyphs.push(GlyphSrc::new(&format!("g{:05}", i), 500.0).comp(&format!("g{:05}", i - 1), [1.0, 0.0, 0.0, 1.0, 0.0, 0.0]));
    }
    let mut d = Design::single("C15Deep", glyphs);
    d.masters[0].glyph_order = Some((0..c.len).map(|i| format!("g{:05}", i)).collect());
    let src = d.write(&tmp.path().join("src"));
    run_fontc_limit(&src, &c.flags.cli(), &tmp.path().join("out.ttf"), CPU_LIMIT_DEEP)
}
fn run_gcycle(c: &GCycleCase) -> Run {
    let tmp = scratch_dir("c15y");
    let root = tmp.path().join("src");
    let _ = std::fs::create_dir_all(&root);
    let src = root.join(&c.file);
    let _ = std::fs::write(&src, &c.text);
    run_fontc(&src, &[], &tmp.path().join("out.ttf"))
}

/// text edit: replace the `which`-th (0-based; usize::MAX = last) occurrence of `pat` by `with`
fn edit_nth(t: &str, pat: &str, which: usize, with: &str) -> Option<String> {
    let occ: Vec<usize> = t.match_indices(pat).map(|(i, _)| i).collect();
    let i = if which == usize::MAX { *occ.last()? } else { *occ.get(which)? };
    Some(format!("{}{}{}", &t[..i], with, &t[i + pat.len()..]))
}

/// mutants of real .glyphs sources with cyclic component references
fn glyphs_cycle_corpus(clean: &BTreeMap<String, bool>) -> (Vec<GCycleCase>, Vec<String>) {
    const LAST: usize = usize::MAX;
    // (base, label, [(pattern, occurrence, replacement)])
    let specs: Vec<(&str, &str, Vec<(&str, usize, &str)>)> = vec![
        // NestedComponent: period simple; c1 -> period; c3 -> period, c1, c2; c2 -> c1
        ("glyphs3/NestedComponent.glyphs", "g3-self-loop(c1->c1)", vec![("ref = period;", 0, "ref = c1;")]),
        ("glyphs3/NestedComponent.glyphs", "g3-2-cycle(c1->c2->c1)", vec![("ref = period;", 0, "ref = c2;")]),
        ("glyphs3/NestedComponent.glyphs", "g3-2-cycle(c3->c2->c3)", vec![("ref = c1;", LAST, "ref = c3;")]),
        ("glyphs3/NestedComponent.glyphs", "g3-2-cycle-mixed(period+contour->c1->period)", vec![("(238,112,l)\n);\n}\n", 0, "(238,112,l)\n);\n},\n{\nref = c1;\n}\n")]),
        ("glyphs3/NestedComponent.glyphs", "g3-self-loop-appended(c2->c1,c2)", vec![("ref = c1;\n}\n", LAST, "ref = c1;\n},\n{\npos = (10,0);\nref = c2;\n}\n")]),
        // glyphs2 Component: comma.. translate_only all -> period
        ("glyphs2/Component.glyphs", "g2-self-loop-translation(translate_only->translate_only)", vec![("name = period;", LAST, "name = translate_only;")]),
        ("glyphs2/Component.glyphs", "g2-2-cycle-transformed(comma->translate_only->comma)", vec![("name = period;", LAST, "name = comma;"), ("name = period;", 0, "name = translate_only;")]),
        // malformed transform strings of glyphs2 components (string form of an affine: six numbers in braces)
        ("glyphs2/Component.glyphs", "g2-malformed-transform(five numbers)", vec![("transform = \"{2, 0, 0, 1.5, 50, 50}\";", 0, "transform = \"{2, 0, 0, 1.5, 50}\";")]),
        ("glyphs2/Component.glyphs", "g2-malformed-transform(not a number)", vec![("transform = \"{2, 0, 0, 1.5, 50, 50}\";", 0, "transform = \"{2, 0, 0, 1.5, 50, x}\";")]),
        ("glyphs2/Component.glyphs", "g2-malformed-transform(empty string)", vec![("transform = \"{2, 0, 0, 1.5, 50, 50}\";", 0, "transform = \"\";")]),
        ("glyphs2/Component.glyphs", "g2-malformed-transform(one character)", vec![("transform = \"{2, 0, 0, 1.5, 50, 50}\";", 0, "transform = a;")]),
        ("glyphs2/Component.glyphs", "g2-transform-without-spaces", vec![("transform = \"{2, 0, 0, 1.5, 50, 50}\";", 0, "transform = \"{2,0,0,1.5,50,50}\";")]),
        ("glyphs2/Component.glyphs", "g2-malformed-transform(seven numbers, NaN)", vec![("transform = \"{2, 0, 0, 1.5, 50, 50}\";", 0, "transform = \"{2, 0, 0, NaN, 50, 50, 1}\";")]),
        // glyphs2 MixedContourComponent: shape (contour); contour_and_component -> shape
        (
            "glyphs2/MixedContourComponent.glyphs",
            "g2-2-cycle-mixed(shape+contour->contour_and_component->shape)",
            vec![("layerId = m01;\npaths = (", 0, "components = (\n{\nname = contour_and_component;\n}\n);\nlayerId = m01;\npaths = (")],
        ),
    ];
    let mut out = Vec::new();
    let mut skipped = Vec::new();
    for (base, label, edits) in specs {
        if clean.get(base) != Some(&true) {
            skipped.push(format!("{label}: base {base} missing or does not compile cleanly"));
            continue;
        }
        let path = Path::new(&*REPO).join("resources/testdata").join(base);
        let Ok(mut text) = std::fs::read_to_string(&path) else {
            skipped.push(format!("{label}: cannot read {base}"));
            continue;
        };
        let mut ok = true;
        let mut ej = Vec::new();
        for (pat, which, with) in &edits {
            match edit_nth(&text, pat, *which, with) {
                Some(t) => {
                    text = t;
                    ej.push(json!({"find": pat, "occurrence": if *which == LAST { json!("last") } else { json!(which) }, "replace": with}));
                }
                None => ok = false,
            }
        }
        if !ok {
            skipped.push(format!("{label}: pattern not found in {base}"));
            continue;
        }
        let file = path.file_name().map(|f| f.to_string_lossy().into_owned()).unwrap_or_else(|| "x.glyphs".into());
        out.push(GCycleCase { base: base.to_string(), label: label.to_string(), file, text, edits: ej });
    }
    (out, skipped)
}
enum Res {
    Cli(Run),
    Depth(Result<Vec<String>, String>),
}

fn run_graph(c: &GraphCase) -> Run {
    let tmp = scratch_dir("c15g");
    let src = graph_design(&c.store).write(&tmp.path().join("src"));
    run_fontc(&src, &c.flags.cli(), &tmp.path().join("out.ttf"))
}
fn run_base(base: &Base, ov: &BTreeMap<String, Option<Vec<u8>>>) -> Run {
    let tmp = scratch_dir("c15m");
    let root = tmp.path().join("src");
    let _ = std::fs::create_dir_all(&root);
    write_tree(&root, base, ov);
    run_fontc(&root.join(&base.entry), &[], &tmp.path().join("out.ttf"))
}

fn par_map<T: Sync, R: Send>(items: &[T], workers: usize, f: impl Fn(&T) -> R + Sync) -> Vec<R> {
    let next = AtomicUsize::new(0);
    let slots: Vec<Mutex<Option<R>>> = items.iter().map(|_| Mutex::new(None)).collect();
    std::thread::scope(|s| {
        for _ in 0..workers.max(1).min(items.len().max(1)) {
            s.spawn(|| loop {
                let i = next.fetch_add(1, Ordering::SeqCst);
                if i >= items.len() {
                    break;
                }
                let r = f(&items[i]);
                *slots[i].lock().unwrap() = Some(r);
            });
        }
    });
    slots.into_iter().map(|m| m.into_inner().unwrap().expect("every slot filled")).collect()
}

fn bump(m: &mut BTreeMap<String, BTreeMap<String, usize>>, a: &str, b: &str) {
    *m.entry(a.to_string()).or_default().entry(b.to_string()).or_default() += 1;
}

fn main() {
    let args: Vec<String> = std::env::args().collect();
    let args = &args[1..];
    let seed = arg_val(args, "--seed", 1);
    let n = arg_val(args, "--n", 600) as usize;
    let t_start = Instant::now();
    vh::srcgen::quiet_panics();

    // ---- 0. rebuild the CLI from /repo's working tree
    let build = Command::new("timeout")
        .args(["3000", "cargo", "build", "--offline", "--manifest-path", &format!("{}/Cargo.toml", &*REPO), "-p", "fontc", "--target-dir", &*TARGET_DIR])
        .env("CARGO_NET_OFFLINE", "true")
        .env_remove("RUSTFLAGS")
        .env_remove("CARGO_ENCODED_RUSTFLAGS")
        .env_remove("CARGO_BUILD_RUSTFLAGS")
        .current_dir("/verif")
        .stdin(Stdio::null())
        .stdout(Stdio::null())
        .stderr(Stdio::piped())
        .output();
    let build_ok = matches!(&build, Ok(o) if o.status.success()) && Path::new(&*FONTC).exists();
    if !build_ok {
        let log = match &build {
            Ok(o) => String::from_utf8_lossy(&o.stderr).into_owned(),
            Err(e) => format!("cannot run cargo: {e}"),
        };
        let tail: String = log.chars().rev().take(3000).collect::<Vec<_>>().into_iter().rev().collect();
        emit(json!({"type": "violation", "key": "fontc-cli-build", "found_input": false,
                    "desc": format!("the fontc CLI does not build from /repo's working tree, nothing was run: {}", tail.chars().rev().take(400).collect::<Vec<_>>().into_iter().rev().collect::<String>()),
                    "correspondence": "C15 CLI runs", "log": tail}));
        emit_stat(json!({"mode": "unknown", "cli_build": "failed", "extra_evaluations": 0}));
        return;
    }
    let build_ms = t_start.elapsed().as_millis() as u64;
    let workers = std::thread::available_parallelism().map(|x| x.get()).unwrap_or(4).min(16);

    // ---- 1. bases for the malformed stream + 2. mode probe (run together)
    let mut cand: Vec<Base> = vec![generated_base("ufo", &base_ufo_design()), generated_base("designspace", &base_ds_design())];
    let mut real_glyphs = 0;
    for rel in ["glyphs3/WghtVar.glyphs", "glyphs2/WghtVar.glyphs", "glyphs3/Component.glyphs", "glyphs3/NestedComponent.glyphs", "glyphs2/MixedContourComponent.glyphs", "glyphs3/WghtVarComposite.glyphs", "glyphs2/Component.glyphs",
                // a source without any master (a parser test file): must be a reported error
                "glyphs2/Unicode-UnquotedHex.glyphs"] {
        if let Some(b) = real_base("glyphs", rel) {
            cand.push(b);
            real_glyphs += 1;
        }
    }
    let _ = real_glyphs;
    if let Some(b) = real_base("glyphspackage", "glyphs3/WghtVar.glyphspackage") {
        cand.push(b);
    }
    // fontra sources are not used as a base: fontra2fontir is unfinished (create_global_metric_work is
    // `todo!()`, so even the unmodified test sources exit 101); C15 is about the finished front ends.
    let probe_case = GraphCase { store: corpus()[0].store.clone(), flags: FlagV::Default, label: "probe".into(), corpus: true };
    enum Pre<'a> {
        Probe(&'a GraphCase),
        Base(&'a Base),
    }
    let mut pre: Vec<Pre> = vec![Pre::Probe(&probe_case)];
    pre.extend(cand.iter().map(Pre::Base));
    let pre_runs = par_map(&pre, workers, |p| match p {
        Pre::Probe(c) => run_graph(c),
        Pre::Base(b) => run_base(b, &BTreeMap::new()),
    });
    drop(pre);
    let probe = pre_runs[0].clone();
    let fixed = probe.class == Class::Error && probe.cycle_msg;
    let mut bases: Vec<Base> = Vec::new();
    let mut base_report = Vec::new();
    let mut pre_violations: Vec<(String, String, Value)> = Vec::new();
    let mut glyphs_kept = 0;
    let mut clean_map: BTreeMap<String, bool> = BTreeMap::new();
    for (b, r) in cand.into_iter().zip(pre_runs[1..].iter()) {
        let clean = r.class == Class::OkFont;
        clean_map.insert(b.label.clone(), clean);
        let keep = clean && (b.kind != "glyphs" || glyphs_kept < 4);
        base_report.push(json!({"base": b.label, "class": r.class.name(), "used": keep}));
        if !matches!(r.class, Class::OkFont | Class::Error) {
            // an unmodified source of the repository's own test data that takes the process down
            let key = match r.class {
                Class::Panic101 => format!("uncaught-panic:{}", r.panic_site.clone().unwrap_or_else(|| "unknown".into())),
                Class::Signal => format!("malformed-input-signal:{}:unmodified", b.kind),
                Class::Timeout => format!("malformed-input-hang:{}:unmodified", b.kind),
                _ => "bogus-font".to_string(),
            };
            pre_violations.push((
                key,
                format!("unmodified source {} ends with {} (exit {:?}, signal {:?})", b.label, r.class.name(), r.exit_code, r.signal),
                json!({"base": b.label, "mutations": [], "class": r.class.name(), "exit_code": r.exit_code, "signal": r.signal, "stderr": r.stderr_tail}),
            ));
        }
        if keep {
            if b.kind == "glyphs" {
                glyphs_kept += 1;
            }
            bases.push(b);
        }
    }
    let generated_ok = bases.len() >= 2 && bases[0].kind == "ufo" && bases[1].kind == "designspace";

    // ---- 3. generate every case from the one Rng
    let mut rng = Rng::new(seed);
    let hang_budget = if n <= 1000 { 24 } else { 300 };
    let mut cases: Vec<Case> = corpus().into_iter().map(Case::Graph).collect();
    for (len, flags) in [(300, FlagV::Default), (1500, FlagV::Default), (1500, FlagV::Flatten), (3000, FlagV::Default)] {
        cases.push(Case::Deep(DeepCase { len, flags }));
    }
    let (gcycles, gcycle_skipped) = glyphs_cycle_corpus(&clean_map);
    cases.extend(gcycles.into_iter().map(Case::GCycle));
    cases.extend(mcycle_corpus().into_iter().map(Case::MCycle));
    if generated_ok {
        cases.extend(fea_include_corpus(&bases[0]).into_iter().map(Case::Mal));
        cases.extend(crash_corpus(&bases).into_iter().map(Case::Mal));
    }
    let corpus_len = cases.len();
    let corpus_hang = cases.iter().filter(|c| matches!(c, Case::Graph(gc) if hang_prone(&gc.store, gc.flags))).count();
    let (mut hang_kept, mut hang_replaced) = (0usize, 0usize);
    for _ in 0..n {
        let r = rng.below(100);
        if r < 6 {
            cases.push(Case::MCycle(gen_mcycle(&mut rng)));
        } else if r < 55 {
            loop {
                let c = gen_graph(&mut rng);
                if hang_prone(&c.store, c.flags) {
                    if hang_kept >= hang_budget {
                        hang_replaced += 1;
                        continue;
                    }
                    hang_kept += 1;
                }
                cases.push(Case::Graph(c));
                break;
            }
        } else if r < 70 || !generated_ok {
            cases.push(Case::Depth(gen_depth(&mut rng)));
        } else {
            cases.push(Case::Mal(gen_malformed(&mut rng, &bases)));
        }
    }

    // ---- run
    let t_run = Instant::now();
    // longest jobs first (the order of execution does not affect what is emitted: results are stored by case index)
    let mut order: Vec<usize> = (0..cases.len()).collect();
    let cost = |c: &Case| -> u32 {
        match c {
            Case::Graph(gc) if hang_prone(&gc.store, gc.flags) => 6,
            Case::GCycle(_) => 6,
            Case::MCycle(_) => 6,
            Case::Deep(dc) if dc.len > 1000 => 4,
            Case::Graph(gc) if has_cycle(&gc.store) => 1,
            _ => 0,
        }
    };
    order.sort_by_key(|&i| std::cmp::Reverse(cost(&cases[i])));
    let by_order = par_map(&order, workers, |&i| match &cases[i] {
        Case::Graph(gc) => Res::Cli(run_graph(gc)),
        Case::Depth(dc) => Res::Depth(run_depth(dc)),
        Case::Mal(mc) => Res::Cli(run_base(&bases[mc.base], &mc.ov)),
        Case::Deep(dc) => Res::Cli(run_deep(dc)),
        Case::GCycle(gc) => Res::Cli(run_gcycle(gc)),
        Case::MCycle(mc) => Res::Cli(run_mcycle(mc)),
    });
    let mut slots: Vec<Option<Res>> = cases.iter().map(|_| None).collect();
    for (i, r) in order.iter().zip(by_order) {
        slots[*i] = Some(r);
    }
    let results: Vec<Res> = slots.into_iter().map(|r| r.expect("every case was run")).collect();
    let run_ms = t_run.elapsed().as_millis() as u64;

    // ---- emit, in case order
    let mut classes: BTreeMap<String, BTreeMap<String, usize>> = BTreeMap::new();
    let mut ops: BTreeMap<String, usize> = BTreeMap::new();
    let mut graph_labels: BTreeMap<String, usize> = BTreeMap::new();
    let mut flag_counts: BTreeMap<String, usize> = BTreeMap::new();
    let (mut cyclic, mut max_wall, mut total_wall, mut nviol) = (0usize, 0u64, 0u64, 0usize);
    let mut wall_per_class: BTreeMap<String, u64> = BTreeMap::new();
    for (key, desc, js) in pre_violations {
        emit_violation(&key, desc, js);
        nviol += 1;
    }
    for (id, (case, res)) in cases.iter().zip(results.iter()).enumerate() {
        match (case, res) {
            (Case::Graph(gc), Res::Cli(r)) => {
                max_wall = max_wall.max(r.wall_ms);
                total_wall += r.wall_ms;
                *wall_per_class.entry(r.class.name().to_string()).or_default() += r.wall_ms;
                let cyc = has_cycle(&gc.store);
                if cyc {
                    cyclic += 1;
                }
                bump(&mut classes, if gc.corpus { "corpus" } else { "graph" }, r.class.name());
                *graph_labels.entry(if gc.corpus { "corpus".to_string() } else { gc.label.split('-').next().unwrap_or("").trim_end_matches(|c: char| c.is_ascii_digit()).to_string() }).or_default() += 1;
                *flag_counts.entry(gc.flags.name().to_string()).or_default() += 1;
                let io = match r.class {
                    Class::OkFont => "IOk",
                    Class::Error if r.cycle_msg => "IErrCycle",
                    Class::Error | Class::Panic101 | Class::Bogus => "IErrOther",
                    Class::Signal => "ISignal",
                    Class::Timeout => "ITimeout",
                };
                let model = format!("exec {} {} {} {}", coq_bool(fixed), gc.flags.coq(), FUEL, coq_store(&gc.store));
                let coq = format!("agree ({}) {}", model, io);
                let nontrivial = gc.store.iter().any(|x| !x.comps.is_empty());
                let extra = json!({"store": store_json(&gc.store), "flags": gc.flags.name(), "mutation": gc.label, "corpus": gc.corpus,
                                   "class": r.class.name(), "exit_code": r.exit_code, "signal": r.signal, "has_cycle": cyc, "impl": io,
                                   "hang_prone_predicted": hang_prone(&gc.store, gc.flags),
                                   "font_exists": r.font_exists, "font_ok": r.font_ok});
                emit_case(id, if cyc { "graph-cycle" } else { "graph-acyclic" }, coq, Some(model), nontrivial, store_sig(&gc.store, gc.flags), extra);
                let vjson = || {
                    json!({"store": store_json(&gc.store), "flags": gc.flags.name(), "cli_flags": gc.flags.cli(), "mutation": gc.label, "case_id": id,
                           "class": r.class.name(), "exit_code": r.exit_code, "signal": r.signal, "has_cycle": cyc, "stderr": r.stderr_tail,
                           "font_exists": r.font_exists, "mode": if fixed { "fixed" } else { "unfixed" }})
                };
                let what = format!("UFO with component graph [{}] flags [{}]", gc.label, gc.flags.name());
                let mut v: Vec<(String, String)> = Vec::new();
                match r.class {
                    Class::Signal => {
                        let k = if cyc {
                            if r.stack_overflow { "component-cycle-stack-overflow" } else { "component-cycle-abort" }
                        } else {
                            "acyclic-components-signal"
                        };
                        v.push((k.into(), format!("{what}: fontc killed by signal {:?} (exit {:?}){}", r.signal, r.exit_code, if r.stack_overflow { ", stack overflow" } else { "" })));
                    }
                    Class::Timeout => {
                        let k = if cyc { "component-cycle-hang" } else { "acyclic-components-hang" };
                        v.push((k.into(), format!("{what}: fontc did not terminate within 6 CPU-seconds / 300 s wall (signal {:?}, exit {:?})", r.signal, r.exit_code)));
                    }
                    Class::Panic101 => {
                        let site = r.panic_site.clone().unwrap_or_else(|| "unknown".into());
                        v.push((format!("uncaught-panic:{site}"), format!("{what}: uncaught panic on the main thread at {site} (exit 101)")));
                    }
                    Class::Bogus => v.push(("bogus-font".into(), format!("{what}: exit 0 but the output file is missing, empty or not a usable font"))),
                    Class::OkFont | Class::Error => {}
                }
                if r.font_exists && !matches!(r.class, Class::OkFont | Class::Bogus) {
                    v.push(("font-on-failure".into(), format!("{what}: a font file exists although the run ended with {}", r.class.name())));
                }
                for (k, d) in v {
                    emit_violation(&k, d, vjson());
                    nviol += 1;
                }
            }
            (Case::Depth(dc), Res::Depth(out)) => {
                let nn = dc.nodes.len();
                // good = least fixed point: simple glyphs, and composites all of whose components are good
                let mut good = vec![false; nn];
                loop {
                    let mut ch = false;
                    for i in 0..nn {
                        if !good[i] && dc.nodes[i].iter().all(|b| *b < nn && good[*b]) {
                            good[i] = true;
                            ch = true;
                        }
                    }
                    if !ch {
                        break;
                    }
                }
                let store: Vec<G> = dc.nodes.iter().map(|cs| G { comps: cs.iter().map(|b| Comp { base: *b, dx: 0, dy: 0 }).collect(), contours: 0, export: true }).collect();
                let sig = format!("D|{:?}", dc.nodes);
                let djson = |extra: Value| {
                    let mut j = json!({"nodes": dc.nodes.iter().enumerate().map(|(i, cs)| json!({"name": dname(i), "components": cs.iter().map(|b| dname(*b)).collect::<Vec<_>>()})).collect::<Vec<_>>(), "case_id": id});
                    if let (Value::Object(m), Value::Object(e)) = (&mut j, extra) {
                        for (k, x) in e {
                            m.insert(k, x);
                        }
                    }
                    j
                };
                match out {
                    Err(msg) => {
                        bump(&mut classes, "depth-sort", "panic");
                        emit_violation("depth-sort-panic", format!("depth_sorted_composite_glyphs panicked: {msg}"), djson(json!({"panic": msg})));
                        nviol += 1;
                        emit(json!({"type": "case", "id": id, "kind": "depth-sort", "nontrivial": true, "sig": sig, "impl": "panic"}));
                    }
                    Ok(names) => {
                        let idsv: Vec<Option<usize>> = names.iter().map(|s| (0..nn).find(|i| dname(*i) == *s)).collect();
                        let mut problems = Vec::new();
                        let mut pos: BTreeMap<usize, usize> = BTreeMap::new();
                        for (p, (nm, idv)) in names.iter().zip(idsv.iter()).enumerate() {
                            match idv {
                                None => problems.push(format!("unknown glyph {nm} returned")),
                                Some(i) => {
                                    if pos.insert(*i, p).is_some() {
                                        problems.push(format!("{nm} returned twice"));
                                    }
                                    if !good[*i] {
                                        problems.push(format!("{nm} is on a cycle or has a missing/indeterminate dependency but is returned"));
                                    }
                                }
                            }
                        }
                        for (i, p) in &pos {
                            for b in &dc.nodes[*i] {
                                match pos.get(b) {
                                    Some(q) if q < p => {}
                                    _ => problems.push(format!("{} does not come after its component {}", dname(*i), dname(*b))),
                                }
                            }
                        }
                        bump(&mut classes, "depth-sort", if problems.is_empty() { "ok" } else { "bad-order" });
                        let ids_ok: Vec<usize> = idsv.iter().map(|x| x.unwrap_or(MISSING)).collect();
                        let coq = format!("depth_sorted_agrees 64 {} {}", coq_store(&store), coq_list(&ids_ok, |i| i.to_string()));
                        let show = format!("depth_sorted 64 {}", coq_store(&store));
                        let nontrivial = dc.nodes.iter().any(|c| !c.is_empty());
                        emit_case(id, "depth-sort", coq, Some(show), nontrivial, sig, json!({"nodes": dc.nodes, "impl_sorted": names, "has_cycle": has_cycle(&store), "dropped": nn - names.len()}));
                        if !problems.is_empty() {
                            emit_violation("depth-sort-order", format!("depth_sorted_composite_glyphs: {}", problems.join("; ")), djson(json!({"impl_sorted": names})));
                            nviol += 1;
                        }
                    }
                }
            }
            (Case::Mal(mc), Res::Cli(r)) => {
                max_wall = max_wall.max(r.wall_ms);
                total_wall += r.wall_ms;
                *wall_per_class.entry(r.class.name().to_string()).or_default() += r.wall_ms;
                let base = &bases[mc.base];
                bump(&mut classes, "malformed", r.class.name());
                bump(&mut classes, &format!("malformed:{}", base.kind), r.class.name());
                for o in &mc.ops {
                    *ops.entry(o.clone()).or_default() += 1;
                }
                let opkey = mc.ops.join("+");
                let fmtkey = {
                    let bombs: Vec<&str> = mc.ops.iter().zip(mc.formats.iter()).filter(|(o, _)| o.starts_with("nest-bomb:")).map(|(_, f)| f.as_str()).collect();
                    let mut f: Vec<&str> = if bombs.is_empty() { mc.formats.iter().map(|s| s.as_str()).collect() } else { bombs };
                    f.sort();
                    f.dedup();
                    f.join("+")
                };
                let muts_s = serde_json::to_string(&mc.muts).unwrap_or_default();
                emit(json!({"type": "case", "id": id, "kind": format!("malformed-{}", base.kind), "nontrivial": true,
                            "sig": format!("M|{}|{}", base.label, muts_s), "base": base.label, "mutations": mc.muts,
                            "class": r.class.name(), "exit_code": r.exit_code, "signal": r.signal}));
                let vjson = || {
                    let mut files = serde_json::Map::new();
                    for (f, c) in &mc.ov {
                        match c {
                            None => {
                                files.insert(f.clone(), json!({"deleted": true}));
                            }
                            Some(b) if b.len() < 4096 => {
                                files.insert(f.clone(), json!({"text": String::from_utf8_lossy(b), "fnv": fnv(b)}));
                            }
                            Some(b) => {
                                files.insert(f.clone(), json!({"bytes": b.len(), "fnv": fnv(b), "starts": String::from_utf8_lossy(&b[..200.min(b.len())])}));
                            }
                        }
                    }
                    json!({"base": base.label, "base_kind": base.kind, "entry": base.entry, "mutations": mc.muts, "mutated_files": files, "harness_seed": seed, "case_id": id,
                           "class": r.class.name(), "exit_code": r.exit_code, "signal": r.signal, "stderr": r.stderr_tail, "font_exists": r.font_exists})
                };
                let what = format!("{} with mutation [{}]", base.label, opkey);
                let mut v: Vec<(String, String)> = Vec::new();
                match r.class {
                    Class::Signal => {
                        if r.stack_overflow {
                            v.push((format!("parser-stack-overflow:{fmtkey}"), format!("{what}: fontc aborted with a stack overflow (signal {:?}, exit {:?})", r.signal, r.exit_code)));
                        } else {
                            v.push((format!("malformed-input-signal:{}:{}", base.kind, opkey), format!("{what}: fontc killed by signal {:?} (exit {:?})", r.signal, r.exit_code)));
                        }
                    }
                    Class::Timeout => v.push((format!("malformed-input-hang:{fmtkey}:{opkey}"), format!("{what}: fontc did not terminate within 6 CPU-seconds / 300 s wall (signal {:?}, exit {:?})", r.signal, r.exit_code))),
                    Class::Panic101 => {
                        let site = r.panic_site.clone().unwrap_or_else(|| "unknown".into());
                        v.push((format!("uncaught-panic:{site}"), format!("{what}: uncaught panic on the main thread at {site} (exit 101)")));
                    }
                    Class::Bogus => v.push(("bogus-font".into(), format!("{what}: exit 0 but the output file is missing, empty or not a usable font"))),
                    Class::OkFont | Class::Error => {}
                }
                if r.font_exists && !matches!(r.class, Class::OkFont | Class::Bogus) {
                    v.push(("font-on-failure".into(), format!("{what}: a font file exists although the run ended with {}", r.class.name())));
                }
                for (k, d) in v {
                    emit_violation(&k, d, vjson());
                    nviol += 1;
                }
            }
            (Case::Deep(dc), Res::Cli(r)) => {
                max_wall = max_wall.max(r.wall_ms);
                total_wall += r.wall_ms;
                *wall_per_class.entry(r.class.name().to_string()).or_default() += r.wall_ms;
                bump(&mut classes, "deep-nesting", r.class.name());
                emit(json!({"type": "case", "id": id, "kind": "deep-nesting", "nontrivial": true, "sig": format!("N|{}|{}", dc.len, dc.flags.name()),
                            "chain_length": dc.len, "flags": dc.flags.name(), "class": r.class.name(), "exit_code": r.exit_code, "signal": r.signal,
                            "font_exists": r.font_exists, "font_ok": r.font_ok}));
                let vjson = || {
                    json!({"chain_length": dc.len, "flags": dc.flags.name(), "cli_flags": dc.flags.cli(), "case_id": id,
                           "shape": "g00000 = one contour; g<i> = one identity component of g<i-1>", "class": r.class.name(), "exit_code": r.exit_code,
                           "signal": r.signal, "stderr": r.stderr_tail, "font_exists": r.font_exists, "cpu_limit_s": CPU_LIMIT_DEEP})
                };
                let what = format!("UFO with an acyclic component chain of {} glyphs, flags [{}]", dc.len, dc.flags.name());
                let mut v: Vec<(String, String)> = Vec::new();
                match r.class {
                    Class::Signal => {
                        let k = if r.stack_overflow { "deep-component-nesting-stack-overflow" } else { "deep-component-nesting-signal" };
                        v.push((k.into(), format!("{what}: fontc killed by signal {:?} (exit {:?}){}", r.signal, r.exit_code, if r.stack_overflow { ", stack overflow" } else { "" })));
                    }
                    Class::Timeout => v.push(("deep-component-nesting-hang".into(), format!("{what}: fontc did not terminate within {CPU_LIMIT_DEEP} CPU-seconds / 300 s wall (signal {:?}, exit {:?})", r.signal, r.exit_code))),
                    Class::Panic101 => {
                        let site = r.panic_site.clone().unwrap_or_else(|| "unknown".into());
                        v.push((format!("uncaught-panic:{site}"), format!("{what}: uncaught panic on the main thread at {site} (exit 101)")));
                    }
                    Class::Bogus => v.push(("bogus-font".into(), format!("{what}: exit 0 but the output file is missing, empty or not a usable font"))),
                    Class::OkFont | Class::Error => {}
                }
                if r.font_exists && !matches!(r.class, Class::OkFont | Class::Bogus) {
                    v.push(("font-on-failure".into(), format!("{what}: a font file exists although the run ended with {}", r.class.name())));
                }
                for (k, d) in v {
                    emit_violation(&k, d, vjson());
                    nviol += 1;
                }
            }
            (Case::GCycle(gc), Res::Cli(r)) => {
                max_wall = max_wall.max(r.wall_ms);
                total_wall += r.wall_ms;
                *wall_per_class.entry(r.class.name().to_string()).or_default() += r.wall_ms;
                cyclic += 1;
                bump(&mut classes, "glyphs-cycle", r.class.name());
                emit(json!({"type": "case", "id": id, "kind": "glyphs-cycle", "nontrivial": true, "sig": format!("Y|{}|{}", gc.base, gc.label),
                            "base": gc.base, "mutant": gc.label, "edits": gc.edits, "class": r.class.name(), "exit_code": r.exit_code, "signal": r.signal,
                            "cycle_error": r.cycle_msg, "font_exists": r.font_exists, "font_ok": r.font_ok}));
                let vjson = || {
                    json!({"base": gc.base, "mutant": gc.label, "edits": gc.edits, "mutated_text": if gc.text.len() < 4096 { json!(gc.text) } else { json!(fnv(gc.text.as_bytes())) },
                           "case_id": id, "class": r.class.name(), "exit_code": r.exit_code, "signal": r.signal, "stderr": r.stderr_tail, "font_exists": r.font_exists,
                           "mode": if fixed { "fixed" } else { "unfixed" }})
                };
                let what = format!("{} edited into [{}]", gc.base, gc.label);
                let mut v: Vec<(String, String)> = Vec::new();
                match r.class {
                    Class::Signal => {
                        let k = if r.stack_overflow { "component-cycle-stack-overflow" } else { "component-cycle-abort" };
                        v.push((k.into(), format!("{what}: fontc killed by signal {:?} (exit {:?}){}", r.signal, r.exit_code, if r.stack_overflow { ", stack overflow" } else { "" })));
                    }
                    Class::Timeout => v.push(("component-cycle-hang".into(), format!("{what}: fontc did not terminate within 6 CPU-seconds / 300 s wall (signal {:?}, exit {:?})", r.signal, r.exit_code))),
                    Class::Panic101 => {
                        let site = r.panic_site.clone().unwrap_or_else(|| "unknown".into());
                        v.push((format!("uncaught-panic:{site}"), format!("{what}: uncaught panic on the main thread at {site} (exit 101)")));
                    }
                    Class::Bogus => v.push(("bogus-font".into(), format!("{what}: exit 0 but the output file is missing, empty or not a usable font"))),
                    Class::OkFont | Class::Error => {}
                }
                if r.font_exists && !matches!(r.class, Class::OkFont | Class::Bogus) {
                    v.push(("font-on-failure".into(), format!("{what}: a font file exists although the run ended with {}", r.class.name())));
                }
                for (k, d) in v {
                    emit_violation(&k, d, vjson());
                    nviol += 1;
                }
            }
            (Case::MCycle(mc), Res::Cli(r)) => {
                max_wall = max_wall.max(r.wall_ms);
                total_wall += r.wall_ms;
                *wall_per_class.entry(r.class.name().to_string()).or_default() += r.wall_ms;
                let cyc = has_cycle(&union_store(&mc.stores));
                if cyc {
                    cyclic += 1;
                }
                bump(&mut classes, "master-graph", r.class.name());
                let masters: Vec<Value> = mc.stores.iter().map(|st| store_json(st)).collect();
                emit(json!({"type": "case", "id": id, "kind": if cyc { "master-graph-cycle" } else { "master-graph-acyclic" }, "nontrivial": true,
                            "sig": format!("M|{:?}|{}", mc.stores, mc.flags.name()), "label": mc.label, "flags": mc.flags.name(),
                            "class": r.class.name(), "exit_code": r.exit_code, "signal": r.signal, "cycle_error": r.cycle_msg,
                            "cycle_in_union_of_masters": cyc, "font_exists": r.font_exists, "font_ok": r.font_ok}));
                let vjson = || {
                    json!({"masters": masters, "flags": mc.flags.name(), "cli_flags": mc.flags.cli(), "label": mc.label, "case_id": id,
                           "class": r.class.name(), "exit_code": r.exit_code, "signal": r.signal, "cycle_in_union_of_masters": cyc,
                           "stderr": r.stderr_tail, "font_exists": r.font_exists, "mode": if fixed { "fixed" } else { "unfixed" }})
                };
                let what = format!("designspace whose masters have different component graphs [{}] flags [{}]", mc.label, mc.flags.name());
                let mut v: Vec<(String, String)> = Vec::new();
                match r.class {
                    Class::Signal => {
                        let k = if r.stack_overflow { "master-local-cycle-stack-overflow" } else { "master-local-cycle-abort" };
                        v.push((k.into(), format!("{what}: fontc killed by signal {:?} (exit {:?}){}", r.signal, r.exit_code, if r.stack_overflow { ", stack overflow" } else { "" })));
                    }
                    Class::Timeout => v.push(("master-local-cycle-hang".into(), format!("{what}: fontc did not terminate within 6 CPU-seconds / 300 s wall (signal {:?}, exit {:?})", r.signal, r.exit_code))),
                    Class::Panic101 => {
                        let site = r.panic_site.clone().unwrap_or_else(|| "unknown".into());
                        v.push((format!("uncaught-panic:{site}"), format!("{what}: uncaught panic on the main thread at {site} (exit 101)")));
                    }
                    Class::Bogus => v.push(("bogus-font".into(), format!("{what}: exit 0 but the output file is missing, empty or not a usable font"))),
                    Class::OkFont if cyc && fixed => v.push(("master-local-cycle-not-reported".into(), format!("{what}: the union of the masters' component graphs has a cycle but a font was produced"))),
                    Class::OkFont | Class::Error => {}
                }
                if r.font_exists && !matches!(r.class, Class::OkFont | Class::Bogus) {
                    v.push(("font-on-failure".into(), format!("{what}: a font file exists although the run ended with {}", r.class.name())));
                }
                for (k, d) in v {
                    emit_violation(&k, d, vjson());
                    nviol += 1;
                }
            }
            _ => unreachable!("result kind matches case kind"),
        }
    }
    eprintln!(
        "c15: mode={} cases={} violations={} build={}ms run={}ms total={}ms workers={}",
        if fixed { "fixed" } else { "unfixed" },
        cases.len(),
        nviol,
        build_ms,
        run_ms,
        t_start.elapsed().as_millis(),
        workers
    );
    emit_stat(json!({
        "mode": if fixed { "fixed" } else { "unfixed" },
        "probe_class": probe.class.name(),
        "probe_exit_code": probe.exit_code,
        "probe_signal": probe.signal,
        "classes_per_stream": classes,
        "mutation_ops": ops,
        "graph_mutations": graph_labels,
        "graph_flags": flag_counts,
        "cyclic_graph_cases": cyclic,
        "corpus_cases": corpus_len,
        "glyphs_cycle_skipped": gcycle_skipped,
        "hang_budget": hang_budget,
        "hang_prone_kept": hang_kept,
        "hang_prone_replaced": hang_replaced,
        "hang_prone_in_corpus": corpus_hang,
        "malformed_bases": base_report,
        "violation_records": nviol,
        "workers": workers,
        "fontc_rayon_threads": std::env::var("RAYON_NUM_THREADS").unwrap_or_else(|_| RAYON_THREADS.to_string()),
        "cpu_limit_s": CPU_LIMIT,
        "max_wall_ms": max_wall,
        "total_wall_ms": total_wall,
        "wall_ms_per_class": wall_per_class,
        "cli_build_ms": build_ms,
        "run_ms": run_ms,
        "extra_evaluations": 0
    }));
}
