//! C17: summary fields (head bbox, hhea/vhea, maxp, loca format, OS/2) agree with the data.
//!
//! Three streams, all seeded from one `Rng`:
//!  A. `MetricsBuilder` through the cfg hook on generated (advance, side bearing, bounds) lists;
//!  B. `MaxBuilder` + `update_composite_limits` through the cfg hook on generated glyph tables
//!     (DAGs of composites, empties, ties, totals around 65535);
//!  C. whole fonts compiled in-process from generated UFO sources, decoded by a hand-written
//!     glyf/hmtx/hhea/maxp/head/OS2 reader (cmap, GSUB, GPOS through read-fonts) and every
//!     summary field recomputed from the decoded data.
//! For every case the property predicate is evaluated directly on the implementation's output
//! (violations carry a key naming the field), and a Gallina term compares the Coq model with it.
use fontbe::metrics_and_limits::verif_hooks as hk;
use serde_json::json;
use std::collections::{BTreeMap, BTreeSet};
use vh::sfnt::{be16, be32, bei16, table};
use vh::srcgen::{compile_path, quiet_panics, scratch_dir, Design, GlyphSrc, Outcome, Pt};
use vh::*;
use write_fonts::read::{FontRef, TableProvider};

// ---------------------------------------------------------------------------------------------
// Gallina printers
// ---------------------------------------------------------------------------------------------
fn cz(v: i64) -> String {
    coq_z(v)
}
fn cn(v: u64) -> String {
    coq_n(v)
}
fn coq_bbox(b: &[i16; 4]) -> String {
    format!("({}, {}, {}, {})", cz(b[0] as i64), cz(b[1] as i64), cz(b[2] as i64), cz(b[3] as i64))
}

// ---------------------------------------------------------------------------------------------
// Stream A: MetricsBuilder
// ---------------------------------------------------------------------------------------------
type MIn = (u16, i16, Option<i32>);

fn gen_metrics(rng: &mut Rng) -> (Vec<MIn>, &'static str) {
    let class = rng.below(8);
    let n = match rng.below(10) {
        0 => 0,
        1 => 1,
        2 => rng.range(100, 300) as usize,
        _ => rng.range(2, 24) as usize,
    };
    let palette: Vec<u16> = (0..rng.range(1, 3)).map(|_| *rng.pick(&[0u16, 1, 500, 600, 1000, 65535, 32768])).collect();
    let mut v = Vec::new();
    for i in 0..n {
        let adv: u16 = match class {
            0 => palette[0],                                                 // monospace: one long metric
            1 => *rng.pick(&palette),                                        // few values: ties, runs
            2 => if i + rng.range(1, 6) as usize >= n { palette[0] } else { rng.below(2000) as u16 }, // trailing run
            3 => 0,                                                          // all zero advance
            4 => *rng.pick(&[0u16, 65535, 65534, 32767, 32768]),             // boundaries
            _ => rng.below(3000) as u16,
        };
        let sb: i16 = match rng.below(8) {
            0 => i16::MIN,
            1 => i16::MAX,
            2 => 0,
            3 | 4 => -(rng.below(400) as i16),
            _ => rng.below(400) as i16,
        };
        let ba: Option<i32> = match rng.below(10) {
            0 | 1 | 2 => None, // empty glyph
            3 => Some(0),
            4 => Some(65535), // widest possible box: forces clamping
            5 => Some(rng.range(30000, 65535) as i32),
            6 => Some(-(rng.below(500) as i32)), // cannot come from a real box; the builder accepts it
            _ => Some(rng.below(1500) as i32),
        };
        v.push((adv, sb, ba));
    }
    let kind = ["mono", "few-values", "trailing-run", "zero-advance", "boundary", "random", "random", "random"][class as usize];
    (v, kind)
}

fn clamp16(v: i64) -> i64 {
    v.clamp(i16::MIN as i64, i16::MAX as i64)
}

/// hmtx reader rule: glyph i < numLong has its own pair, later glyphs repeat the last advance.
fn hmtx_expand(long: &[(u16, i16)], sbs: &[i16]) -> Option<Vec<(u16, i16)>> {
    let mut v = long.to_vec();
    if !sbs.is_empty() {
        let last = long.last()?.0;
        v.extend(sbs.iter().map(|s| (last, *s)));
    }
    Some(v)
}

fn coq_min(v: &[MIn]) -> String {
    coq_list(v, |(a, s, b)| format!("({}, {}, {})", cz(*a as i64), cz(*s as i64), coq_opt(b, |x| cz(*x as i64))))
}

fn coq_metrics(m: &hk::HookMetrics) -> String {
    format!(
        "(mkMetrics {} {} {} {} {} {})",
        coq_list(&m.long_metrics, |(a, s)| format!("({}, {})", cz(*a as i64), cz(*s as i64))),
        coq_list(&m.side_bearings, |s| cz(*s as i64)),
        cz(m.advance_max as i64),
        cz(m.min_first_side_bearing as i64),
        cz(m.min_second_side_bearing as i64),
        cz(m.max_extent as i64)
    )
}

fn check_metrics(input: &[MIn], m: &hk::HookMetrics, ctx: &serde_json::Value) -> bool {
    let mut ok = true;
    let mut fail = |key: &str, desc: String| {
        ok = false;
        emit_violation(key, desc, ctx.clone());
    };
    let want: Vec<(u16, i16)> = input.iter().map(|(a, s, _)| (*a, *s)).collect();
    match hmtx_expand(&m.long_metrics, &m.side_bearings) {
        Some(got) if got == want => {}
        got => fail("hmtx-does-not-reconstruct", format!("expanding {} long metrics + {} side bearings gives {:?}, glyphs have {:?}", m.long_metrics.len(), m.side_bearings.len(), got, want)),
    }
    let amax = input.iter().map(|g| g.0).max().unwrap_or(0);
    if m.advance_max != amax {
        fail("hhea-advance-max", format!("advance max {} but largest advance is {}", m.advance_max, amax));
    }
    let ne: Vec<&MIn> = input.iter().filter(|g| g.2.is_some()).collect();
    let min1 = ne.iter().map(|g| g.1 as i64).min().unwrap_or(0);
    let min2 = ne.iter().map(|g| clamp16(g.0 as i64 - g.1 as i64 - g.2.unwrap() as i64)).min().unwrap_or(0);
    let ext = ne.iter().map(|g| clamp16(g.1 as i64 + g.2.unwrap() as i64)).max().unwrap_or(0);
    if m.min_first_side_bearing as i64 != min1 {
        fail("hhea-min-first-side-bearing", format!("{} but minimum over non-empty glyphs is {}", m.min_first_side_bearing, min1));
    }
    if m.min_second_side_bearing as i64 != min2 {
        fail("hhea-min-second-side-bearing", format!("{} but minimum over non-empty glyphs is {}", m.min_second_side_bearing, min2));
    }
    if m.max_extent as i64 != ext {
        fail("hhea-max-extent", format!("{} but maximum over non-empty glyphs is {}", m.max_extent, ext));
    }
    ok
}

// ---------------------------------------------------------------------------------------------
// Stream B: MaxBuilder / update_composite_limits
// ---------------------------------------------------------------------------------------------
fn gen_limits(rng: &mut Rng) -> (Vec<hk::HookGlyph>, &'static str) {
    let class = rng.below(10);
    let n = match class {
        0 => rng.range(1, 3) as usize,
        1 => rng.range(40, 90) as usize,
        _ => rng.range(2, 16) as usize,
    };
    // a random rank decides which glyph may refer to which: acyclic by construction, but
    // glyph ids are in no particular order relative to the nesting
    let mut rank: Vec<usize> = (0..n).collect();
    rng.shuffle(&mut rank);
    let mut by_rank: Vec<usize> = vec![0; n];
    for (g, r) in rank.iter().enumerate() {
        by_rank[*r] = g;
    }
    let big = class == 2 || class == 3; // totals near / above 65535
    let mut glyphs: Vec<hk::HookGlyph> = vec![hk::HookGlyph::Empty; n];
    let rbox = |rng: &mut Rng| -> [i16; 4] {
        let x0 = rng.range(-600, 600) as i16;
        let y0 = rng.range(-600, 600) as i16;
        match rng.below(8) {
            0 => [i16::MIN, y0, i16::MAX, y0],
            1 => [x0, y0, x0, y0],
            _ => [x0, y0, x0 + rng.below(900) as i16, y0 + rng.below(900) as i16],
        }
    };
    for r in 0..n {
        let g = by_rank[r];
        let lower: Vec<usize> = (0..r).map(|q| by_rank[q]).collect();
        let pick = rng.below(10);
        glyphs[g] = if lower.is_empty() || pick < 4 {
            if pick == 0 {
                hk::HookGlyph::Empty
            } else {
                // a simple glyph cannot hold more than 65535 points (endPtsOfContours is u16):
                // at most three contours of at most 21845 points in the large class
                let nc = if big { rng.range(1, 3) } else { rng.range(1, 4) } as usize;
                let contours = (0..nc)
                    .map(|_| if big { *rng.pick(&[700usize, 4369, 13107, 21845, 1, 257]) } else { rng.range(1, 30) as usize })
                    .collect();
                hk::HookGlyph::Simple(contours, rbox(rng))
            }
        } else {
            let k = match rng.below(6) {
                0 => 1,
                1 if big => *rng.pick(&[3usize, 5, 15, 17, 100]),
                _ => rng.range(1, 5) as usize,
            };
            // prefer deep chains sometimes
            let comps = (0..k)
                .map(|_| if rng.chance(1, 3) { *lower.last().unwrap() as u16 } else { *rng.pick(&lower) as u16 })
                .collect();
            hk::HookGlyph::Composite(comps, rbox(rng))
        };
    }
    let kind = match class {
        0 => "tiny",
        1 => "many-glyphs",
        2 | 3 => "near-u16-limit",
        _ => "dag",
    };
    (glyphs, kind)
}

#[derive(Clone, Copy, Debug, PartialEq, Eq, Default)]
struct Lim {
    pts: u64,
    ctr: u64,
    depth: u64,
}

/// The recursive definition, in u64 (no wrapping): total points / contours / nesting depth.
fn rec_limits(glyphs: &[hk::HookGlyph], g: usize, memo: &mut Vec<Option<Lim>>) -> Lim {
    if let Some(l) = memo[g] {
        return l;
    }
    let l = match &glyphs[g] {
        hk::HookGlyph::Empty => Lim::default(),
        hk::HookGlyph::Simple(c, _) => Lim { pts: c.iter().sum::<usize>() as u64, ctr: c.len() as u64, depth: 0 },
        hk::HookGlyph::Composite(cs, _) => {
            let mut acc = Lim::default();
            for c in cs {
                let e = rec_limits(glyphs, *c as usize, memo);
                acc.pts += e.pts;
                acc.ctr += e.ctr;
                acc.depth = acc.depth.max(e.depth + 1);
            }
            acc
        }
    };
    memo[g] = Some(l);
    l
}

struct WantLimits {
    max_points: u64,
    max_contours: u64,
    max_elems: u64,
    comp: Lim,
    bbox: Option<[i16; 4]>,
    overflow: bool,
}

fn want_limits(glyphs: &[hk::HookGlyph]) -> WantLimits {
    let mut memo = vec![None; glyphs.len()];
    let mut w = WantLimits { max_points: 0, max_contours: 0, max_elems: 0, comp: Lim::default(), bbox: None, overflow: false };
    for (i, g) in glyphs.iter().enumerate() {
        let l = rec_limits(glyphs, i, &mut memo);
        let b = match g {
            hk::HookGlyph::Empty => None,
            hk::HookGlyph::Simple(_, b) => {
                w.max_points = w.max_points.max(l.pts);
                w.max_contours = w.max_contours.max(l.ctr);
                Some(*b)
            }
            hk::HookGlyph::Composite(cs, b) => {
                w.max_elems = w.max_elems.max(cs.len() as u64);
                w.comp.pts = w.comp.pts.max(l.pts);
                w.comp.ctr = w.comp.ctr.max(l.ctr);
                w.comp.depth = w.comp.depth.max(l.depth);
                if l.pts > 65535 || l.ctr > 65535 {
                    w.overflow = true;
                }
                Some(*b)
            }
        };
        if let Some(b) = b {
            w.bbox = Some(match w.bbox {
                None => b,
                Some(a) => [a[0].min(b[0]), a[1].min(b[1]), a[2].max(b[2]), a[3].max(b[3])],
            });
        }
    }
    w
}

fn coq_hglyphs(glyphs: &[hk::HookGlyph]) -> String {
    coq_list(glyphs, |g| match g {
        hk::HookGlyph::Empty => "GEmpty".to_string(),
        hk::HookGlyph::Simple(c, b) => format!("(GSimple {} {})", coq_list(c, |x| cn(*x as u64)), coq_bbox(b)),
        hk::HookGlyph::Composite(c, b) => format!("(GComposite {} {})", coq_list(c, |x| cn(*x as u64)), coq_bbox(b)),
    })
}

// ---------------------------------------------------------------------------------------------
// Stream C: whole fonts — decoded font
// ---------------------------------------------------------------------------------------------
#[derive(Debug, Clone)]
struct DComp {
    gid: u16,
    /// xx, yx, xy, yy as raw F2Dot14 (value / 16384)
    m: [i32; 4],
    dx: i32,
    dy: i32,
}

#[derive(Debug, Clone)]
enum DBody {
    Empty,
    Simple { bbox: [i16; 4], contours: Vec<usize>, pts: Vec<(i32, i32)> },
    Composite { bbox: [i16; 4], comps: Vec<DComp> },
}

#[derive(Debug, Clone)]
enum Sub {
    /// a subtable whose context length is fixed: single/multiple/alternate = 1, pair = 2, attachments = 0
    Fixed(u64),
    Ligature(Vec<u64>),       // component counts (including the first glyph)
    Context(Vec<u64>),        // glyph counts of the rules (formats 1-3)
    Chain(Vec<(u64, u64)>),   // (input count, lookahead count)
    Reverse(u64),             // lookahead count
}

#[derive(Debug, Clone, Default)]
struct DFont {
    glyphs: Vec<DBody>,
    hmtx: Vec<(u16, i16)>,
    num_h: u16,
    head_bbox: [i16; 4],
    head_flags: u16,
    loc_format: i16,
    offsets: Vec<u32>,
    glyf_len: u32,
    hhea: [i32; 4], // advanceWidthMax, minLSB, minRSB, xMaxExtent
    maxp_num_glyphs: u16,
    maxp: [u16; 6], // points, contours, composite points, composite contours, component elements, depth
    os2_avg: i16,
    os2_first: u16,
    os2_last: u16,
    os2_ur: [u32; 4],
    os2_cp: [u32; 2],
    os2_maxctx: u16,
    cps: Vec<u32>,
    lookups: Vec<Vec<Sub>>,
    /// vmtx (advance height, top side bearing) per glyph, numberOfLongVerMetrics, vhea summary
    vert: Option<(Vec<(u16, i16)>, u16, [i32; 4])>,
}

fn parse_glyph(d: &[u8]) -> Option<DBody> {
    if d.is_empty() {
        return Some(DBody::Empty);
    }
    let nc = bei16(d, 0)?;
    let bbox = [bei16(d, 2)? as i16, bei16(d, 4)? as i16, bei16(d, 6)? as i16, bei16(d, 8)? as i16];
    if nc >= 0 {
        let nc = nc as usize;
        let mut ends = Vec::new();
        for i in 0..nc {
            ends.push(be16(d, 10 + 2 * i)? as usize);
        }
        let npts = ends.last().map(|e| e + 1).unwrap_or(0);
        let mut contours = Vec::new();
        let mut prev = 0usize;
        for e in &ends {
            contours.push(e + 1 - prev);
            prev = e + 1;
        }
        let ilen = be16(d, 10 + 2 * nc)? as usize;
        let mut o = 12 + 2 * nc + ilen;
        let mut flags = Vec::with_capacity(npts);
        while flags.len() < npts {
            let f = *d.get(o)?;
            o += 1;
            flags.push(f);
            if f & 8 != 0 {
                let r = *d.get(o)?;
                o += 1;
                for _ in 0..r {
                    flags.push(f);
                }
            }
        }
        flags.truncate(npts);
        let mut xs = Vec::with_capacity(npts);
        let mut x = 0i32;
        for f in &flags {
            if f & 2 != 0 {
                let v = *d.get(o)? as i32;
                o += 1;
                x += if f & 16 != 0 { v } else { -v };
            } else if f & 16 == 0 {
                x += bei16(d, o)?;
                o += 2;
            }
            xs.push(x);
        }
        let mut pts = Vec::with_capacity(npts);
        let mut y = 0i32;
        for (i, f) in flags.iter().enumerate() {
            if f & 4 != 0 {
                let v = *d.get(o)? as i32;
                o += 1;
                y += if f & 32 != 0 { v } else { -v };
            } else if f & 32 == 0 {
                y += bei16(d, o)?;
                o += 2;
            }
            pts.push((xs[i], y));
        }
        Some(DBody::Simple { bbox, contours, pts })
    } else {
        let mut o = 10;
        let mut comps = Vec::new();
        loop {
            let flags = be16(d, o)?;
            let gid = be16(d, o + 2)? as u16;
            o += 4;
            let (a1, a2);
            if flags & 1 != 0 {
                a1 = bei16(d, o)?;
                a2 = bei16(d, o + 2)?;
                o += 4;
            } else {
                a1 = *d.get(o)? as i8 as i32;
                a2 = *d.get(o + 1)? as i8 as i32;
                o += 2;
            }
            if flags & 2 == 0 {
                return None; // point-matching anchors: fontc never writes them
            }
            let mut m = [16384, 0, 0, 16384];
            if flags & 0x08 != 0 {
                let s = bei16(d, o)?;
                o += 2;
                m = [s, 0, 0, s];
            } else if flags & 0x40 != 0 {
                m = [bei16(d, o)?, 0, 0, bei16(d, o + 2)?];
                o += 4;
            } else if flags & 0x80 != 0 {
                // file order: xscale, scale01, scale10, yscale = xx, yx, xy, yy
                m = [bei16(d, o)?, bei16(d, o + 2)?, bei16(d, o + 4)?, bei16(d, o + 6)?];
                o += 8;
            }
            comps.push(DComp { gid, m, dx: a1, dy: a2 });
            if flags & 0x20 == 0 {
                break;
            }
        }
        Some(DBody::Composite { bbox, comps })
    }
}

fn read_long_metrics(t: &[u8], num_long: usize, n: usize) -> Option<Vec<(u16, i16)>> {
    if num_long == 0 && n > 0 {
        return None;
    }
    if t.len() != 4 * num_long + 2 * (n.saturating_sub(num_long)) {
        return None;
    }
    let mut v = Vec::new();
    for i in 0..n {
        if i < num_long {
            v.push((be16(t, 4 * i)? as u16, bei16(t, 4 * i + 2)? as i16));
        } else {
            let last = v[num_long - 1].0;
            v.push((last, bei16(t, 4 * num_long + 2 * (i - num_long))? as i16));
        }
    }
    Some(v)
}

fn seq_context_rules(sc: &write_fonts::read::tables::layout::SequenceContext) -> Vec<u64> {
    use write_fonts::read::tables::layout::SequenceContext as S;
    let mut v = Vec::new();
    match sc {
        S::Format1(f) => {
            for rs in f.seq_rule_sets().iter().flatten().flatten() {
                for r in rs.seq_rules().iter().flatten() {
                    v.push(r.glyph_count() as u64);
                }
            }
        }
        S::Format2(f) => {
            for rs in f.class_seq_rule_sets().iter().flatten().flatten() {
                for r in rs.class_seq_rules().iter().flatten() {
                    v.push(r.glyph_count() as u64);
                }
            }
        }
        S::Format3(f) => v.push(f.glyph_count() as u64),
    }
    v
}

fn chain_context_rules(sc: &write_fonts::read::tables::layout::ChainedSequenceContext) -> Vec<(u64, u64)> {
    use write_fonts::read::tables::layout::ChainedSequenceContext as S;
    let mut v = Vec::new();
    match sc {
        S::Format1(f) => {
            for rs in f.chained_seq_rule_sets().iter().flatten().flatten() {
                for r in rs.chained_seq_rules().iter().flatten() {
                    v.push((r.input_glyph_count() as u64, r.lookahead_glyph_count() as u64));
                }
            }
        }
        S::Format2(f) => {
            for rs in f.chained_class_seq_rule_sets().iter().flatten().flatten() {
                for r in rs.chained_class_seq_rules().iter().flatten() {
                    v.push((r.input_glyph_count() as u64, r.lookahead_glyph_count() as u64));
                }
            }
        }
        S::Format3(f) => v.push((f.input_glyph_count() as u64, f.lookahead_glyph_count() as u64)),
    }
    v
}

fn decode_lookups(font: &FontRef) -> Option<Vec<Vec<Sub>>> {
    use write_fonts::read::tables::gpos::PositionSubtables as P;
    use write_fonts::read::tables::gsub::SubstitutionSubtables as G;
    let mut out = Vec::new();
    if let Ok(gsub) = font.gsub() {
        for l in gsub.lookup_list().ok()?.lookups().iter() {
            let l = l.ok()?;
            let mut subs = Vec::new();
            match l.subtables().ok()? {
                G::Single(s) => s.iter().for_each(|_| subs.push(Sub::Fixed(1))),
                G::Multiple(s) => s.iter().for_each(|_| subs.push(Sub::Fixed(1))),
                G::Alternate(s) => s.iter().for_each(|_| subs.push(Sub::Fixed(1))),
                G::Ligature(s) => {
                    for st in s.iter() {
                        let st = st.ok()?;
                        let mut v = Vec::new();
                        for ls in st.ligature_sets().iter().flatten() {
                            for lg in ls.ligatures().iter().flatten() {
                                v.push(lg.component_count() as u64);
                            }
                        }
                        subs.push(Sub::Ligature(v));
                    }
                }
                G::Contextual(s) => {
                    for st in s.iter() {
                        subs.push(Sub::Context(seq_context_rules(&st.ok()?)));
                    }
                }
                G::ChainContextual(s) => {
                    for st in s.iter() {
                        subs.push(Sub::Chain(chain_context_rules(&st.ok()?)));
                    }
                }
                G::Reverse(s) => {
                    for st in s.iter() {
                        subs.push(Sub::Reverse(st.ok()?.lookahead_glyph_count() as u64));
                    }
                }
                G::EmptyExtension => {}
            }
            out.push(subs);
        }
    }
    if let Ok(gpos) = font.gpos() {
        for l in gpos.lookup_list().ok()?.lookups().iter() {
            let l = l.ok()?;
            let mut subs = Vec::new();
            match l.subtables().ok()? {
                P::Single(s) => s.iter().for_each(|_| subs.push(Sub::Fixed(1))),
                P::Pair(s) => s.iter().for_each(|_| subs.push(Sub::Fixed(2))),
                P::Cursive(s) => s.iter().for_each(|_| subs.push(Sub::Fixed(0))),
                P::MarkToBase(s) => s.iter().for_each(|_| subs.push(Sub::Fixed(0))),
                P::MarkToLig(s) => s.iter().for_each(|_| subs.push(Sub::Fixed(0))),
                P::MarkToMark(s) => s.iter().for_each(|_| subs.push(Sub::Fixed(0))),
                P::Contextual(s) => {
                    for st in s.iter() {
                        subs.push(Sub::Context(seq_context_rules(&st.ok()?)));
                    }
                }
                P::ChainContextual(s) => {
                    for st in s.iter() {
                        subs.push(Sub::Chain(chain_context_rules(&st.ok()?)));
                    }
                }
                P::EmptyExtension => {}
            }
            out.push(subs);
        }
    }
    Some(out)
}

fn decode_font(bytes: &[u8]) -> Result<DFont, String> {
    let e = |s: &str| s.to_string();
    let head = table(bytes, b"head").ok_or(e("no head"))?;
    let hhea = table(bytes, b"hhea").ok_or(e("no hhea"))?;
    let maxp = table(bytes, b"maxp").ok_or(e("no maxp"))?;
    let hmtx = table(bytes, b"hmtx").ok_or(e("no hmtx"))?;
    let loca = table(bytes, b"loca").ok_or(e("no loca"))?;
    let glyf = table(bytes, b"glyf").ok_or(e("no glyf"))?;
    let os2 = table(bytes, b"OS/2").ok_or(e("no OS/2"))?;
    let mut f = DFont::default();
    let g = |t: &[u8], o: usize| bei16(t, o).ok_or(e("short table"));
    let u = |t: &[u8], o: usize| be16(t, o).ok_or(e("short table"));
    f.head_flags = u(head, 16)? as u16;
    f.head_bbox = [g(head, 36)? as i16, g(head, 38)? as i16, g(head, 40)? as i16, g(head, 42)? as i16];
    f.loc_format = g(head, 50)? as i16;
    f.hhea = [u(hhea, 10)? as i32, g(hhea, 12)?, g(hhea, 14)?, g(hhea, 16)?];
    f.num_h = u(hhea, 34)? as u16;
    f.maxp_num_glyphs = u(maxp, 4)? as u16;
    if be32(maxp, 0) != Some(0x00010000) || maxp.len() < 32 {
        return Err(e("maxp is not version 1.0"));
    }
    f.maxp = [u(maxp, 6)? as u16, u(maxp, 8)? as u16, u(maxp, 10)? as u16, u(maxp, 12)? as u16, u(maxp, 28)? as u16, u(maxp, 30)? as u16];
    let n = f.maxp_num_glyphs as usize;
    // loca
    let want_len = if f.loc_format == 0 { 2 * (n + 1) } else { 4 * (n + 1) };
    if loca.len() != want_len {
        return Err(format!("loca has {} bytes, format {} with {} glyphs needs {}", loca.len(), f.loc_format, n, want_len));
    }
    for i in 0..=n {
        f.offsets.push(if f.loc_format == 0 { 2 * u(loca, 2 * i)? } else { be32(loca, 4 * i).ok_or(e("short loca"))? });
    }
    f.glyf_len = glyf.len() as u32;
    for i in 0..n {
        let (a, b) = (f.offsets[i] as usize, f.offsets[i + 1] as usize);
        if a > b || b > glyf.len() {
            return Err(format!("loca offsets {}..{} of glyph {} outside glyf ({} bytes)", a, b, i, glyf.len()));
        }
        f.glyphs.push(parse_glyph(&glyf[a..b]).ok_or(format!("glyph {} does not parse", i))?);
    }
    f.hmtx = read_long_metrics(hmtx, f.num_h as usize, n)
        .ok_or(format!("hmtx has {} bytes; numberOfHMetrics {} and {} glyphs need {}", hmtx.len(), f.num_h, n, 4 * f.num_h as usize + 2 * n.saturating_sub(f.num_h as usize)))?;
    // OS/2
    f.os2_avg = g(os2, 2)? as i16;
    f.os2_ur = [be32(os2, 42), be32(os2, 46), be32(os2, 50), be32(os2, 54)].map(|x| x.unwrap_or(0));
    f.os2_first = u(os2, 64)? as u16;
    f.os2_last = u(os2, 66)? as u16;
    let ver = u(os2, 0)?;
    if ver >= 1 {
        f.os2_cp = [be32(os2, 78).ok_or(e("short OS/2"))?, be32(os2, 82).ok_or(e("short OS/2"))?];
    }
    if ver >= 2 {
        f.os2_maxctx = u(os2, 94)? as u16;
    }
    // vertical
    if let (Some(vhea), Some(vmtx)) = (table(bytes, b"vhea"), table(bytes, b"vmtx")) {
        let numv = u(vhea, 34)? as u16;
        let v = read_long_metrics(vmtx, numv as usize, n).ok_or(format!("vmtx length {} does not fit numOfLongVerMetrics {}", vmtx.len(), numv))?;
        f.vert = Some((v, numv, [u(vhea, 10)? as i32, g(vhea, 12)?, g(vhea, 14)?, g(vhea, 16)?]));
    }
    // cmap, layout through read-fonts
    let font = FontRef::new(bytes).map_err(|x| x.to_string())?;
    let mut cps = BTreeSet::new();
    if let Ok(cmap) = font.cmap() {
        for rec in cmap.encoding_records() {
            if let Ok(st) = rec.subtable(cmap.offset_data()) {
                for (cp, gid) in st.iter() {
                    if gid.to_u32() != 0 {
                        cps.insert(cp);
                    }
                }
            }
        }
    }
    f.cps = cps.into_iter().collect();
    f.lookups = decode_lookups(&font).ok_or(e("GSUB/GPOS do not decode"))?;
    Ok(f)
}

// ---------------------------------------------------------------------------------------------
// whole-font predicate
// ---------------------------------------------------------------------------------------------
fn body_bbox(b: &DBody) -> Option<[i16; 4]> {
    match b {
        DBody::Empty => None,
        DBody::Simple { bbox, .. } | DBody::Composite { bbox, .. } => Some(*bbox),
    }
}

/// affine with entries num / 2^shift: [xx, yx, xy, yy, dx, dy]
#[derive(Clone, Copy)]
struct Aff {
    m: [i128; 6],
    shift: u32,
}

/// Resolved outline of a composite: every point of every leaf, as exact dyadic rationals.
fn resolve(glyphs: &[DBody], comps: &[DComp], parent: Aff, depth: usize, out: &mut Vec<(i128, i128, u32)>) -> Result<(), String> {
    if depth > 7 {
        return Err("component nesting deeper than 7 (or cyclic)".into());
    }
    for c in comps {
        let p = parent.m;
        let cm = [c.m[0] as i128, c.m[1] as i128, c.m[2] as i128, c.m[3] as i128];
        // parent * child; child 2x2 has shift 14, child offset shift 0
        let a = Aff {
            m: [
                p[0] * cm[0] + p[2] * cm[1],
                p[1] * cm[0] + p[3] * cm[1],
                p[0] * cm[2] + p[2] * cm[3],
                p[1] * cm[2] + p[3] * cm[3],
                (p[0] * c.dx as i128 + p[2] * c.dy as i128 + p[4]) << 14,
                (p[1] * c.dx as i128 + p[3] * c.dy as i128 + p[5]) << 14,
            ],
            shift: parent.shift + 14,
        };
        match glyphs.get(c.gid as usize).ok_or(format!("component glyph id {} out of range", c.gid))? {
            DBody::Empty => {}
            DBody::Simple { pts, .. } => {
                for (x, y) in pts {
                    let (x, y) = (*x as i128, *y as i128);
                    out.push((a.m[0] * x + a.m[2] * y + a.m[4], a.m[1] * x + a.m[3] * y + a.m[5], a.shift));
                }
            }
            DBody::Composite { comps, .. } => resolve(glyphs, comps, a, depth + 1, out)?,
        }
    }
    Ok(())
}

/// floor(num / 2^shift + 1/2)
fn round_dyadic(num: i128, shift: u32) -> i128 {
    if shift == 0 {
        num
    } else {
        (num + (1i128 << (shift - 1))) >> shift
    }
}

fn sub_ctx(s: &Sub) -> u64 {
    match s {
        Sub::Fixed(k) => *k,
        Sub::Ligature(v) | Sub::Context(v) => v.iter().copied().max().unwrap_or(0),
        Sub::Chain(v) => v.iter().map(|(i, l)| i + l).max().unwrap_or(0),
        Sub::Reverse(l) => 1 + l,
    }
}

fn f32_avg(total: u64, count: u64) -> i64 {
    let x = total as f32 / count as f32;
    ((x + 0.5).floor() as i16) as i64
}

/// ufo2ft calcCodePageRanges
fn codepage_bits(cps: &BTreeSet<u32>) -> BTreeSet<u32> {
    let has = |c: char| cps.contains(&(c as u32));
    let ascii = (0x20u32..0x7E).all(|c| cps.contains(&c));
    let lineart = has('┤');
    let sqrt = has('√');
    let mut b = BTreeSet::new();
    let mut set = |cond: bool, bit: u32| {
        if cond {
            b.insert(bit);
        }
    };
    set(has('Þ') && ascii, 0);
    set(has('Ľ') && ascii, 1);
    set(has('Ľ') && ascii && lineart, 58);
    set(has('Б'), 2);
    set(has('Б') && has('Ѕ') && lineart, 57);
    set(has('Б') && has('╜') && lineart, 49);
    set(has('Ά'), 3);
    set(has('Ά') && lineart && has('½'), 48);
    set(has('Ά') && lineart && sqrt, 60);
    set(has('İ') && ascii, 4);
    set(has('İ') && ascii && lineart, 56);
    set(has('א'), 5);
    set(has('א') && lineart && sqrt, 53);
    set(has('ر'), 6);
    set(has('ر') && sqrt, 51);
    set(has('ر') && lineart, 61);
    set(has('ŗ') && ascii, 7);
    set(has('ŗ') && ascii && lineart, 59);
    set(has('₫') && ascii, 8);
    set(has('ๅ'), 16);
    set(has('エ'), 17);
    set(has('ㄅ'), 18);
    set(has('ㄱ'), 19);
    set(has('央'), 20);
    set(has('곴'), 21);
    set(has('♥') && ascii, 30);
    set(has('þ') && ascii && lineart, 54);
    set(has('╚') && ascii, 62);
    set(has('╚') && ascii, 63);
    set(has('Å') && ascii && lineart && sqrt, 50);
    set(has('é') && ascii && lineart && sqrt, 52);
    set(has('õ') && ascii && lineart && sqrt, 55);
    set(ascii && has('‰') && has('∑'), 29);
    if b.is_empty() {
        b.insert(0);
    }
    b
}

/// The Unicode-range table of the OpenType spec, read from the source so that the check and the
/// Coq model can be tied to the table that is compiled in.
fn unicode_ranges_from_source() -> Vec<(u32, u32, u32)> {
    let src = std::fs::read_to_string("/repo/fontbe/src/os2.rs").expect("os2.rs");
    let start = src.find("const UNICODE_RANGES").expect("UNICODE_RANGES");
    let body = &src[start..];
    let end = body.find("];").unwrap();
    let mut v = Vec::new();
    for line in body[..end].lines() {
        let line = line.trim();
        if let Some(rest) = line.strip_prefix('(') {
            let inner = &rest[..rest.find(')').unwrap()];
            let parts: Vec<u32> = inner
                .split(',')
                .map(|p| {
                    let p = p.trim();
                    if let Some(h) = p.strip_prefix("0x") { u32::from_str_radix(h, 16).unwrap() } else { p.parse().unwrap() }
                })
                .collect();
            v.push((parts[0], parts[1], parts[2]));
        }
    }
    v
}

struct FontVerdict {
    fails: Vec<(String, String)>,
}

fn check_font(f: &DFont, ranges: &[(u32, u32, u32)]) -> FontVerdict {
    let mut fails: Vec<(String, String)> = Vec::new();
    let mut fail = |k: &str, d: String| fails.push((k.to_string(), d));
    let n = f.glyphs.len();

    // ---- head bbox = union of glyph boxes
    let mut un: Option<[i16; 4]> = None;
    for g in &f.glyphs {
        if let Some(b) = body_bbox(g) {
            un = Some(match un {
                None => b,
                Some(a) => [a[0].min(b[0]), a[1].min(b[1]), a[2].max(b[2]), a[3].max(b[3])],
            });
        }
    }
    if f.head_bbox != un.unwrap_or([0; 4]) {
        fail("head-bbox-not-union", format!("head box {:?}, union of glyph boxes {:?}", f.head_bbox, un));
    }

    // ---- simple glyph boxes are the bounds of their points; composite boxes cover the resolved outline
    for (i, g) in f.glyphs.iter().enumerate() {
        match g {
            DBody::Empty => {}
            DBody::Simple { bbox, pts, .. } => {
                let b = [
                    pts.iter().map(|p| p.0).min().unwrap_or(0),
                    pts.iter().map(|p| p.1).min().unwrap_or(0),
                    pts.iter().map(|p| p.0).max().unwrap_or(0),
                    pts.iter().map(|p| p.1).max().unwrap_or(0),
                ];
                if b != bbox.map(|v| v as i32) {
                    fail("simple-bbox-not-point-bounds", format!("glyph {}: box {:?}, point bounds {:?}", i, bbox, b));
                }
            }
            DBody::Composite { bbox, comps } => {
                let mut pts = Vec::new();
                let id = Aff { m: [1, 0, 0, 1, 0, 0], shift: 0 };
                if let Err(e) = resolve(&f.glyphs, comps, id, 0, &mut pts) {
                    fail("composite-unresolvable", format!("glyph {}: {}", i, e));
                    continue;
                }
                if pts.is_empty() {
                    if *bbox != [0; 4] {
                        fail("composite-bbox-of-empty-outline", format!("glyph {}: no outline points but box {:?}", i, bbox));
                    }
                    continue;
                }
                // exact comparison on num / 2^shift
                let le = |a: (i128, u32), b: (i128, u32)| -> bool {
                    let s = a.1.max(b.1);
                    (a.0 << (s - a.1)) <= (b.0 << (s - b.1))
                };
                let mut strict_ok = true;
                let mut ext: [Option<(i128, u32)>; 4] = [None; 4];
                for (x, y, s) in &pts {
                    let (px, py) = ((*x, *s), (*y, *s));
                    strict_ok &= le((bbox[0] as i128, 0), px) && le(px, (bbox[2] as i128, 0)) && le((bbox[1] as i128, 0), py) && le(py, (bbox[3] as i128, 0));
                    ext[0] = Some(match ext[0] { Some(m) if le(m, px) => m, _ => px });
                    ext[1] = Some(match ext[1] { Some(m) if le(m, py) => m, _ => py });
                    ext[2] = Some(match ext[2] { Some(m) if le(px, m) => m, _ => px });
                    ext[3] = Some(match ext[3] { Some(m) if le(py, m) => m, _ => py });
                }
                let nearest: Vec<i128> = ext.iter().map(|e| round_dyadic(e.unwrap().0, e.unwrap().1)).collect();
                let have: Vec<i128> = bbox.iter().map(|v| *v as i128).collect();
                if nearest != have {
                    fail(
                        "composite-bbox-not-rounded-bounds",
                        format!("glyph {}: box {:?}, bounds of the resolved outline rounded to nearest {:?}", i, bbox, nearest),
                    );
                } else if !strict_ok {
                    fail(
                        "composite-bbox-excludes-fractional-extreme",
                        format!(
                            "glyph {}: box {:?} does not contain every point of the resolved outline: an extreme falls on a fraction (scaled component) and is rounded inwards; exact bounds x {}..{} y {}..{}",
                            i,
                            bbox,
                            ext[0].unwrap().0 as f64 / (1u128 << ext[0].unwrap().1) as f64,
                            ext[2].unwrap().0 as f64 / (1u128 << ext[2].unwrap().1) as f64,
                            ext[1].unwrap().0 as f64 / (1u128 << ext[1].unwrap().1) as f64,
                            ext[3].unwrap().0 as f64 / (1u128 << ext[3].unwrap().1) as f64
                        ),
                    );
                }
            }
        }
    }

    // ---- hhea / hmtx
    let amax = f.hmtx.iter().map(|m| m.0 as i32).max().unwrap_or(0);
    if f.hhea[0] != amax {
        fail("hhea-advance-max", format!("advanceWidthMax {} but largest hmtx advance is {}", f.hhea[0], amax));
    }
    let mut min_lsb: Option<i32> = None;
    let mut min_rsb: Option<i32> = None;
    let mut ext: Option<i32> = None;
    for (g, (adv, lsb)) in f.glyphs.iter().zip(f.hmtx.iter()) {
        if let Some(b) = body_bbox(g) {
            if *lsb != b[0] && f.head_flags & 2 != 0 {
                fail("hmtx-lsb-ne-xmin", format!("head.flags bit 1 set but a glyph has lsb {} and xMin {}", lsb, b[0]));
            }
            let w = b[2] as i32 - b[0] as i32;
            let rsb = clamp16(*adv as i64 - *lsb as i64 - w as i64) as i32;
            let e = clamp16(*lsb as i64 + w as i64) as i32;
            min_lsb = Some(min_lsb.map_or(*lsb as i32, |m| m.min(*lsb as i32)));
            min_rsb = Some(min_rsb.map_or(rsb, |m| m.min(rsb)));
            ext = Some(ext.map_or(e, |m| m.max(e)));
        }
    }
    if f.hhea[1] != min_lsb.unwrap_or(0) {
        fail("hhea-min-left-side-bearing", format!("{} but minimum over glyphs with an outline is {:?}", f.hhea[1], min_lsb));
    }
    if f.hhea[2] != min_rsb.unwrap_or(0) {
        fail("hhea-min-right-side-bearing", format!("{} but minimum over glyphs with an outline is {:?}", f.hhea[2], min_rsb));
    }
    if f.hhea[3] != ext.unwrap_or(0) {
        fail("hhea-x-max-extent", format!("{} but maximum of lsb + (xMax - xMin) is {:?}", f.hhea[3], ext));
    }
    if n > 0 && f.num_h == 0 {
        fail("hhea-number-of-h-metrics", "numberOfHMetrics is 0".into());
    }

    // ---- vhea / vmtx
    if let Some((vm, numv, vh)) = &f.vert {
        let amax = vm.iter().map(|m| m.0 as i32).max().unwrap_or(0);
        let mut min_t: Option<i32> = None;
        let mut min_b: Option<i32> = None;
        let mut ext: Option<i32> = None;
        for (g, (adv, tsb)) in f.glyphs.iter().zip(vm.iter()) {
            if let Some(b) = body_bbox(g) {
                let h = b[3] as i32 - b[1] as i32;
                let bsb = clamp16(*adv as i64 - *tsb as i64 - h as i64) as i32;
                let e = clamp16(*tsb as i64 + h as i64) as i32;
                min_t = Some(min_t.map_or(*tsb as i32, |m| m.min(*tsb as i32)));
                min_b = Some(min_b.map_or(bsb, |m| m.min(bsb)));
                ext = Some(ext.map_or(e, |m| m.max(e)));
            }
        }
        if vh[0] != amax {
            fail("vhea-advance-max", format!("advanceHeightMax {} but largest vmtx advance is {}", vh[0], amax));
        }
        if vh[1] != min_t.unwrap_or(0) {
            fail("vhea-min-top-side-bearing", format!("{} vs {:?}", vh[1], min_t));
        }
        if vh[2] != min_b.unwrap_or(0) {
            fail("vhea-min-bottom-side-bearing", format!("{} vs {:?}", vh[2], min_b));
        }
        if vh[3] != ext.unwrap_or(0) {
            fail("vhea-y-max-extent", format!("{} vs {:?}", vh[3], ext));
        }
        if n > 0 && *numv == 0 {
            fail("vhea-number-of-long-metrics", "numOfLongVerMetrics is 0".into());
        }
    }

    // ---- maxp
    let hg: Vec<hk::HookGlyph> = f
        .glyphs
        .iter()
        .map(|g| match g {
            DBody::Empty => hk::HookGlyph::Empty,
            DBody::Simple { bbox, contours, .. } => hk::HookGlyph::Simple(contours.clone(), *bbox),
            DBody::Composite { bbox, comps } => hk::HookGlyph::Composite(comps.iter().map(|c| c.gid).collect(), *bbox),
        })
        .collect();
    let bad_ref = hg.iter().any(|g| matches!(g, hk::HookGlyph::Composite(c, _) if c.iter().any(|x| *x as usize >= n)));
    if !bad_ref {
        let w = want_limits(&hg);
        let want = [w.max_points, w.max_contours, w.comp.pts, w.comp.ctr, w.max_elems, w.comp.depth];
        let names = ["maxp-max-points", "maxp-max-contours", "maxp-max-composite-points", "maxp-max-composite-contours", "maxp-max-component-elements", "maxp-max-component-depth"];
        for k in 0..6 {
            if f.maxp[k] as u64 != want[k] {
                fail(names[k], format!("maxp field {} but the glyphs give {}", f.maxp[k], want[k]));
            }
        }
    }
    if f.maxp_num_glyphs as usize != n {
        fail("maxp-num-glyphs", format!("{} vs {}", f.maxp_num_glyphs, n));
    }

    // ---- loca format matches glyf size
    let last = *f.offsets.last().unwrap_or(&0);
    if last > f.glyf_len || f.glyf_len - last > 3 {
        fail("loca-end-ne-glyf-length", format!("last loca offset {} but glyf has {} bytes", last, f.glyf_len));
    }
    let fits_short = last < 0x20000 && f.offsets.iter().all(|o| o % 2 == 0);
    if (f.loc_format == 0) != fits_short {
        fail("loca-format-vs-glyf-size", format!("indexToLocFormat {} but glyf ends at {} (short offsets {})", f.loc_format, last, if fits_short { "suffice" } else { "do not suffice" }));
    }

    // ---- OS/2
    let nz: Vec<u64> = f.hmtx.iter().map(|m| m.0 as u64).filter(|a| *a > 0).collect();
    let (total, count) = (nz.iter().sum::<u64>(), nz.len() as u64);
    let exact = if count == 0 { 0 } else { ((2 * total + count) / (2 * count)) as i64 };
    if f.os2_avg as i64 != exact {
        if count > 0 && f32_avg(total, count) == f.os2_avg as i64 && exact <= i16::MAX as i64 {
            fail(
                "os2-xavgcharwidth-f32-tie",
                format!("xAvgCharWidth {} but the mean of the {} non-zero advances is {}/{} which rounds to {} (the division is done in f32)", f.os2_avg, count, total, count, exact),
            );
        } else if exact > i16::MAX as i64 {
            fail("os2-xavgcharwidth-saturated", format!("xAvgCharWidth {} but the mean is {}", f.os2_avg, exact));
        } else {
            fail("os2-xavgcharwidth", format!("xAvgCharWidth {} but the mean of non-zero advances is {}/{} = {}", f.os2_avg, total, count, exact));
        }
    }
    let first = f.cps.iter().copied().min().unwrap_or(0xFFFF).min(0xFFFF);
    let lastc = f.cps.iter().copied().max().unwrap_or(0).min(0xFFFF);
    if f.os2_first as u32 != first {
        fail("os2-first-char-index", format!("usFirstCharIndex {:#x} but smallest cmap code point is {:#x}", f.os2_first, first));
    }
    if f.os2_last as u32 != lastc {
        fail("os2-last-char-index", format!("usLastCharIndex {:#x} but largest cmap code point (capped at 0xFFFF) is {:#x}", f.os2_last, lastc));
    }
    let mut ur = [0u32; 4];
    for cp in &f.cps {
        if let Some((_, _, bit)) = ranges.iter().find(|(lo, hi, _)| lo <= cp && cp <= hi) {
            ur[(bit / 32) as usize] |= 1 << (bit % 32);
        }
        if *cp >= 0x10000 {
            ur[1] |= 1 << (57 - 32);
        }
    }
    if ur != f.os2_ur {
        fail("os2-unicode-range", format!("ulUnicodeRange {:08x?} but cmap gives {:08x?}", f.os2_ur, ur));
    }
    let cpset: BTreeSet<u32> = f.cps.iter().copied().collect();
    let mut cpr = [0u32; 2];
    for b in codepage_bits(&cpset) {
        cpr[(b / 32) as usize] |= 1 << (b % 32);
    }
    if cpr != f.os2_cp {
        fail("os2-codepage-range", format!("ulCodePageRange {:08x?} but cmap gives {:08x?}", f.os2_cp, cpr));
    }
    let mc = f.lookups.iter().flat_map(|l| l.iter()).map(sub_ctx).max().unwrap_or(0);
    if f.os2_maxctx as u64 != mc {
        fail("os2-max-context", format!("usMaxContext {} but the layout tables give {}", f.os2_maxctx, mc));
    }
    FontVerdict { fails }
}

// ---------------------------------------------------------------------------------------------
// whole-font Gallina term
// ---------------------------------------------------------------------------------------------
fn coq_dfont(f: &DFont) -> String {
    // the model looks at the points of a simple glyph only when a composite refers to it;
    // the points of the others are left out of the term to keep it small
    let mut referenced = vec![false; f.glyphs.len()];
    for g in &f.glyphs {
        if let DBody::Composite { comps, .. } = g {
            for c in comps {
                if let Some(r) = referenced.get_mut(c.gid as usize) {
                    *r = true;
                }
            }
        }
    }
    let indexed: Vec<(usize, &DBody, &(u16, i16))> = f.glyphs.iter().zip(f.hmtx.iter()).enumerate().map(|(i, (g, m))| (i, g, m)).collect();
    let glyphs = coq_list(&indexed, |(i, g, (adv, lsb))| {
        let body = match g {
            DBody::Empty => "DEmpty".to_string(),
            DBody::Simple { bbox, contours, pts } => format!(
                "(DSimple {} {} {})",
                coq_bbox(bbox),
                coq_list(contours, |c| cn(*c as u64)),
                if referenced[*i] { coq_list(pts, |(x, y)| format!("({}, {})", cz(*x as i64), cz(*y as i64))) } else { "[]".to_string() }
            ),
            DBody::Composite { bbox, comps } => format!(
                "(DComposite {} {})",
                coq_bbox(bbox),
                coq_list(comps, |c| format!(
                    "({}, ({}, {}, {}, {}), ({}, {}))",
                    cn(c.gid as u64),
                    cz(c.m[0] as i64),
                    cz(c.m[1] as i64),
                    cz(c.m[2] as i64),
                    cz(c.m[3] as i64),
                    cz(c.dx as i64),
                    cz(c.dy as i64)
                ))
            ),
        };
        format!("(mkG {} {} {})", cz(*adv as i64), cz(*lsb as i64), body)
    });
    let q4 = |v: &[i32; 4]| format!("({}, {}, {}, {})", cz(v[0] as i64), cz(v[1] as i64), cz(v[2] as i64), cz(v[3] as i64));
    let subs = coq_list(&f.lookups, |l| {
        coq_list(l, |s| match s {
            Sub::Fixed(k) => format!("(StFixed {})", cn(*k)),
            Sub::Ligature(v) => format!("(StLigature {})", coq_list(v, |x| cn(*x))),
            Sub::Context(v) => format!("(StContext {})", coq_list(v, |x| cn(*x))),
            Sub::Chain(v) => format!("(StChain {})", coq_list(v, |(i, l)| format!("({}, {})", cn(*i), cn(*l)))),
            Sub::Reverse(l) => format!("(StReverse {})", cn(*l)),
        })
    });
    let vert = match &f.vert {
        None => "None".to_string(),
        Some((vm, numv, vh)) => format!(
            "(Some ({}, {}, {}))",
            coq_list(vm, |(a, t)| format!("({}, {})", cz(*a as i64), cz(*t as i64))),
            cn(*numv as u64),
            q4(vh)
        ),
    };
    format!(
        "(mkF {} {} {} {} ({}, {}, {}, {}, {}, {}) {} {} {} ({}, {}, {}) ({}, {}, {}, {}) ({}, {}) {} {} {} {})",
        glyphs,
        cn(f.num_h as u64),
        coq_bbox(&f.head_bbox),
        q4(&f.hhea),
        cn(f.maxp[0] as u64),
        cn(f.maxp[1] as u64),
        cn(f.maxp[2] as u64),
        cn(f.maxp[3] as u64),
        cn(f.maxp[4] as u64),
        cn(f.maxp[5] as u64),
        coq_bool(f.loc_format != 0),
        coq_list(&f.offsets, |o| cn(*o as u64)),
        cn(f.glyf_len as u64),
        cz(f.os2_avg as i64),
        cn(f.os2_first as u64),
        cn(f.os2_last as u64),
        cn(f.os2_ur[0] as u64),
        cn(f.os2_ur[1] as u64),
        cn(f.os2_ur[2] as u64),
        cn(f.os2_ur[3] as u64),
        cn(f.os2_cp[0] as u64),
        cn(f.os2_cp[1] as u64),
        cn(f.os2_maxctx as u64),
        coq_list(&f.cps, |c| cn(*c as u64)),
        subs,
        vert
    )
}

// ---------------------------------------------------------------------------------------------
// whole-font generator
// ---------------------------------------------------------------------------------------------
const CP_TRIGGERS: &[char] = &[
    'Þ', 'Ľ', 'Б', 'Ѕ', '╜', 'Ά', '½', '√', 'İ', 'א', 'ر', 'ŗ', '₫', 'ๅ', 'エ', 'ㄅ', 'ㄱ', '央', '곴', '♥', 'þ', '╚', 'Å', 'é', 'õ', '‰', '∑', '┤',
];

struct GenFont {
    design: Design,
    kind: &'static str,
    summary: serde_json::Value,
}

fn gen_font(rng: &mut Rng, idx: usize) -> GenFont {
    let class = rng.below(12);
    let kind: &'static str = match class {
        0 => "all-empty",
        1 => "monospace",
        2 => "trailing-run",
        3 => "nested-composites",
        4 => "scaled-components",
        5 => "supplementary-cmap",
        6 => "codepage-ascii",
        7 => "layout",
        8 => "vertical",
        9 => "negative-bearings",
        10 => "variable",
        _ => "mixed",
    };
    let n = match class {
        0 => rng.range(1, 4) as usize,
        6 => 8,
        _ => rng.range(3, 14) as usize,
    };
    let mut glyphs: Vec<GlyphSrc> = Vec::new();
    let mut simple_names: Vec<String> = Vec::new();
    let mut comp_names: Vec<String> = Vec::new();
    let mut empty_names: Vec<String> = Vec::new();
    let mono_adv = *rng.pick(&[0.0, 500.0, 600.0, 1000.0]);
    for i in 0..n {
        let name = format!("g{}", i);
        let adv = match class {
            1 => mono_adv,
            2 if i * 2 >= n => mono_adv,
            _ => match rng.below(8) {
                0 => 0.0,
                1 => mono_adv,
                _ => rng.range(50, 1400) as f64,
            },
        };
        let mut g = GlyphSrc::new(&name, adv);
        let shape = if class == 0 { 0 } else { rng.below(10) };
        let can_comp = !simple_names.is_empty() && class != 0;
        if shape < 2 {
            empty_names.push(name.clone());
        } else if shape < 6 || !can_comp {
            let nc = rng.range(1, 3);
            for _ in 0..nc {
                let x0 = if class == 9 || rng.chance(1, 3) { rng.range(-400, 50) } else { rng.range(0, 300) } as f64;
                let y0 = rng.range(-300, 300) as f64;
                let w = if class == 9 || rng.chance(1, 4) { rng.range(200, 1800) } else { rng.range(1, 600) } as f64;
                let h = rng.range(1, 900) as f64;
                if rng.chance(1, 4) {
                    // a triangle with a curve: quadratic off-curve points count as points
                    g.contours.push(vec![(x0, y0, Pt::Line), (x0 + w, y0, Pt::Line), (x0 + w / 2.0, y0 + h, Pt::Off), (x0, y0 + h / 2.0, Pt::QCurve)]);
                } else {
                    g = g.rect(x0, y0, x0 + w, y0 + h);
                }
            }
            simple_names.push(name.clone());
        } else {
            let k = rng.range(1, 4) as usize;
            for _ in 0..k {
                let nested = (class == 3 || rng.chance(1, 4)) && !comp_names.is_empty();
                let base = if nested {
                    rng.pick(&comp_names).clone()
                } else if rng.chance(1, 8) && !empty_names.is_empty() {
                    rng.pick(&empty_names).clone()
                } else {
                    rng.pick(&simple_names).clone()
                };
                let dx = rng.range(-300, 600) as f64;
                let dy = rng.range(-300, 600) as f64;
                let t = if class == 4 || rng.chance(1, 5) {
                    match rng.below(6) {
                        0 => [0.5, 0.0, 0.0, 0.5, dx, dy],
                        1 => [-1.0, 0.0, 0.0, 1.0, dx, dy],
                        2 => [0.75, 0.0, 0.0, 1.25, dx + 0.5, dy],
                        3 => [0.0, 1.0, -1.0, 0.0, dx, dy],
                        4 => [0.3, 0.2, -0.2, 0.3, dx, dy],
                        _ => [1.0, 0.0, 0.25, 1.0, dx, dy],
                    }
                } else {
                    [1.0, 0.0, 0.0, 1.0, dx, dy]
                };
                g = g.comp(&base, t);
            }
            comp_names.push(name.clone());
        }
        glyphs.push(g);
    }
    // code points
    let mut used = BTreeSet::new();
    let mut assign = |g: &mut GlyphSrc, cp: u32| {
        if used.insert(cp) {
            g.unicodes.push(cp);
        }
    };
    match class {
        6 => {
            // the whole of 0x20..0x7E spread over the glyphs, plus code-page trigger characters
            for cp in 0x20u32..0x7F {
                let k = (cp as usize) % glyphs.len();
                assign(&mut glyphs[k], cp);
            }
            for _ in 0..rng.range(1, 8) {
                let k = rng.below(glyphs.len() as u64) as usize;
                assign(&mut glyphs[k], *rng.pick(CP_TRIGGERS) as u32);
            }
        }
        _ => {
            for g in glyphs.iter_mut() {
                let m = match rng.below(6) {
                    0 => 0,
                    1 => 2,
                    _ => 1,
                };
                for _ in 0..m {
                    let cp = match (class, rng.below(10)) {
                        (5, 0..=4) => *rng.pick(&[0x10000u32, 0x1F600, 0x2F800, 0x10FFFD, 0xF0000, 0x1D400, 0xE0100, 0x20000]),
                        (_, 0) => *rng.pick(&[0x10000u32, 0x1F000, 0x10FFFF, 0xFFFF, 0xFFFE, 0x0]),
                        (_, 1) => *rng.pick(CP_TRIGGERS) as u32,
                        (_, 2) => rng.range(0x20, 0x7E) as u32,
                        (_, 3) => *rng.pick(&[0x0870u32, 0x1AB0, 0x2FE0, 0xA960, 0x10200, 0x7F, 0x80, 0x24F, 0x250, 0xD7AF, 0xE000, 0xF8FF]),
                        _ => rng.range(0x20, 0x3000) as u32,
                    };
                    // surrogates cannot be written in a glif
                    if !(0xD800..=0xDFFF).contains(&cp) {
                        assign(g, cp);
                    }
                }
            }
        }
    }
    let mut design = Design::single(&format!("C17F{}", idx), glyphs);
    // layout
    if class == 7 || rng.chance(1, 6) {
        let names: Vec<String> = design.masters[0].glyphs.iter().map(|g| g.name.clone()).collect();
        if names.len() >= 3 {
            let mut fea = String::new();
            let pick = |rng: &mut Rng| names[rng.below(names.len() as u64) as usize].clone();
            if rng.chance(2, 3) {
                let k = rng.range(2, 5) as usize;
                let seq: Vec<String> = (0..k).map(|_| pick(rng)).collect();
                fea.push_str(&format!("feature liga {{ sub {} by {}; }} liga;\n", seq.join(" "), pick(rng)));
            }
            if rng.chance(1, 2) {
                let i = rng.range(1, 3) as usize;
                let l = rng.range(0, 4) as usize;
                let b = rng.range(0, 2) as usize;
                let bt: Vec<String> = (0..b).map(|_| pick(rng)).collect();
                let inp: Vec<String> = (0..i).map(|_| format!("{}'", pick(rng))).collect();
                let la: Vec<String> = (0..l).map(|_| pick(rng)).collect();
                fea.push_str(&format!("feature calt {{ sub {} {} {} by {}; }} calt;\n", bt.join(" "), inp.join(" "), la.join(" "), pick(rng)));
            }
            if rng.chance(1, 3) {
                fea.push_str(&format!("feature ss01 {{ sub {} by {}; }} ss01;\n", names[0], names[1]));
            }
            if rng.chance(1, 2) {
                fea.push_str(&format!("feature kern {{ pos {} {} -40; }} kern;\n", pick(rng), pick(rng)));
            }
            if rng.chance(1, 4) {
                fea.push_str(&format!("feature rvrn {{ rsub {} {}' {} {} by {}; }} rvrn;\n", pick(rng), pick(rng), pick(rng), pick(rng), pick(rng)));
            }
            if !fea.is_empty() {
                design.masters[0].features = Some(fea);
            }
        }
    }
    if class == 8 || rng.chance(1, 8) {
        let m = &mut design.masters[0];
        m.fontinfo.push(("openTypeVheaVertTypoAscender".into(), "<integer>500</integer>".into()));
        m.fontinfo.push(("openTypeVheaVertTypoDescender".into(), "<integer>-500</integer>".into()));
        m.fontinfo.push(("openTypeVheaVertTypoLineGap".into(), "<integer>0</integer>".into()));
        for g in m.glyphs.iter_mut() {
            g.height = Some(match rng.below(4) {
                0 => 0.0,
                1 => 1000.0,
                _ => rng.range(100, 1500) as f64,
            });
        }
    }
    if class == 10 || rng.chance(1, 10) {
        // a second master: same structure, other coordinates; the summaries describe the default master
        design.axes = vec![vh::srcgen::AxisSrc { name: "Weight".into(), tag: "wght".into(), min: 400.0, default: 400.0, max: 700.0, map: vec![], hidden: false }];
        design.masters[0].location = vec![("Weight".into(), 400.0)];
        let mut bold = design.masters[0].clone();
        bold.name = "Bold".into();
        bold.style = "Bold".into();
        bold.location = vec![("Weight".into(), 700.0)];
        bold.features = None;
        for g in bold.glyphs.iter_mut() {
            if g.advance > 0.0 {
                g.advance += rng.range(0, 80) as f64;
            }
            let grow = rng.range(0, 60) as f64;
            for c in g.contours.iter_mut() {
                for p in c.iter_mut() {
                    p.0 = p.0 * 1.125 - grow;
                    p.1 = p.1 * 1.0625;
                }
            }
            for c in g.components.iter_mut() {
                c.1[4] += grow;
            }
        }
        design.masters.push(bold);
    }
    let summary = json!({
        "variable": design.masters.len() > 1,
        "glyphs": design.masters[0].glyphs.iter().map(|g| json!({
            "name": g.name, "advance": g.advance, "height": g.height, "unicodes": g.unicodes,
            "contours": g.contours.iter().map(|c| c.iter().map(|p| (p.0, p.1)).collect::<Vec<_>>()).collect::<Vec<_>>(),
            "components": g.components,
        })).collect::<Vec<_>>(),
        "features": design.masters[0].features,
    });
    GenFont { design, kind, summary }
}

/// DESIGN 6.2 (repaired in /repo): a composite whose total point count exceeds 65535 must be
/// rejected with a diagnostic, not wrapped (release) or panicked on (debug).
fn overflow_font() -> GenFont {
    let mut a = GlyphSrc::new("a", 500.0);
    // 175 rectangles = 700 points
    for i in 0..175 {
        let x = (i % 25) as f64 * 20.0;
        let y = (i / 25) as f64 * 20.0;
        a = a.rect(x, y, x + 10.0, y + 10.0);
    }
    let mut b = GlyphSrc::new("b", 500.0);
    for i in 0..100 {
        b = b.comp("a", [1.0, 0.0, 0.0, 1.0, i as f64, 0.0]);
    }
    let design = Design::single("C17Overflow", vec![a.uni(0x61), b.uni(0x62)]);
    GenFont { design, kind: "composite-over-65535-points", summary: json!({"a": "175 rectangles = 700 points", "b": "100 components of a = 70000 points"}) }
}

/// A glyf table larger than 128 KiB, so that loca has to use the long format.
fn long_loca_font() -> GenFont {
    let mut glyphs = Vec::new();
    for i in 0..110 {
        let mut g = GlyphSrc::new(&format!("big{}", i), 1000.0);
        for k in 0..200 {
            let x = (k % 20) as f64 * 70.0 + (i % 7) as f64;
            let y = (k / 20) as f64 * 70.0;
            g = g.rect(x, y, x + 50.0, y + 50.0);
        }
        if i == 0 {
            g = g.uni(0x42);
        }
        glyphs.push(g);
    }
    let design = Design::single("C17Long", glyphs);
    GenFont { design, kind: "glyf-over-128k", summary: json!({"glyphs": 110, "contours_each": 200}) }
}

/// Mean advance a hair below a rounding tie, where an f32 division cannot tell it from the tie:
/// `c` glyphs (c odd), (c-1)/2 of them one unit wider than the rest, so the mean is
/// base + 1/2 - 1/(2c).  The smallest such c (from 515) on which f32 and exact rounding differ.
fn f32_tie_font() -> GenFont {
    let base = 30000u64;
    let mut c = 515u64;
    loop {
        let k = (c - 1) / 2;
        let total = c * base + k;
        let exact = ((2 * total + c) / (2 * c)) as i64;
        if f32_avg(total, c) != exact || c > 4001 {
            break;
        }
        c += 2;
    }
    let k = (c - 1) / 2;
    let mut glyphs = Vec::new();
    // our own .notdef so that every advance in the font is chosen here
    glyphs.push(GlyphSrc::new(".notdef", base as f64).rect(0.0, 0.0, 10.0, 10.0));
    for i in 1..c {
        let adv = if i <= k { base + 1 } else { base };
        let mut g = GlyphSrc::new(&format!("t{}", i), adv as f64);
        if i == 1 {
            g = g.uni(0x41).rect(0.0, 0.0, 100.0, 100.0);
        }
        glyphs.push(g);
    }
    let design = Design::single("C17Tie", glyphs);
    GenFont { design, kind: "xavg-near-tie", summary: json!({"glyphs": c, "advances": format!("{} x {}, {} x {}", c - k, base, k, base + 1)}) }
}

// ---------------------------------------------------------------------------------------------
fn main() {
    let args: Vec<String> = std::env::args().collect();
    let args = &args[1..];
    let seed = arg_val(args, "--seed", 1);
    let n = arg_val(args, "--n", 300) as usize;
    let nfonts = arg_val(args, "--fonts", 60) as usize;
    let only = args.iter().position(|a| a == "--only").and_then(|i| args.get(i + 1)).cloned();
    let want = |s: &str| only.as_deref().map_or(true, |o| o == s);
    quiet_panics();
    let mut rng = Rng::new(seed);
    let mut id = 0usize;
    let mut dist: BTreeMap<String, usize> = BTreeMap::new();

    // ---- table tie: the Unicode-range table of the model is the one compiled into fontbe
    let ranges = unicode_ranges_from_source();
    {
        let coq = format!(
            "ranges_eqb unicode_ranges {}",
            coq_list(&ranges, |(a, b, c)| format!("({}, {}, {})", cn(*a as u64), cn(*b as u64), cn(*c as u64)))
        );
        emit_case(id, "unicode-range-table", coq, None, true, "table".into(), json!({"entries": ranges.len()}));
        id += 1;
    }

    // ---- C: whole fonts
    let mut compiled = 0usize;
    let mut errors = 0usize;
    let mut glyph_total = 0usize;
    let mut composite_total = 0usize;
    let mut overflow_font_rejected = false;
    let mut long_loca = 0usize;
    let mut vertical = 0usize;
    let mut with_layout = 0usize;
    let mut depth_hist: BTreeMap<String, usize> = BTreeMap::new();
    if want("fonts") {
        let mut fonts: Vec<GenFont> = Vec::new();
        for i in 0..nfonts {
            fonts.push(gen_font(&mut rng, i));
        }
        // the fixed fonts come first in the output so that the violation shown for a key is the
        // documented input; they draw nothing from the PRNG
        let fixed = vec![overflow_font(), f32_tie_font(), long_loca_font()];
        for (i, gf) in fixed.into_iter().chain(fonts.into_iter()).enumerate() {
            *dist.entry(format!("font/{}", gf.kind)).or_default() += 1;
            let dir = scratch_dir("c17");
            let path = gf.design.write(dir.path());
            let ctx = json!({"font_index": i, "kind": gf.kind, "source": gf.summary});
            match compile_path(&path, None, None) {
                Outcome::Panic(m) => emit_violation("compile-panic", format!("fontc panicked: {}", m), ctx),
                Outcome::Error(m) => {
                    if gf.kind == "composite-over-65535-points" {
                        if m.contains("out of bounds") {
                            // the repaired behaviour: a diagnostic, in every profile
                            overflow_font_rejected = true;
                            let table = vec![hk::HookGlyph::Simple(vec![4; 175], [0, 0, 490, 130]), hk::HookGlyph::Composite(vec![0; 100], [0, 0, 589, 130])];
                            let coq = format!("outcome_is_error (limits_run Checked {} [1%N])", coq_hglyphs(&table));
                            emit_case(id, "font/composite-over-65535-points", coq, None, true, "f:overflow".into(), json!({"impl": format!("error: {}", m)}));
                            id += 1;
                        } else {
                            emit_violation(
                                "maxp-composite-total-over-u16",
                                format!("a glyph made of 100 components of a 700-point glyph (70000 points) is not rejected with a diagnostic but fails with: {}", m),
                                ctx,
                            );
                        }
                    } else {
                        errors += 1;
                        emit_violation("compile-error-on-valid-source", format!("fontc rejected a generated source: {}", m), ctx);
                    }
                }
                Outcome::Font(bytes) => {
                    compiled += 1;
                    if gf.kind == "composite-over-65535-points" {
                        emit_violation(
                            "maxp-composite-total-over-u16",
                            "a glyph made of 100 components of a 700-point glyph (70000 points) compiles; maxp.maxCompositePoints cannot hold the total".to_string(),
                            ctx.clone(),
                        );
                    }
                    match decode_font(&bytes) {
                        Err(e) => emit_violation("font-does-not-decode", e, ctx),
                        Ok(f) => {
                            glyph_total += f.glyphs.len();
                            composite_total += f.glyphs.iter().filter(|g| matches!(g, DBody::Composite { .. })).count();
                            long_loca += (f.loc_format != 0) as usize;
                            vertical += f.vert.is_some() as usize;
                            with_layout += (!f.lookups.is_empty()) as usize;
                            *depth_hist.entry(format!("depth{}", f.maxp[5])).or_default() += 1;
                            let v = check_font(&f, &ranges);
                            for (k, d) in &v.fails {
                                emit_violation(k, d.clone(), ctx.clone());
                            }
                            let model = coq_dfont(&f);
                            let coq = format!("check_font {}", model);
                            let show = format!("check_font_report {}", model);
                            let nontrivial = f.glyphs.iter().any(|g| !matches!(g, DBody::Empty));
                            emit_case(id, &format!("font/{}", gf.kind), coq, Some(show), nontrivial, format!("f:{}", i), json!({"font_index": i, "glyphs": f.glyphs.len(), "predicate_failures": v.fails.iter().map(|x| x.0.clone()).collect::<Vec<_>>()}));
                            id += 1;
                        }
                    }
                }
            }
        }
    }
    // ---- A: metrics builder
    if want("metrics") {
        for _ in 0..n {
            let (input, kind) = gen_metrics(&mut rng);
            *dist.entry(format!("metrics/{kind}")).or_default() += 1;
            let ctx = json!({"glyphs_advance_sidebearing_bounds": input});
            let inp = input.clone();
            let got = std::panic::catch_unwind(move || hk::metrics(&inp));
            match got {
                Err(_) => emit_violation("metrics-builder-panic", "MetricsBuilder panicked".into(), ctx),
                Ok(m) => {
                    check_metrics(&input, &m, &ctx);
                    let coq = format!("metrics_eqb (mb_run {}) {}", coq_min(&input), coq_metrics(&m));
                    let show = format!("mb_run {}", coq_min(&input));
                    emit_case(id, &format!("metrics/{kind}"), coq, Some(show), !input.is_empty(), format!("m:{:?}", input), json!({"input": input, "impl": format!("{:?}", m)}));
                    id += 1;
                }
            }
        }
    }

    // ---- B: max builder
    let mut overflow_seen = 0usize;
    if want("limits") {
        for _ in 0..n {
            let (glyphs, kind) = gen_limits(&mut rng);
            *dist.entry(format!("limits/{kind}")).or_default() += 1;
            let w = want_limits(&glyphs);
            let ctx = json!({"glyphs": format!("{:?}", glyphs)});
            let gl = glyphs.clone();
            let got: Result<Result<hk::HookLimits, String>, _> = std::panic::catch_unwind(move || hk::limits(&gl));
            let order: Vec<u64> = glyphs.iter().enumerate().filter(|(_, g)| matches!(g, hk::HookGlyph::Composite(..))).map(|(i, _)| i as u64).collect();
            let model = format!("(limits_run Checked {} {})", coq_hglyphs(&glyphs), coq_list(&order, |x| cn(*x)));
            match got {
                Err(p) => {
                    let msg = p.downcast_ref::<String>().cloned().or(p.downcast_ref::<&str>().map(|s| s.to_string())).unwrap_or_default();
                    if w.overflow && msg.contains("overflow") {
                        // the defect repaired in /repo (see known_findings.txt): must not come back
                        emit_violation(
                            "maxp-composite-total-over-u16",
                            format!("update_composite_limits: a composite totals {} points / {} contours and the sum panics ('{}') instead of being reported as an error", w.comp.pts, w.comp.ctr, msg),
                            ctx,
                        );
                    } else {
                        emit_violation("max-builder-panic", format!("MaxBuilder panicked: {}", msg), ctx);
                    }
                }
                Ok(Err(diag)) => {
                    // a build error: right exactly when some composite total does not fit maxp's u16 fields
                    if w.overflow {
                        overflow_seen += 1;
                    } else {
                        emit_violation("maxp-spurious-out-of-bounds", format!("update_composite_limits reports '{}' but every total fits (largest {} points, {} contours, depth {})", diag, w.comp.pts, w.comp.ctr, w.comp.depth), ctx);
                    }
                    emit_case(id, &format!("limits/{kind}"), format!("outcome_is_error {}", model), Some(model), true, format!("l:{:?}", glyphs), json!({"impl": format!("error: {}", diag)}));
                    id += 1;
                }
                Ok(Ok(l)) => {
                    if w.overflow {
                        emit_violation(
                            "maxp-composite-total-over-u16",
                            format!("update_composite_limits: a composite totals {} points / {} contours but the builder returns maxCompositePoints {} / maxCompositeContours {} (wrapped) instead of an error", w.comp.pts, w.comp.ctr, l.max_composite_points, l.max_composite_contours),
                            ctx.clone(),
                        );
                    }
                    let have = [l.max_points, l.max_contours, l.max_composite_points, l.max_composite_contours, l.max_component_elements, l.max_component_depth];
                    let wantv = [w.max_points, w.max_contours, w.comp.pts, w.comp.ctr, w.max_elems, w.comp.depth];
                    let names = ["maxp-max-points", "maxp-max-contours", "maxp-max-composite-points", "maxp-max-composite-contours", "maxp-max-component-elements", "maxp-max-component-depth"];
                    for k in 0..6 {
                        if have[k] as u64 != wantv[k] && !w.overflow {
                            emit_violation(names[k], format!("builder gives {} but the glyphs give {}", have[k], wantv[k]), ctx.clone());
                        }
                    }
                    if l.bbox != w.bbox {
                        emit_violation("head-bbox-not-union", format!("builder box {:?}, union {:?}", l.bbox, w.bbox), ctx.clone());
                    }
                    let coq = format!(
                        "outcome_eqb {} (LOk (mkLimitsOut {} {} {} {} {} {} {}))",
                        model,
                        cn(have[0] as u64),
                        cn(have[1] as u64),
                        cn(have[4] as u64),
                        cn(have[2] as u64),
                        cn(have[3] as u64),
                        cn(have[5] as u64),
                        coq_opt(&l.bbox, coq_bbox)
                    );
                    let nontrivial = glyphs.iter().any(|g| matches!(g, hk::HookGlyph::Composite(..)));
                    emit_case(id, &format!("limits/{kind}"), coq, Some(model), nontrivial, format!("l:{:?}", glyphs), json!({"impl": format!("{:?}", l)}));
                    id += 1;
                }
            }
        }
    }

    emit_stat(json!({
        "input_classes": dist,
        "fonts_compiled": compiled,
        "fonts_rejected": errors,
        "glyphs_in_compiled_fonts": glyph_total,
        "composites_in_compiled_fonts": composite_total,
        "fonts_with_long_loca": long_loca,
        "fonts_with_vhea": vertical,
        "fonts_with_layout_lookups": with_layout,
        "fonts_by_max_component_depth": depth_hist,
        "hook_totals_over_u16_reported_as_error": overflow_seen,
        "font_with_70000_point_composite_rejected_with_diagnostic": overflow_font_rejected,
    }));
}
