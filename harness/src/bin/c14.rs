//! C14: file-name encoding, kerning-instance file names.
use vh::*;
use fontdrasil::coords::{NormalizedCoord, NormalizedLocation};
use fontdrasil::paths::string_to_filename;
use fontdrasil::types::Tag;
use fontir::orchestration::WorkId;
use fontir::paths::Paths;
use serde_json::json;
use std::collections::HashMap;
use std::path::Path;
use std::str::FromStr;

const RESERVED: &[char] = &['^', '>', '|', '[', '?', '+', '\\', '"', ':', '/', '<', '%', ']', '*', '\0', '\x1f', '\x7f'];
const DEVICE: &[&str] = &["CON", "PRN", "AUX", "CLOCK$", "NUL", "COM1", "LPT1", "LPT2", "LPT3", "COM2", "COM3", "COM4", "COM5", "LPT"];

fn gen_name(rng: &mut Rng) -> (String, &'static str) {
    match rng.below(10) {
        0 => {
            // device names in random case, maybe with extension
            let d = *rng.pick(DEVICE);
            let mut s: String = d.chars().map(|c| if rng.chance(1, 2) { c.to_ascii_lowercase() } else { c }).collect();
            if rng.chance(1, 4) {
                s.push_str(".alt");
            }
            (s, "device")
        }
        1 | 2 => {
            // case variants over a tiny alphabet: maximises collisions under case folding
            let n = rng.range(1, 12) as usize;
            let s: String = (0..n).map(|_| *rng.pick(&['a', 'A', 'b', 'B', '_', '.'])).collect();
            (s, "casepair")
        }
        3 | 4 => {
            let n = rng.range(0, 10) as usize;
            let s: String = (0..n)
                .map(|_| if rng.chance(1, 3) { *rng.pick(RESERVED) } else { *rng.pick(&['a', 'Z', '.', '2', 'E', '5', '^', '%']) })
                .collect();
            (s, "reserved")
        }
        5 | 6 => {
            // non-ASCII: 2-, 3-, 4-byte characters mixed with upper-case ASCII
            let n = rng.range(1, 9) as usize;
            let s: String = (0..n)
                .map(|_| match rng.below(5) {
                    0 => 'É',
                    1 => '中',
                    2 => '𝐀',
                    3 => 'A',
                    _ => 'a',
                })
                .collect();
            (s, "nonascii")
        }
        7 => {
            // escape look-alikes: names that contain what an escape would produce
            let parts = ["%2E", "2E", ".", "%", "^", "^0", "^A", "A", "a", "con", "%5E"];
            let n = rng.range(1, 4) as usize;
            let s: String = (0..n).map(|_| *rng.pick(&parts)).collect();
            (s, "lookalike")
        }
        _ => {
            // glyph-name-like
            let stems = ["a", "A", "Aacute", "aacute", "f_f_i", "uni0041", "one.sc", ".notdef", "T_h", "IJ", "ij", "a.alt", "A.ALT"];
            let mut s = (*rng.pick(&stems)).to_string();
            if rng.chance(1, 3) {
                let suf: &str = *rng.pick(&[".sc", ".SC", ".ss01", "_b", "_B"]); s.push_str(suf);
            }
            (s, "glyphlike")
        }
    }
}

fn gen_loc(rng: &mut Rng, axes: &[&str]) -> Vec<(String, f64)> {
    axes.iter()
        .map(|a| {
            let v = match rng.below(6) {
                0 => 0.0,
                1 => rng.range(-1000, 1000) as f64 / 1000.0,
                2 => rng.range(-100, 100) as f64 / 100.0,
                3 => rng.range(-16384, 16384) as f64 / 16384.0,
                4 => rng.range(-8, 8) as f64 / 8.0,
                _ => rng.range(-4, 4) as f64 * 0.005,
            };
            (a.to_string(), v)
        })
        .collect()
}

fn kern_file(loc: &[(String, f64)]) -> String {
    let l: NormalizedLocation = loc.iter().map(|(t, v)| (Tag::from_str(t).unwrap(), NormalizedCoord::new(*v))).collect();
    Paths::target_file(Path::new("/d"), &WorkId::KernInstance(l)).to_string_lossy().into_owned()
}

fn coq_loc(loc: &[(String, f64)]) -> String {
    // axes are interned by position after the sort Location applies (by tag)
    let mut l = loc.to_vec();
    l.sort_by(|a, b| a.0.cmp(&b.0));
    coq_list(&l, |(t, v)| {
        let id = t.bytes().fold(0u64, |a, b| a * 256 + b as u64);
        format!("({}, {})", coq_n(id), coq_q(*v))
    })
}

fn main() {
    let args: Vec<String> = std::env::args().collect();
    let args = &args[1..];
    let seed = arg_val(args, "--seed", 1);
    let n = arg_val(args, "--n", 500) as usize;
    let mut rng = Rng::new(seed);
    let mut id = 0usize;

    // ---- string_to_filename ---------------------------------------------------
    let mut seen: HashMap<String, String> = HashMap::new(); // folded output -> name
    let mut names = 0usize;
    let mut check_name = |name: &str, kind: &str, id: &mut usize, emit_model: bool| {
        let out = match std::panic::catch_unwind(|| string_to_filename(name, ".yml")) {
            Ok(o) => o,
            Err(_) => {
                emit_violation("filename-panic", format!("string_to_filename panicked on {:?}", name), json!({"name": name}));
                return;
            }
        };
        // property predicate on the implementation: no two names share a file,
        // even on a case-insensitive file system
        let folded = out.to_ascii_lowercase();
        if let Some(prev) = seen.get(&folded) {
            if prev != name {
                emit_violation(
                    "filename-collision",
                    format!("names {:?} and {:?} are written to the same file {:?} (ASCII case-insensitive)", prev, name, out),
                    json!({"names":[prev, name], "file": out}),
                );
            }
        } else {
            seen.insert(folded, name.to_string());
        }
        // no reserved character except the scheme's own '%' and '^'
        let body = &out[..out.len() - 4];
        if body.chars().any(|c| (c as u32) < 32 || "\x7f>|[?+\\\":/<]*".contains(c)) {
            emit_violation("filename-reserved-char", format!("file name {:?} for {:?} contains a reserved character", out, name), json!({"name": name}));
        }
        if emit_model {
            let coq = format!("str_eqb (string_to_filename {} {}) {}", coq_str(name), coq_str(".yml"), coq_str(&out));
            let show = format!("string_to_filename {} {}", coq_str(name), coq_str(".yml"));
            emit_case(*id, kind, coq, Some(show), !name.is_empty(), format!("n:{}", name), json!({"name": name, "impl": out}));
            *id += 1;
        }
    };
    for _ in 0..n {
        let (name, kind) = gen_name(&mut rng);
        check_name(&name, kind, &mut id, true);
        names += 1;
        // neighbours: every single-character case flip (predicate only)
        let chars: Vec<char> = name.chars().collect();
        for i in 0..chars.len() {
            if chars[i].is_ascii_alphabetic() {
                let mut v = chars.clone();
                v[i] = if v[i].is_ascii_uppercase() { v[i].to_ascii_lowercase() } else { v[i].to_ascii_uppercase() };
                let s: String = v.into_iter().collect();
                check_name(&s, "flip", &mut id, false);
                names += 1;
            }
        }
    }

    // ---- kern instance file names --------------------------------------------
    let axsets: [&[&str]; 3] = [&["wght"], &["wght", "wdth"], &["ital", "opsz", "wght"]];
    let mut pairs = 0usize;
    for _ in 0..n / 2 {
        let axes = *rng.pick(&axsets);
        let a = gen_loc(&mut rng, axes);
        let b: Vec<(String, f64)> = if rng.chance(1, 4) {
            // neighbours a few units in the last place apart (and up to about one f32 ulp): any lossy
            // formatting of the coordinate makes them collide
            let k = *rng.pick(&[1u64, 2, 3, 1 << 10, 1 << 20, 1 << 28, 1 << 29, 1 << 30]);
            let which = rng.below(a.len() as u64) as usize;
            a.iter()
                .enumerate()
                .map(|(i, (t, v))| {
                    if i == which {
                        let base = if *v == 0.0 { 0.25 } else { *v };
                        let bits = base.abs().to_bits();
                        let nb = f64::from_bits(if rng.chance(1, 2) { bits + k } else { bits - k });
                        (t.clone(), if base < 0.0 { -nb } else { nb }.clamp(-1.0, 1.0))
                    } else {
                        (t.clone(), *v)
                    }
                })
                .collect()
        } else if rng.chance(1, 2) {
            // a close neighbour
            a.iter().map(|(t, v)| (t.clone(), if rng.chance(1, 2) { *v } else { (v + rng.range(-12, 12) as f64 / 1000.0).clamp(-1.0, 1.0) })).collect()
        } else {
            gen_loc(&mut rng, axes)
        };
        let (fa, fb) = (kern_file(&a), kern_file(&b));
        let same_loc = a.iter().zip(b.iter()).all(|(x, y)| x.1 == y.1);
        let same_file = fa == fb;
        pairs += 1;
        if same_file && !same_loc {
            let maxd = a.iter().zip(b.iter()).map(|(x, y)| (x.1 - y.1).abs()).fold(0.0, f64::max);
            let key = if maxd <= 0.01 { "kern-file-collision-close" } else { "kern-file-collision-separated" };
            emit_violation(
                key,
                format!("kerning instances at {:?} and {:?} are written to the same file {}", a, b, fa),
                json!({"locations":[a, b], "file": fa}),
            );
        }
        let coq = format!("Bool.eqb (kern_key_eqb (kern_file_key {}) (kern_file_key {})) {}", coq_loc(&a), coq_loc(&b), coq_bool(same_file));
        emit_case(id, "kernfile", coq, None, !same_loc, format!("k:{:?}{:?}", a, b), json!({"a": a, "b": b, "impl_same_file": same_file}));
        id += 1;
    }
    emit_stat(json!({"names_checked_for_collisions": names, "distinct_folded_outputs": seen.len(), "kern_location_pairs": pairs, "extra_evaluations": names - n}));
}
