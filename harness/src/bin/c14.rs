//! C14: file-name encoding, kerning-instance file names.
use vh::*;
use fontdrasil::coords::{NormalizedCoord, NormalizedLocation};
use fontdrasil::paths::string_to_filename;
use fontdrasil::types::Tag;
use fontir::orchestration::WorkId;
use fontir::paths::Paths;
use serde_json::json;
use std::collections::{BTreeMap, HashMap};
use std::panic::AssertUnwindSafe;
use std::path::{Path, PathBuf};
use std::sync::Arc;
use vh::srcgen::{AxisSrc, Design, GlyphSrc};
use std::str::FromStr;

const RESERVED: &[char] = &['^', '>', '|', '[', '?', '+', '\\', '"', ':', '/', '<', '%', ']', '*', '\0', '\x1f', '\x7f'];
const DEVICE: &[&str] = &["CON", "PRN", "AUX", "CLOCK$", "NUL", "COM1", "LPT1", "LPT2", "LPT3", "COM2", "COM3", "COM4", "COM5", "LPT"];

fn gen_name(rng: &mut Rng) -> (String, &'static str) {
    match rng.below(10) {
        0 => {
            // device names in random case, maybe with extension
            let d = *rng.pick(DEVICE);
            let mut s: String = d.chars().map(|c| if rng.chance(1, 2) { c.to_ascii_lowercase() } else { c }).collect();
            if rng.chance(1, 4) {
                s.push_str(".alt");
            }
            (s, "device")
        }
        1 | 2 => {
            // case variants over a tiny alphabet: maximises collisions under case folding
            let n = rng.range(1, 12) as usize;
            let s: String = (0..n).map(|_| *rng.pick(&['a', 'A', 'b', 'B', '_', '.'])).collect();
            (s, "casepair")
        }
        3 | 4 => {
            let n = rng.range(0, 10) as usize;
            let s: String = (0..n)
                .map(|_| if rng.chance(1, 3) { *rng.pick(RESERVED) } else { *rng.pick(&['a', 'Z', '.', '2', 'E', '5', '^', '%']) })
                .collect();
            (s, "reserved")
        }
        5 | 6 => {
            // non-ASCII: 2-, 3-, 4-byte characters mixed with upper-case ASCII
            let n = rng.range(1, 9) as usize;
            let s: String = (0..n)
                .map(|_| match rng.below(5) {
                    0 => 'É',
                    1 => '中',
                    2 => '𝐀',
                    3 => 'A',
                    _ => 'a',
                })
                .collect();
            (s, "nonascii")
        }
        7 => {
            // escape look-alikes: names that contain what an escape would produce
            let parts = ["%2E", "2E", ".", "%", "^", "^0", "^A", "A", "a", "con", "%5E"];
            let n = rng.range(1, 4) as usize;
            let s: String = (0..n).map(|_| *rng.pick(&parts)).collect();
            (s, "lookalike")
        }
        _ => {
            // glyph-name-like
            let stems = ["a", "A", "Aacute", "aacute", "f_f_i", "uni0041", "one.sc", ".notdef", "T_h", "IJ", "ij", "a.alt", "A.ALT"];
            let mut s = (*rng.pick(&stems)).to_string();
            if rng.chance(1, 3) {
                let suf: &str = *rng.pick(&[".sc", ".SC", ".ss01", "_b", "_B"]); s.push_str(suf);
            }
            (s, "glyphlike")
        }
    }
}

fn gen_loc(rng: &mut Rng, axes: &[&str]) -> Vec<(String, f64)> {
    axes.iter()
        .map(|a| {
            let v = match rng.below(6) {
                0 => 0.0,
                1 => rng.range(-1000, 1000) as f64 / 1000.0,
                2 => rng.range(-100, 100) as f64 / 100.0,
                3 => rng.range(-16384, 16384) as f64 / 16384.0,
                4 => rng.range(-8, 8) as f64 / 8.0,
                _ => rng.range(-4, 4) as f64 * 0.005,
            };
            (a.to_string(), v)
        })
        .collect()
}

fn kern_file(loc: &[(String, f64)]) -> String {
    let l: NormalizedLocation = loc.iter().map(|(t, v)| (Tag::from_str(t).unwrap(), NormalizedCoord::new(*v))).collect();
    Paths::target_file(Path::new("/d"), &WorkId::KernInstance(l)).to_string_lossy().into_owned()
}

fn coq_loc(loc: &[(String, f64)]) -> String {
    // axes are interned by position after the sort Location applies (by tag)
    let mut l = loc.to_vec();
    l.sort_by(|a, b| a.0.cmp(&b.0));
    coq_list(&l, |(t, v)| {
        let id = t.bytes().fold(0u64, |a, b| a * 256 + b as u64);
        format!("({}, {})", coq_n(id), coq_q(*v))
    })
}

// ---------------------------------------------------------------- emit-ir transparency and read-back
/// Sources for the emit stream: glyph names that differ only by case, device names, non-ASCII names, anchors,
/// kerning with groups (at masters that are close together), features; static and variable.
fn gen_emit_design(rng: &mut Rng, k: usize) -> Design {
    const NAMES: [&str; 22] = ["A", "a", "Aa", "aA", "AA", "aa", "a.B", "A.b", "con", "CON", "Con", "aux", "nul", "COM1", "a_b", "A_B",
                               "e\u{301}", "\u{e9}", "\u{4e2d}", "x.y.z", "_", "a-b"];
    let mut glyphs = vec![GlyphSrc::new(".notdef", 500.0).rect(50., 0., 450., 700.)];
    let mut names: Vec<String> = Vec::new();
    let n = rng.range(4, 14) as usize;
    let mut pool: Vec<&str> = NAMES.to_vec();
    for i in 0..n {
        let idx = rng.below(pool.len() as u64) as usize;
        let name = pool.remove(idx).to_string();
        let mut g = GlyphSrc::new(&name, 400.0 + 10.0 * i as f64).uni(0x100 + i as u32);
        if names.is_empty() || rng.chance(2, 3) {
            g = g.rect(10.0 + i as f64, 0.0, 200.0 + 3.0 * i as f64, 300.0 + i as f64);
        } else {
            let b = rng.pick(&names).clone();
            g = g.comp(&b, [1., 0., 0., 1., 20.0 * i as f64, 0.]);
        }
        if rng.chance(1, 2) {
            g = g.anchor("top", 100.0, 400.0 + i as f64);
        }
        if rng.chance(1, 6) {
            g = g.anchor("_top", 50.0, 380.0);
        }
        names.push(name);
        glyphs.push(g);
    }
    let mut des = Design::single(&format!("Emit{k}"), glyphs);
    let half = (names.len() / 2).max(1);
    des.masters[0].groups = vec![("public.kern1.L".to_string(), names[..half].to_vec()), ("public.kern2.R".to_string(), names[half..].to_vec())];
    let mut kerning = vec![("public.kern1.L".to_string(), "public.kern2.R".to_string(), -25.0)];
    for _ in 0..rng.range(1, 8) {
        kerning.push((rng.pick(&names).clone(), rng.pick(&names).clone(), rng.range(-60, 60) as f64));
    }
    kerning.sort_by(|x, y| (x.0.clone(), x.1.clone()).cmp(&(y.0.clone(), y.1.clone())));
    kerning.dedup_by(|x, y| x.0 == y.0 && x.1 == y.1);
    des.masters[0].kerning = kerning;
    if rng.chance(3, 4) {
        des.axes.push(AxisSrc { name: "Weight".into(), tag: "wght".into(), min: 400., default: 400., max: 900., ..Default::default() });
        let base = des.masters[0].clone();
        des.masters[0].location = vec![("Weight".into(), 400.)];
        // further masters; sometimes two of them very close together (kerning instance file names)
        let mut locs = vec![900.0];
        if rng.chance(1, 2) {
            locs.push(*rng.pick(&[650.0, 899.99, 899.999, 400.001]));
        }
        for (j, w) in locs.iter().enumerate() {
            let mut m = base.clone();
            m.name = format!("M{j}");
            m.style = format!("M{j}");
            m.location = vec![("Weight".into(), *w)];
            for g in m.glyphs.iter_mut() {
                g.advance += 30.0 + j as f64;
                for a in g.anchors.iter_mut() {
                    a.2 += 7.0;
                }
            }
            for kp in m.kerning.iter_mut() {
                kp.2 -= 1.0 + j as f64;
            }
            des.masters.push(m);
        }
    }
    des
}

fn panic_text(p: Box<dyn std::any::Any + Send>) -> String {
    if let Some(s) = p.downcast_ref::<String>() {
        s.clone()
    } else if let Some(s) = p.downcast_ref::<&str>() {
        s.to_string()
    } else {
        "panic".into()
    }
}

/// mem vs the value a fresh context restores from the build directory
fn cmp_item<T: PartialEq>(label: String, mem: Option<Arc<T>>, disk: impl FnOnce() -> Arc<T>, diffs: &mut Vec<String>, compared: &mut usize) {
    let Some(mem) = mem else { return };
    *compared += 1;
    match std::panic::catch_unwind(AssertUnwindSafe(disk)) {
        Ok(d) => {
            if *d != *mem {
                diffs.push(format!("{label}: the value read back differs from the one in memory"));
            }
        }
        Err(p) => diffs.push(format!("{label}: cannot be read back ({})", panic_text(p).chars().take(160).collect::<String>())),
    }
}

/// write-fonts tables are persisted as their serialised bytes and a table has several in-memory representations
/// (`string_data: Some([])` / `None`, offset markers): equal means "serialises to the same bytes"
fn cmp_table<T: write_fonts::FontWrite + write_fonts::validate::Validate>(label: String, mem: Option<Arc<T>>, disk: impl FnOnce() -> Arc<T>, diffs: &mut Vec<String>, compared: &mut usize) {
    let Some(mem) = mem else { return };
    *compared += 1;
    match std::panic::catch_unwind(AssertUnwindSafe(disk)) {
        Ok(d) => {
            let a = std::panic::catch_unwind(AssertUnwindSafe(|| write_fonts::dump_table(&*mem).ok())).ok().flatten();
            let b = std::panic::catch_unwind(AssertUnwindSafe(|| write_fonts::dump_table(&*d).ok())).ok().flatten();
            match (a, b) {
                (Some(a), Some(b)) => {
                    if a != b {
                        diffs.push(format!("{label}: the table read back serialises to different bytes than the one in memory"));
                    }
                }
                (Some(_), None) => diffs.push(format!("{label}: the table read back can no longer be serialised (the one in memory can)")),
                _ => diffs.push(format!("{label}: the table in memory cannot be serialised")),
            }
        }
        Err(p) => diffs.push(format!("{label}: cannot be read back ({})", panic_text(p).chars().take(160).collect::<String>())),
    }
}

/// diagnostics (VH_C14_DEBUG): both renderings of an item that does not read back equal
fn show_diff<T: PartialEq + std::fmt::Debug>(label: &str, mem: Option<Arc<T>>, disk: impl FnOnce() -> Arc<T>) {
    if std::env::var("VH_C14_DEBUG").is_err() {
        return;
    }
    if let (Some(m), Ok(d)) = (mem, std::panic::catch_unwind(AssertUnwindSafe(disk))) {
        if *m != *d {
            eprintln!("=== {label}\n--- memory\n{:#?}\n--- disk\n{:#?}", *m, *d);
        }
    }
}

/// the same for types without PartialEq: compared through their Debug rendering
fn cmp_item_dbg<T: std::fmt::Debug>(label: String, mem: Option<Arc<T>>, disk: impl FnOnce() -> Arc<T>, diffs: &mut Vec<String>, compared: &mut usize) {
    let Some(mem) = mem else { return };
    *compared += 1;
    match std::panic::catch_unwind(AssertUnwindSafe(disk)) {
        Ok(d) => {
            if format!("{:?}", *d) != format!("{:?}", *mem) {
                diffs.push(format!("{label}: the value read back differs from the one in memory"));
            }
        }
        Err(p) => diffs.push(format!("{label}: cannot be read back ({})", panic_text(p).chars().take(160).collect::<String>())),
    }
}

struct EmitResult {
    font_plain: Result<Vec<u8>, String>,
    font_emit: Result<Vec<u8>, String>,
    diffs: Vec<String>,
    compared: usize,
    glyphs: usize,
    glyph_files: usize,
    missing_glyph_files: Vec<String>,
}

fn run_emit(path: &Path) -> EmitResult {
    let make = |ir: Option<PathBuf>| -> Result<(Box<dyn fontir::source::Source>, fontc::Options), String> {
        let input = fontc::Input::new(path).map_err(|e| e.to_string())?;
        let source = input.create_source().map_err(|e| e.to_string())?;
        let mut options = fontc::Options::default();
        options.ir_dir = ir;
        Ok((source, options))
    };
    let font_plain = match std::panic::catch_unwind(AssertUnwindSafe(|| {
        let (s, o) = make(None)?;
        fontc::generate_font(s, o).map_err(|e| e.to_string())
    })) {
        Ok(r) => r,
        Err(p) => Err(format!("panic: {}", panic_text(p))),
    };
    let tmp = vh::srcgen::scratch_dir("c14ir");
    let ir_dir = tmp.path().join("build");
    let built = std::panic::catch_unwind(AssertUnwindSafe(|| {
        let (s, o) = make(Some(ir_dir.clone()))?;
        fontc::verif_hooks::generate_font_with_contexts(s, o).map_err(|e| e.to_string())
    }));
    let mut res = EmitResult { font_plain, font_emit: Err(String::new()), diffs: vec![], compared: 0, glyphs: 0, glyph_files: 0, missing_glyph_files: vec![] };
    let (fe, be) = match built {
        Ok(Ok(x)) => x,
        Ok(Err(e)) => {
            res.font_emit = Err(e);
            return res;
        }
        Err(p) => {
            res.font_emit = Err(format!("panic: {}", panic_text(p)));
            return res;
        }
    };
    res.font_emit = Ok(be.font.get().get().to_vec());
    // fresh contexts over the same build directory: nothing in memory, everything restored from disk
    let fe2 = fontir::orchestration::Context::new_root(fe.flags, Some(ir_dir.clone()));
    let be2 = fontbe::orchestration::Context::new_root(be.flags, None, Some(ir_dir.clone()), None, false, &fe2);
    let (d, c) = (&mut res.diffs, &mut res.compared);
    macro_rules! item {
        ($ctx:ident, $ctx2:ident, $f:ident) => {
            cmp_item(format!("{}.{}", stringify!($ctx), stringify!($f)), $ctx.$f.try_get(), || $ctx2.$f.get(), d, c)
        };
    }
    macro_rules! table {
        ($f:ident) => {
            cmp_table(format!("be.{}", stringify!($f)), be.$f.try_get(), || be2.$f.get(), d, c)
        };
    }
    item!(fe, fe2, static_metadata);
    item!(fe, fe2, preliminary_glyph_order);
    item!(fe, fe2, glyph_order);
    item!(fe, fe2, preliminary_gdef_categories);
    item!(fe, fe2, gdef_categories);
    item!(fe, fe2, global_metrics);
    item!(fe, fe2, features);
    item!(fe, fe2, kerning_locations);
    item!(fe, fe2, colors);
    item!(fe, fe2, paint_graph);
    for (id, v) in fe.glyphs.all() {
        cmp_item(format!("fe.glyphs[{id:?}]"), Some(v), || fe2.glyphs.get(&id), d, c);
    }
    for (id, v) in fe.anchors.all() {
        cmp_item(format!("fe.anchors[{id:?}]"), Some(v), || fe2.anchors.get(&id), d, c);
    }
    for (id, v) in fe.kerning_at.all() {
        cmp_item(format!("fe.kerning_at[{id:?}]"), Some(v), || fe2.kerning_at.get(&id), d, c);
    }
    item!(be, be2, avar);
    table!(cmap);
    table!(fvar);
    table!(gasp);
    item!(be, be2, glyf);
    table!(gsub);
    table!(gpos);
    table!(gdef);
    item!(be, be2, gvar);
    // post: glyph names must be ASCII (a Pascal string of printable ASCII); a source with other names is outside the
    // compared set for this one table (read-fonts drops such strings). A version 2 table without custom names gets its
    // own label: write-fonts reads `string_data` back as None and can then no longer serialise the table.
    let ascii_names = fe.glyphs.all().iter().all(|(id, _)| matches!(id, WorkId::Glyph(n) if n.as_str().is_ascii()));
    if ascii_names {
        let no_custom = be.post.try_get().map(|p| p.string_data.as_ref().map(|v| v.is_empty()).unwrap_or(false)).unwrap_or(false);
        cmp_table(if no_custom { "be.post-without-custom-names".to_string() } else { "be.post".to_string() }, be.post.try_get(), || be2.post.get(), d, c);
        show_diff("be.post", be.post.try_get(), || be2.post.get());
    }
    item!(be, be2, loca);
    item!(be, be2, loca_format);
    table!(maxp);
    table!(name);
    table!(os2);
    table!(head);
    table!(hhea);
    item!(be, be2, hmtx);
    table!(hvar);
    table!(mvar);
    table!(stat);
    item!(be, be2, all_kerning_pairs);
    item!(be, be2, font);
    for (id, v) in be.glyphs.all() {
        cmp_item_dbg(format!("be.glyphs[{id:?}]"), Some(v), || be2.glyphs.get(&id), d, c);
    }
    for (id, v) in be.gvar_fragments.all() {
        cmp_item_dbg(format!("be.gvar_fragments[{id:?}]"), Some(v), || be2.gvar_fragments.get(&id), d, c);
    }
    for (id, v) in be.kern_fragments.all() {
        cmp_item(format!("be.kern_fragments[{id:?}]"), Some(v), || be2.kern_fragments.get(&id), d, c);
    }
    // one file per glyph, named by string_to_filename (tied to the Coq model by the first stream)
    let glyph_dir = ir_dir.join("glyph_ir");
    let files: std::collections::BTreeSet<String> = std::fs::read_dir(&glyph_dir)
        .map(|rd| rd.filter_map(|e| e.ok()).map(|e| e.file_name().to_string_lossy().into_owned()).collect())
        .unwrap_or_default();
    res.glyph_files = files.len();
    let all = fe.glyphs.all();
    res.glyphs = all.len();
    for (id, _) in all {
        if let WorkId::Glyph(name) = id {
            let f = string_to_filename(name.as_str(), ".yml");
            if !files.contains(&f) {
                res.missing_glyph_files.push(format!("{} -> {}", name, f));
            }
        }
    }
    res
}

/// Build `path` with the given IR directory (which may hold the items of an earlier build); the font bytes or the error
fn build_into(path: &Path, ir_dir: Option<PathBuf>) -> Result<Vec<u8>, String> {
    match std::panic::catch_unwind(AssertUnwindSafe(|| {
        let input = fontc::Input::new(path).map_err(|e| e.to_string())?;
        let source = input.create_source().map_err(|e| e.to_string())?;
        let mut options = fontc::Options::default();
        options.ir_dir = ir_dir;
        fontc::generate_font(source, options).map_err(|e| e.to_string())
    })) {
        Ok(r) => r,
        Err(p) => Err(format!("panic: {}", panic_text(p))),
    }
}

fn emit_corpus() -> Vec<PathBuf> {
    let td = vh::repo_root().join("resources/testdata");
    ["wght_var.designspace", "glyphs3/WghtVar.glyphs", "glyphs3/WghtVar_Anchors.glyphs", "glyphs2/WghtVar_ImplicitAxes.glyphs",
     "designspace_from_glyphs/WghtVar.designspace", "glyphs3/COLRv1-simple.glyphs", "glyphs3/Oswald-glyphs3-O.glyphs",
     "MVAR.designspace", "static.designspace", "glyphs3/KernImplicitAxes.glyphs", "glyphs2/Mono.glyphs"]
        .iter()
        .map(|r| td.join(r))
        .filter(|p| p.exists())
        .collect()
}

// ---------------------------------------------------------------- context items: set / get / try_get vs the model
/// Operation sequences on two real context items (`preliminary_glyph_order`, `glyph_order`), with persistence on over a
/// build directory that may hold stale files of an earlier build, compared with FV.C14.Model.run (ids 0 and 1, values =
/// small numbers, fname = identity, rd = identity).  try_get must answer from memory only.
fn ctx_ops_stream(rng: &mut Rng, n: usize, id: &mut usize) -> usize {
    use fontdrasil::orchestration::Access;
    use fontir::ir::GlyphOrder;
    use fontir::orchestration::{Context, Flags};
    let value = |k: u64| -> GlyphOrder { (0..=k).map(|i| fontdrasil::types::GlyphName::new(format!("g{i}"))).collect() };
    let decode = |g: &GlyphOrder| -> u64 { g.len() as u64 - 1 };
    let mut ran = 0;
    for _ in 0..n {
        let tmp = vh::srcgen::scratch_dir("c14ctx");
        let dir = tmp.path().join("build");
        std::fs::create_dir_all(&dir).unwrap();
        // stale files from an "earlier build"
        let mut stale: [Option<u64>; 2] = [None, None];
        {
            let old = Context::new_root(Flags::default(), Some(dir.clone())).copy_for_work(Access::All, Access::All);
            for i in 0..2 {
                if rng.chance(1, 2) {
                    let v = rng.below(5);
                    stale[i] = Some(v);
                    if i == 0 { old.preliminary_glyph_order.set(value(v)) } else { old.glyph_order.set(value(v)) }
                }
            }
        }
        let persistent = rng.chance(3, 4);
        let ctx = Context::new_root(Flags::default(), if persistent { Some(dir.clone()) } else { None }).copy_for_work(Access::All, Access::All);
        let nops = rng.range(1, 9) as usize;
        let mut ops: Vec<String> = Vec::new();
        let mut outs: Vec<String> = Vec::new();
        let mut was_set = [false, false];
        for _ in 0..nops {
            let i = rng.below(2) as usize;
            match rng.below(4) {
                0 | 1 => {
                    let v = rng.below(5);
                    if i == 0 { ctx.preliminary_glyph_order.set(value(v)) } else { ctx.glyph_order.set(value(v)) }
                    was_set[i] = true;
                    ops.push(format!("OSet N {}%N {}%N", i, v));
                    outs.push("RUnit N".into());
                }
                2 => {
                    // get only what this build has set (C02 guarantees it); a get of an item never set is a panic in
                    // the real code when nothing is on disk, which would take the harness down
                    if !was_set[i] {
                        continue;
                    }
                    let g = if i == 0 { ctx.preliminary_glyph_order.get() } else { ctx.glyph_order.get() };
                    ops.push(format!("OGet N {}%N", i));
                    outs.push(format!("RVal N {}%N", decode(&g)));
                }
                _ => {
                    let g = if i == 0 { ctx.preliminary_glyph_order.try_get() } else { ctx.glyph_order.try_get() };
                    ops.push(format!("OTry N {}%N", i));
                    match &g {
                        Some(g) => outs.push(format!("RVal N {}%N", decode(g))),
                        None => outs.push("RNone N".into()),
                    }
                    // the property itself: an item this build has not produced is not there, whatever the directory holds
                    if !was_set[i] && g.is_some() {
                        emit_violation("try-get-sees-stale-file", format!("try_get of an item this build never set returns a value ({}) because a file of an earlier build is in the build directory", decode(g.as_ref().unwrap())),
                                       json!({"item": if i == 0 { "preliminary_glyph_order" } else { "glyph_order" }, "stale": stale, "ops": ops}));
                    }
                }
            }
        }
        let stale_fn = format!("(fun k => if (k =? 0)%N then {} else if (k =? 1)%N then {} else None)",
                               stale[0].map(|v| format!("Some {}%N", v)).unwrap_or("None".into()), stale[1].map(|v| format!("Some {}%N", v)).unwrap_or("None".into()));
        let coq = format!("outs_eqb (run N N.eqb (fun k => k) (fun v => v) {} (Build_ctx N (fun _ => None) {}) [{}]) [{}]",
                          coq_bool(persistent), if persistent { stale_fn } else { "(fun _ => None)".into() }, ops.join("; "), outs.join("; "));
        emit_case(*id, "context-ops", coq, None, ops.len() > 2, format!("c:{}:{:?}:{:?}", persistent, stale, ops), json!({"persistent": persistent, "stale": stale, "ops": ops, "impl": outs}));
        *id += 1;
        ran += 1;
    }
    ran
}

fn main() {
    let args: Vec<String> = std::env::args().collect();
    let args = &args[1..];
    let seed = arg_val(args, "--seed", 1);
    let n = arg_val(args, "--n", 500) as usize;
    let mut rng = Rng::new(seed);
    let mut id = 0usize;

    // ---- string_to_filename ---------------------------------------------------
    let mut seen: HashMap<String, String> = HashMap::new(); // folded output -> name
    let mut names = 0usize;
    let mut check_name = |name: &str, kind: &str, id: &mut usize, emit_model: bool| {
        let out = match std::panic::catch_unwind(|| string_to_filename(name, ".yml")) {
            Ok(o) => o,
            Err(_) => {
                emit_violation("filename-panic", format!("string_to_filename panicked on {:?}", name), json!({"name": name}));
                return;
            }
        };
        // property predicate on the implementation: no two names share a file,
        // even on a case-insensitive file system
        let folded = out.to_ascii_lowercase();
        if let Some(prev) = seen.get(&folded) {
            if prev != name {
                emit_violation(
                    "filename-collision",
                    format!("names {:?} and {:?} are written to the same file {:?} (ASCII case-insensitive)", prev, name, out),
                    json!({"names":[prev, name], "file": out}),
                );
            }
        } else {
            seen.insert(folded, name.to_string());
        }
        // no reserved character except the scheme's own '%' and '^'
        let body = &out[..out.len() - 4];
        if body.chars().any(|c| (c as u32) < 32 || "\x7f>|[?+\\\":/<]*".contains(c)) {
            emit_violation("filename-reserved-char", format!("file name {:?} for {:?} contains a reserved character", out, name), json!({"name": name}));
        }
        if emit_model {
            let coq = format!("str_eqb (string_to_filename {} {}) {}", coq_str(name), coq_str(".yml"), coq_str(&out));
            let show = format!("string_to_filename {} {}", coq_str(name), coq_str(".yml"));
            emit_case(*id, kind, coq, Some(show), !name.is_empty(), format!("n:{}", name), json!({"name": name, "impl": out}));
            *id += 1;
        }
    };
    for _ in 0..n {
        let (name, kind) = gen_name(&mut rng);
        check_name(&name, kind, &mut id, true);
        names += 1;
        // neighbours: every single-character case flip (predicate only)
        let chars: Vec<char> = name.chars().collect();
        for i in 0..chars.len() {
            if chars[i].is_ascii_alphabetic() {
                let mut v = chars.clone();
                v[i] = if v[i].is_ascii_uppercase() { v[i].to_ascii_lowercase() } else { v[i].to_ascii_uppercase() };
                let s: String = v.into_iter().collect();
                check_name(&s, "flip", &mut id, false);
                names += 1;
            }
        }
    }

    // ---- kern instance file names --------------------------------------------
    let axsets: [&[&str]; 3] = [&["wght"], &["wght", "wdth"], &["ital", "opsz", "wght"]];
    let mut pairs = 0usize;
    for _ in 0..n / 2 {
        let axes = *rng.pick(&axsets);
        let a = gen_loc(&mut rng, axes);
        let b: Vec<(String, f64)> = if rng.chance(1, 4) {
            // neighbours a few units in the last place apart (and up to about one f32 ulp): any lossy
            // formatting of the coordinate makes them collide
            let k = *rng.pick(&[1u64, 2, 3, 1 << 10, 1 << 20, 1 << 28, 1 << 29, 1 << 30]);
            let which = rng.below(a.len() as u64) as usize;
            a.iter()
                .enumerate()
                .map(|(i, (t, v))| {
                    if i == which {
                        let base = if *v == 0.0 { 0.25 } else { *v };
                        let bits = base.abs().to_bits();
                        let nb = f64::from_bits(if rng.chance(1, 2) { bits + k } else { bits - k });
                        (t.clone(), if base < 0.0 { -nb } else { nb }.clamp(-1.0, 1.0))
                    } else {
                        (t.clone(), *v)
                    }
                })
                .collect()
        } else if rng.chance(1, 2) {
            // a close neighbour
            a.iter().map(|(t, v)| (t.clone(), if rng.chance(1, 2) { *v } else { (v + rng.range(-12, 12) as f64 / 1000.0).clamp(-1.0, 1.0) })).collect()
        } else {
            gen_loc(&mut rng, axes)
        };
        let (fa, fb) = (kern_file(&a), kern_file(&b));
        let same_loc = a.iter().zip(b.iter()).all(|(x, y)| x.1 == y.1);
        let same_file = fa == fb;
        pairs += 1;
        if same_file && !same_loc {
            let maxd = a.iter().zip(b.iter()).map(|(x, y)| (x.1 - y.1).abs()).fold(0.0, f64::max);
            let key = if maxd <= 0.01 { "kern-file-collision-close" } else { "kern-file-collision-separated" };
            emit_violation(
                key,
                format!("kerning instances at {:?} and {:?} are written to the same file {}", a, b, fa),
                json!({"locations":[a, b], "file": fa}),
            );
        }
        let coq = format!("Bool.eqb (kern_key_eqb (kern_file_key {}) (kern_file_key {})) {}", coq_loc(&a), coq_loc(&b), coq_bool(same_file));
        emit_case(id, "kernfile", coq, None, !same_loc, format!("k:{:?}{:?}", a, b), json!({"a": a, "b": b, "impl_same_file": same_file}));
        id += 1;
    }
    // ---- emit-ir: transparent (same font bytes) and faithful (every item reads back equal) -------------
    // SAFETY: single-threaded at this point; fixes head.modified so that two builds can be compared
    unsafe { std::env::set_var("SOURCE_DATE_EPOCH", "1700000000") };
    if std::env::var("VH_LOUD").is_err() {
        vh::srcgen::quiet_panics();
    }
    let n_emit = arg_val(args, "--emit", 24) as usize;
    let mut emit_sources: Vec<(String, PathBuf, Option<tempfile::TempDir>)> = emit_corpus().into_iter().map(|p| (format!("testdata/{}", p.file_name().unwrap().to_string_lossy()), p, None)).collect();
    for k in 0..n_emit {
        let d = gen_emit_design(&mut rng, k);
        let tmp = vh::srcgen::scratch_dir("c14src");
        let p = d.write(&tmp.path().join("src"));
        emit_sources.push((format!("generated-{k}"), p, Some(tmp)));
        // every third source is followed by a poorer version of itself (no kerning, groups, features, anchors): built into
        // the directory its richer twin left behind, it must not pick up the twin's optional items
        if k % 3 == 0 {
            let mut poor = d.clone();
            poor.family = format!("Emit{k}p");
            for m in poor.masters.iter_mut() {
                m.kerning.clear();
                m.groups.clear();
                m.features = None;
                for g in m.glyphs.iter_mut() {
                    g.anchors.clear();
                }
            }
            let tmp = vh::srcgen::scratch_dir("c14src");
            let p = poor.write(&tmp.path().join("src"));
            emit_sources.push((format!("generated-{k}-poor"), p, Some(tmp)));
        }
    }
    let (mut emit_runs, mut emit_fonts, mut items_compared, mut emit_errors) = (0usize, 0usize, 0usize, BTreeMap::<String, usize>::new());
    for (label, path, _keep) in &emit_sources {
        let r = run_emit(path);
        emit_runs += 1;
        items_compared += r.compared;
        match (&r.font_plain, &r.font_emit) {
            (Ok(a), Ok(b)) => {
                emit_fonts += 1;
                if a != b {
                    emit_violation("emit-ir-changes-font", format!("{label}: the font built with an IR directory differs from the one built without ({} vs {} bytes)", b.len(), a.len()),
                                   json!({"source": label, "path": path}));
                }
            }
            (Ok(_), Err(e)) | (Err(e), Ok(_)) => {
                emit_violation("emit-ir-changes-outcome", format!("{label}: building with and without an IR directory end differently: {}", e.chars().take(200).collect::<String>()),
                               json!({"source": label, "path": path, "plain_ok": r.font_plain.is_ok(), "emit_ok": r.font_emit.is_ok()}));
            }
            (Err(e), Err(_)) => {
                *emit_errors.entry(e.chars().take(60).collect()).or_default() += 1;
            }
        }
        // one violation per kind of item: key = what failed + the item (map keys stripped)
        let mut by_key: BTreeMap<String, Vec<String>> = BTreeMap::new();
        for x in &r.diffs {
            let item = x.split(':').next().unwrap_or("").split('[').next().unwrap_or("").to_string();
            let kind = if x.contains("cannot be read back") { "ir-item-cannot-be-read-back" } else { "ir-item-read-back-differs" };
            by_key.entry(format!("{kind}:{item}")).or_default().push(x.clone());
        }
        for (key, items) in by_key {
            emit_violation(&key, format!("{label}: {} of {} persisted items: {}", items.len(), r.compared, items[0]),
                           json!({"source": label, "path": path, "items": items}));
        }
        if !r.missing_glyph_files.is_empty() || (r.font_emit.is_ok() && r.glyph_files != r.glyphs) {
            emit_violation("ir-glyph-files-missing-or-shared", format!("{label}: {} glyphs but {} files in glyph_ir; missing: {:?}", r.glyphs, r.glyph_files, r.missing_glyph_files),
                           json!({"source": label, "path": path, "missing": r.missing_glyph_files}));
        }
        emit(json!({"type": "case", "id": id, "kind": "emit-ir", "nontrivial": r.compared > 10, "sig": format!("e:{label}"), "source": label,
                    "items_compared": r.compared, "glyphs": r.glyphs, "font": r.font_emit.is_ok()}));
        id += 1;
    }
    // ---- a build directory that has been used before: source A is built into D, then source B into the same D;
    //      B's font must still be the one B gives without an IR directory (stale items of A must not leak into it)
    let mut reused = 0usize;
    let order: Vec<usize> = (0..emit_sources.len()).collect();
    for w in order.windows(2) {
        let (a, b) = (&emit_sources[w[0]], &emit_sources[w[1]]);
        let tmp = vh::srcgen::scratch_dir("c14reuse");
        let d = tmp.path().join("build");
        let _ = build_into(&a.1, Some(d.clone()));
        let plain = build_into(&b.1, None);
        let again = build_into(&b.1, Some(d.clone()));
        reused += 1;
        match (&plain, &again) {
            (Ok(x), Ok(y)) if x != y => emit_violation(
                "emit-ir-reused-directory-changes-font",
                format!("{} built into the IR directory left by {} differs from {} built without an IR directory ({} vs {} bytes)", b.0, a.0, b.0, y.len(), x.len()),
                json!({"first": a.0, "first_path": a.1, "second": b.0, "second_path": b.1}),
            ),
            (Ok(_), Err(e)) | (Err(e), Ok(_)) => emit_violation(
                "emit-ir-reused-directory-changes-outcome",
                format!("{} built into the IR directory left by {} ends differently from the build without an IR directory: {}", b.0, a.0, e.chars().take(200).collect::<String>()),
                json!({"first": a.0, "first_path": a.1, "second": b.0, "second_path": b.1}),
            ),
            _ => {}
        }
        emit(json!({"type": "case", "id": id, "kind": "emit-ir-reused-dir", "nontrivial": true, "sig": format!("r:{}>{}", a.0, b.0), "first": a.0, "second": b.0,
                    "font": again.is_ok()}));
        id += 1;
    }
    let ctx_cases = ctx_ops_stream(&mut rng, arg_val(args, "--ctx", 150) as usize, &mut id);
    emit_stat(json!({"names_checked_for_collisions": names, "distinct_folded_outputs": seen.len(), "kern_location_pairs": pairs, "extra_evaluations": names - n,
                     "context_op_sequences": ctx_cases,
                     "emit_ir_reused_directory_pairs": reused,
                     "emit_ir_sources": emit_runs, "emit_ir_fonts_compared": emit_fonts, "emit_ir_items_read_back": items_compared, "emit_ir_build_errors": emit_errors}));
}
