//! C02: task-graph safety. For each source: run the real compiler with the scheduler/ACL
//! hooks on, reconstruct the dynamic job graph G and the observed event history, find every
//! pair of jobs that touch the same context item (one writing), and emit a Gallina term that
//! (a) replays the history through the model's `step` and (b) evaluates `safe_graph`, whose
//! soundness theorem lifts "ordered in this run" to "ordered in every schedule".
use serde_json::{json, Value};
use std::collections::{BTreeMap, BTreeSet, HashMap};
use std::path::{Path, PathBuf};
use vh::srcgen::*;
use vh::*;

#[derive(Clone, Debug)]
enum Acc {
    None,
    Unknown,
    All,
    Set(Vec<(bool, String)>), // (is_spec, id-or-disc)
}

fn parse_acc(v: &Value) -> Acc {
    match v {
        Value::String(s) if s == "None" => Acc::None,
        Value::String(s) if s == "Unknown" => Acc::Unknown,
        Value::String(s) if s == "All" => Acc::All,
        Value::Array(a) => Acc::Set(
            a.iter()
                .map(|x| {
                    let k = x[0].as_str().unwrap();
                    (k == "S", x[1].as_str().unwrap().to_string())
                })
                .collect(),
        ),
        _ => panic!("bad access {v}"),
    }
}

struct Interner {
    ids: HashMap<String, u64>,
    names: Vec<String>,
}
impl Interner {
    fn new() -> Self {
        Interner { ids: HashMap::new(), names: Vec::new() }
    }
    fn get(&mut self, s: &str) -> u64 {
        if let Some(i) = self.ids.get(s) {
            return *i;
        }
        let i = self.names.len() as u64;
        self.ids.insert(s.to_string(), i);
        self.names.push(s.to_string());
        i
    }
}

struct JobDecl {
    id: u64,
    disc: u64,
    acc: Acc,
    also: Vec<(u64, u64)>,
}

enum Action {
    Add(JobDecl),
    Rewrite(bool, u64, Acc),
    CompleteNow(u64),
}

fn coq_acc(a: &Acc, ids: &mut Interner, discs: &mut Interner) -> String {
    match a {
        Acc::None => "ANone".into(),
        Acc::Unknown => "AUnknown".into(),
        Acc::All => "AAll".into(),
        Acc::Set(v) => format!(
            "(ASet {})",
            coq_list(v, |(spec, s)| if *spec { format!("Spec {}", coq_n(ids.ids[s])) } else { format!("Var {}", coq_n(discs.ids[s])) })
        ),
    }
}

fn coq_job(j: &JobDecl, ids: &mut Interner, discs: &mut Interner) -> String {
    format!(
        "(mkJob {} {} {} {})",
        coq_n(j.id),
        coq_n(j.disc),
        coq_acc(&j.acc, ids, discs),
        coq_list(&j.also, |(a, d)| format!("({}, {})", coq_n(*a), coq_n(*d)))
    )
}

fn item_name(ty: &str, item: &str) -> String {
    if ty.contains("fontir::orchestration::WorkId") {
        format!("Fe({item})")
    } else if ty.contains("AnyWorkId") {
        item.to_string()
    } else {
        format!("Be({item})")
    }
}

struct Instance {
    coq: String,
    jobs: usize,
    events: usize,
    pairs: usize,
    dynamic_jobs: usize,
    sample: Value,
}

/// Build the model instance from one hook log. Violations seen directly in the history are emitted.
fn analyse(name: &str, log: &[String]) -> Option<Instance> {
    let evs: Vec<Value> = log.iter().map(|l| serde_json::from_str(l).unwrap_or_else(|e| panic!("bad log line {l}: {e}"))).collect();
    let mut ids = Interner::new();
    let mut discs = Interner::new();
    // first pass: intern every inserted id (so Spec atoms can refer to ids inserted later)
    for e in &evs {
        if e["ev"] == "insert" {
            ids.get(e["id"].as_str().unwrap());
            discs.get(e["disc"].as_str().unwrap());
        }
    }
    let intern_acc = |a: &Acc, ids: &mut Interner, discs: &mut Interner| {
        if let Acc::Set(v) = a {
            for (spec, s) in v {
                if *spec {
                    ids.get(s);
                } else {
                    discs.get(s);
                }
            }
        }
    };
    let mut statics: Vec<JobDecl> = Vec::new();
    let mut handlers: BTreeMap<u64, Vec<Action>> = BTreeMap::new();
    let mut also_disc: HashMap<u64, u64> = HashMap::new();
    let mut owner_of: HashMap<u64, u64> = HashMap::new(); // also id -> owner job
    let mut trace: Vec<(char, u64)> = Vec::new();
    let mut time_launch: HashMap<u64, usize> = HashMap::new();
    let mut time_wfin: HashMap<u64, usize> = HashMap::new();
    let mut time_deliver: HashMap<u64, usize> = HashMap::new();
    // accesses: item -> (job -> wrote?)
    let mut readers: BTreeMap<u64, BTreeSet<u64>> = BTreeMap::new();
    let mut writers: BTreeMap<u64, BTreeSet<u64>> = BTreeMap::new();
    let mut handler_reads: BTreeMap<u64, BTreeSet<u64>> = BTreeMap::new(); // item -> handlers (job id) reading it
    let mut dynamic_jobs = 0usize;
    for (t, e) in evs.iter().enumerate() {
        let ev = e["ev"].as_str().unwrap();
        let by = e["by"].as_str().unwrap_or("");
        match ev {
            "insert" => {
                let id = ids.get(e["id"].as_str().unwrap());
                let disc = discs.get(e["disc"].as_str().unwrap());
                let acc = parse_acc(&e["read"]);
                intern_acc(&acc, &mut ids, &mut discs);
                if e["kind"] == "also" {
                    also_disc.insert(id, disc);
                    continue;
                }
                let also: Vec<(u64, u64)> = e["also"].as_array().unwrap().iter().map(|a| {
                    let aid = ids.get(a.as_str().unwrap());
                    owner_of.insert(aid, id);
                    (aid, *also_disc.get(&aid).expect("also id inserted before its owner"))
                }).collect();
                let j = JobDecl { id, disc, acc, also };
                if by.is_empty() {
                    statics.push(j);
                } else {
                    dynamic_jobs += 1;
                    let h = ids.get(by.strip_prefix("deliver:").expect("insert outside a handler"));
                    handlers.entry(h).or_default().push(Action::Add(j));
                }
            }
            "rewrite" => {
                let id = ids.get(e["id"].as_str().unwrap());
                let acc = parse_acc(&e["read"]);
                intern_acc(&acc, &mut ids, &mut discs);
                let h = ids.get(by.strip_prefix("deliver:").expect("rewrite outside a handler"));
                let soft = e["id"].as_str().unwrap().starts_with("Be(GlyfFragment");
                handlers.entry(h).or_default().push(Action::Rewrite(soft, id, acc));
            }
            "complete_now" => {
                let id = ids.get(e["id"].as_str().unwrap());
                let h = ids.get(by.strip_prefix("deliver:").expect("complete_now outside a handler"));
                handlers.entry(h).or_default().push(Action::CompleteNow(id));
                time_wfin.insert(id, t);
                time_deliver.insert(id, t);
            }
            "launch" => {
                let id = ids.get(e["id"].as_str().unwrap());
                trace.push(('L', id));
                time_launch.insert(id, t);
            }
            "wfinish" => {
                let id = ids.get(e["id"].as_str().unwrap());
                trace.push(('W', id));
                time_wfin.insert(id, t);
            }
            "deliver" => {
                let id = ids.get(e["id"].as_str().unwrap());
                trace.push(('D', id));
                time_deliver.insert(id, t);
            }
            "wfail" => return None, // a job failed: not a successful build, nothing to check here
            "access" => {
                let item = ids.get(&item_name(e["ty"].as_str().unwrap(), e["item"].as_str().unwrap()));
                if by.is_empty() {
                    continue; // outside any job (e.g. writing the font file after the build)
                }
                if let Some(h) = by.strip_prefix("deliver:") {
                    let h = ids.get(h);
                    handler_reads.entry(item).or_default().insert(h);
                } else {
                    let j = ids.get(by);
                    if e["kind"] == "w" {
                        writers.entry(item).or_default().insert(j);
                    } else {
                        readers.entry(item).or_default().insert(j);
                    }
                }
            }
            _ => {}
        }
    }

    // ---- conflicting pairs -----------------------------------------------------
    // (first, second, handler?): `second` must not start before `first`'s work has finished.
    let mut pairs: BTreeSet<(u64, u64)> = BTreeSet::new();
    let mut bad = false;
    let mut order_pair = |a: u64, b: u64, item: u64, what: &str, names: &Vec<String>, pairs: &mut BTreeSet<(u64, u64)>, bad: &mut bool| {
        if a == b {
            return;
        }
        let (la, wa) = (time_launch.get(&a).copied(), time_wfin.get(&a).copied());
        let (lb, wb) = (time_launch.get(&b).copied(), time_wfin.get(&b).copied());
        match (la, wa, lb, wb) {
            (_, Some(wa), Some(lb), _) if wa < lb => {
                if std::env::var("VH_DEBUG").is_ok() {
                    eprintln!("PAIR {}({}) before {}({}) item {} {what}", names[a as usize], a, names[b as usize], b, names[item as usize]);
                }
                pairs.insert((a, b));
            }
            (Some(la), _, _, Some(wb)) if wb < la => {
                pairs.insert((b, a));
            }
            _ => {
                *bad = true;
                emit_violation(
                    "concurrent-conflicting-access",
                    format!("{name}: {} and {} both access {} ({what}) and overlapped in the observed run", names[a as usize], names[b as usize], names[item as usize]),
                    json!({"source": name, "jobs": [names[a as usize], names[b as usize]], "item": names[item as usize]}),
                );
            }
        }
    };
    let names = ids.names.clone();
    for (item, ws) in &writers {
        // the primary producer of an item is the job that owns the id
        for w in ws {
            for r in readers.get(item).into_iter().flatten() {
                order_pair(*w, *r, *item, "write/read", &names, &mut pairs, &mut bad);
            }
            for w2 in ws {
                if w < w2 {
                    order_pair(*w, *w2, *item, "write/write", &names, &mut pairs, &mut bad);
                }
            }
        }
    }
    // a reader of an item must come after the item's primary producer even if that wrote nothing
    for (item, rs) in &readers {
        let prod = owner_of.get(item).copied().unwrap_or(*item);
        if time_launch.contains_key(&prod) || time_wfin.contains_key(&prod) {
            for r in rs {
                if *r != prod {
                    let (wa, lb) = (time_wfin.get(&prod).copied(), time_launch.get(r).copied());
                    match (wa, lb) {
                        (Some(wa), Some(lb)) if wa < lb => {
                            pairs.insert((prod, *r));
                        }
                        _ => {
                            bad = true;
                            emit_violation(
                                "read-before-producer",
                                format!("{name}: {} read {} before its producer {} had finished", names[*r as usize], names[*item as usize], names[prod as usize]),
                                json!({"source": name}),
                            );
                        }
                    }
                }
            }
        }
    }
    // Completion handlers (update_be_glyph_work) read values on the scheduler thread at delivery
    // time. They are not compilation steps: which view they saw only decides the handler's action
    // list, i.e. which graph G this run produced; G itself is what is checked. Count the racy ones.
    let handler_pairs: BTreeSet<(u64, u64)> = BTreeSet::new();
    let mut racy_handler_reads = 0usize;
    for (item, hs) in &handler_reads {
        for w in writers.get(item).into_iter().flatten() {
            for h in hs {
                if h == w {
                    continue;
                }
                let (wa, la) = (time_wfin.get(w).copied(), time_launch.get(w).copied());
                let dh = time_deliver.get(h).copied();
                if let (Some(la), Some(wa), Some(dh)) = (la, wa, dh) {
                    if la < dh && dh < wa {
                        racy_handler_reads += 1;
                    }
                }
            }
        }
    }
    let _ = bad;

    // ---- Gallina ----------------------------------------------------------------
    let g = format!(
        "(mkGraph {} {})",
        coq_list(&statics, |j| coq_job(j, &mut Interner { ids: ids.ids.clone(), names: vec![] }, &mut Interner { ids: discs.ids.clone(), names: vec![] })),
        coq_list(&handlers.iter().collect::<Vec<_>>(), |(h, acts)| {
            format!(
                "({}, {})",
                coq_n(**h),
                coq_list(acts, |a| {
                    let mut i2 = Interner { ids: ids.ids.clone(), names: vec![] };
                    let mut d2 = Interner { ids: discs.ids.clone(), names: vec![] };
                    match a {
                        Action::Add(j) => format!("Add {}", coq_job(j, &mut i2, &mut d2)),
                        Action::Rewrite(soft, i, acc) => format!("Rewrite {} {} {}", coq_bool(*soft), coq_n(*i), coq_acc(acc, &mut i2, &mut d2)),
                        Action::CompleteNow(i) => format!("CompleteNow {}", coq_n(*i)),
                    }
                })
            )
        })
    );
    let tr = coq_list(&trace, |(k, i)| match k {
        'L' => format!("Launch {}", coq_n(*i)),
        'W' => format!("WFinish {}", coq_n(*i)),
        _ => format!("Deliver {}", coq_n(*i)),
    });
    // order in which to compute the closure table: launch order of the observed run
    let mut order: Vec<(usize, u64)> = Vec::new();
    for (id, t) in &time_launch {
        order.push((*t, *id));
    }
    for (id, t) in &time_deliver {
        if !time_launch.contains_key(id) {
            order.push((*t, *id));
        }
    }
    order.sort();
    let order: Vec<u64> = order.into_iter().map(|p| p.1).collect();
    let pl: Vec<(u64, u64)> = pairs.iter().copied().collect();
    let hl: Vec<(u64, u64)> = handler_pairs.iter().copied().collect();
    // ---- rank certificate for the progress condition: a layering of the graph's own constraints (creator before
    //      created, every dependency of every access a job may hold before the job, a settling handler before a job
    //      created with Unknown access), independent of the schedule this run happened to take
    let ranks: Vec<(u64, u64)> = {
        let mut disc_of: HashMap<u64, u64> = HashMap::new();
        let mut job_of: HashMap<u64, u64> = HashMap::new();
        let mut jobs: Vec<u64> = Vec::new();
        let mut decls: Vec<(&JobDecl, Option<u64>)> = statics.iter().map(|j| (j, None)).collect();
        for (h, acts) in &handlers {
            for a in acts {
                if let Action::Add(j) = a {
                    decls.push((j, Some(*h)));
                }
            }
        }
        for (j, _) in &decls {
            jobs.push(j.id);
            disc_of.insert(j.id, j.disc);
            job_of.insert(j.id, j.id);
            for (a, d) in &j.also {
                disc_of.insert(*a, *d);
                job_of.insert(*a, j.id);
            }
        }
        let mut preds: HashMap<u64, BTreeSet<u64>> = jobs.iter().map(|j| (*j, BTreeSet::new())).collect();
        let add_acc = |j: u64, acc: &Acc, preds: &mut HashMap<u64, BTreeSet<u64>>| match acc {
            Acc::None | Acc::Unknown => {}
            Acc::All => {
                for k in &jobs {
                    if *k != j {
                        preds.get_mut(&j).map(|p| p.insert(*k));
                    }
                }
            }
            Acc::Set(v) => {
                for (spec, name) in v {
                    if *spec {
                        if let Some(o) = ids.ids.get(name).and_then(|i| job_of.get(i)) {
                            preds.get_mut(&j).map(|p| p.insert(*o));
                        }
                    } else if let Some(dd) = discs.ids.get(name) {
                        for (x, dx) in &disc_of {
                            if dx == dd {
                                preds.get_mut(&j).map(|p| p.insert(job_of[x]));
                            }
                        }
                    }
                }
            }
        };
        for (j, creator) in &decls {
            add_acc(j.id, &j.acc, &mut preds);
            if let Some(c) = creator {
                preds.get_mut(&j.id).map(|p| p.insert(*c));
            }
            if matches!(j.acc, Acc::Unknown) && creator.is_none() {
                // the first handler that settles it
                if let Some((h, _)) = handlers.iter().find(|(_, acts)| acts.iter().any(|a| matches!(a, Action::Rewrite(_, i, _) if *i == j.id) || matches!(a, Action::CompleteNow(i) if *i == j.id))) {
                    preds.get_mut(&j.id).map(|p| p.insert(*h));
                }
            }
        }
        for acts in handlers.values() {
            for a in acts {
                if let Action::Rewrite(_, i, acc) = a {
                    if preds.contains_key(i) {
                        add_acc(*i, acc, &mut preds);
                    }
                }
            }
        }
        // longest-path layering; a cycle leaves every rank at 0 (the Coq check then rejects the graph)
        fn layer(j: u64, preds: &HashMap<u64, BTreeSet<u64>>, memo: &mut HashMap<u64, Option<u64>>, depth: usize) -> Option<u64> {
            if let Some(r) = memo.get(&j) {
                return *r; // None while on the stack = cycle
            }
            if depth > 100_000 {
                return None;
            }
            memo.insert(j, None);
            let mut r = 0u64;
            for p in preds.get(&j).into_iter().flatten() {
                if *p == j {
                    return None;
                }
                r = r.max(layer(*p, preds, memo, depth + 1)? + 1);
            }
            memo.insert(j, Some(r));
            Some(r)
        }
        let mut memo: HashMap<u64, Option<u64>> = HashMap::new();
        let mut ok = true;
        for j in &jobs {
            if layer(*j, &preds, &mut memo, 0).is_none() {
                ok = false;
                break;
            }
        }
        let mut out: Vec<(u64, u64)> = job_of.iter().map(|(x, o)| (*x, if ok { memo.get(o).copied().flatten().unwrap_or(0) + 1 } else { 0 })).collect();
        out.sort();
        out
    };
    let coq = format!(
        "check_instance {} {} {} {} {} {}",
        g,
        tr,
        coq_list(&order, |i| coq_n(*i)),
        coq_list(&pl, |(a, b)| format!("({}, {})", coq_n(*a), coq_n(*b))),
        coq_list(&hl, |(a, b)| format!("({}, {})", coq_n(*a), coq_n(*b))),
        coq_list(&ranks, |(a, b)| format!("({}, {})", coq_n(*a), coq_n(*b)))
    );
    let sample = json!({
        "source": name,
        "jobs": names.len(),
        "first_pairs": pl.iter().take(5).map(|(a, b)| format!("{} before {}", names[*a as usize], names[*b as usize])).collect::<Vec<_>>(),
        "handler_reads_overlapping_a_writer": racy_handler_reads,
        "id_names": names,
    });
    Some(Instance { coq, jobs: names.len(), events: trace.len(), pairs: pl.len() + hl.len(), dynamic_jobs, sample })
}

fn compile_logged(path: &Path, skip_features: bool) -> (Outcome, Vec<String>) {
    fontc::verif_hooks::take();
    fontc::verif_hooks::enable(true);
    let path2 = path.to_path_buf();
    let r = std::panic::catch_unwind(move || {
        let input = fontc::Input::new(&path2).map_err(|e| e.to_string())?;
        let source = input.create_source().map_err(|e| e.to_string())?;
        let mut options = fontc::Options::default();
        options.skip_features = skip_features;
        fontc::generate_font(source, options).map_err(|e| e.to_string())
    });
    fontc::verif_hooks::enable(false);
    let log = fontc::verif_hooks::take();
    let o = match r {
        Ok(Ok(b)) => Outcome::Font(b),
        Ok(Err(e)) => Outcome::Error(e),
        Err(p) => Outcome::Panic(if let Some(s) = p.downcast_ref::<String>() { s.clone() } else if let Some(s) = p.downcast_ref::<&str>() { s.to_string() } else { "panic".into() }),
    };
    (o, log)
}

fn corpus() -> Vec<PathBuf> {
    let td = Path::new("/repo/resources/testdata");
    let mut v = Vec::new();
    let mut push_dir = |d: &Path| {
        if let Ok(rd) = std::fs::read_dir(d) {
            let mut ps: Vec<PathBuf> = rd.flatten().map(|e| e.path()).collect();
            ps.sort();
            for p in ps {
                let ext = p.extension().and_then(|e| e.to_str()).unwrap_or("");
                if matches!(ext, "designspace" | "glyphs" | "glyphspackage" | "ufo" | "fontra") {
                    v.push(p);
                }
            }
        }
    };
    push_dir(td);
    for sub in ["glyphs2", "glyphs3", "dspace_rules", "HVVAR", "COLRv0-var", "designspace_from_glyphs", "fontra"] {
        push_dir(&td.join(sub));
    }
    v
}

/// Generated sources that exercise the dynamic parts of the graph.
fn generated(rng: &mut Rng, k: usize) -> Design {
    let n_glyphs = rng.range(3, 12) as usize;
    let mut glyphs = vec![GlyphSrc::new("a", 600.0).uni(0x61).rect(10., 0., 300., 400.)];
    if rng.chance(1, 2) {
        glyphs.insert(0, GlyphSrc::new(".notdef", 500.0).rect(50., 0., 450., 700.));
    }
    let mut names = vec!["a".to_string()];
    for i in 0..n_glyphs {
        let name = format!("g{i}");
        let mut g = GlyphSrc::new(&name, 500.0 + i as f64);
        if i < 26 {
            g = g.uni(0x62 + i as u32);
        }
        match rng.below(4) {
            0 => g = g.rect(0., 0., 100. + i as f64, 200.),
            1 => {
                let b = rng.pick(&names).clone();
                g = g.comp(&b, [1., 0., 0., 1., 10. * i as f64, 0.]);
            }
            2 => {
                // mixed contour + component (gets split / decomposed)
                let b = rng.pick(&names).clone();
                g = g.rect(0., 0., 50., 50.).comp(&b, [1., 0., 0., 1., 60., 0.]);
            }
            _ => {
                // scaled / flipped component
                let b = rng.pick(&names).clone();
                g = g.comp(&b, [if rng.chance(1, 2) { -1. } else { 0.5 }, 0., 0., 1., 0., 0.]);
            }
        }
        if rng.chance(1, 3) {
            g = g.anchor("top", 100., 400.);
        }
        names.push(name);
        glyphs.push(g);
    }
    let mut des = Design::single(&format!("Gen{k}"), glyphs);
    // non-export glyphs used as components
    if rng.chance(1, 2) {
        let skip: Vec<String> = names.iter().filter(|_| rng.chance(1, 4)).cloned().collect();
        des.masters[0].skip_export = skip;
    }
    if rng.chance(1, 2) {
        let mut order = names.clone();
        rng.shuffle(&mut order);
        des.masters[0].glyph_order = Some(order);
    }
    if rng.chance(2, 3) {
        // variable, with kerning at both masters
        des.axes.push(AxisSrc { name: "Weight".into(), tag: "wght".into(), min: 400., default: 400., max: 700., ..Default::default() });
        let mut m2 = des.masters[0].clone();
        m2.name = "Bold".into();
        m2.style = "Bold".into();
        des.masters[0].location = vec![("Weight".into(), 400.)];
        m2.location = vec![("Weight".into(), 700.)];
        for g in m2.glyphs.iter_mut() {
            g.advance += 40.0;
        }
        if rng.chance(2, 3) {
            des.masters[0].kerning = vec![("a".into(), "g0".into(), -20.0)];
            m2.kerning = vec![("a".into(), "g0".into(), -30.0), ("g0".into(), "a".into(), 5.0)];
        }
        des.masters.push(m2);
    } else if rng.chance(1, 2) {
        des.masters[0].kerning = vec![("a".into(), "g0".into(), -20.0)];
    }
    des
}

fn main() {
    quiet_panics();
    let args: Vec<String> = std::env::args().collect();
    let seed = arg_val(&args, "--seed", 1);
    let n_gen = arg_val(&args, "--n", 20) as usize;
    let corpus_max = arg_val(&args, "--corpus", 1000) as usize;
    let mut rng = Rng::new(seed);
    let mut id = 0usize;
    let mut sizes: Vec<usize> = Vec::new();
    let mut failed_builds = 0usize;
    let mut sources: Vec<(String, PathBuf, bool, Option<tempfile::TempDir>)> = Vec::new();
    for p in corpus().into_iter().take(corpus_max) {
        let name = p.file_name().unwrap().to_string_lossy().into_owned();
        sources.push((name, p, false, None));
    }
    for k in 0..n_gen {
        let des = generated(&mut rng, k);
        let d = scratch_dir("c02");
        let p = des.write(d.path());
        let skip = rng.chance(1, 6);
        sources.push((format!("generated-{k}{}", if skip { "-skipfeatures" } else { "" }), p, skip, Some(d)));
    }
    for (name, path, skip, _guard) in &sources {
        let (o, log) = compile_logged(path, *skip);
        if !matches!(o, Outcome::Font(_)) {
            // a source that does not compile is outside this property (C15 covers it) — unless the
            // failure is one of the scheduler's own
            let msg = match &o {
                Outcome::Error(e) => e.clone(),
                Outcome::Panic(e) => e.clone(),
                _ => String::new(),
            };
            if msg.contains("proceed") || msg.contains("not available") || msg.contains("Illegal") || msg.contains("completed but")
                || msg.contains("Multiple completions") || msg.contains("Repeat signals") || msg.contains("has to be pending") || msg.contains("No count of type")
            {
                emit_violation("scheduler-failure", format!("{name}: {msg}"), json!({"source": name, "message": msg}));
            }
            failed_builds += 1;
            continue;
        }
        if let Some(inst) = analyse(name, &log) {
            sizes.push(inst.jobs);
            let show = inst.coq.replacen("check_instance", "search_instance", 1);
            // failing cases with handler actions that can panic (complete-now, hard rewrites) are searched first
            let show_priority = inst.coq.matches("CompleteNow").count() * 4 + inst.coq.matches("Rewrite false").count();
            emit_case(id, if name.starts_with("generated") { "generated" } else { "corpus" }, inst.coq, Some(show), inst.dynamic_jobs > 0 || inst.jobs > 60,
                format!("{name}"), json!({"source": name, "jobs": inst.jobs, "events": inst.events, "ordered_pairs": inst.pairs, "dynamic_jobs": inst.dynamic_jobs, "sample": inst.sample,
                       "show_priority": show_priority}));
            id += 1;
        }
    }
    emit_stat(json!({"sources": sources.len(), "builds_that_failed_for_unrelated_reasons": failed_builds, "max_jobs": sizes.iter().max(), "total_jobs": sizes.iter().sum::<usize>()}));
}
