//! C19: values that do not fit the binary format are rejected, never wrapped; debug and release
//! builds agree.
//!
//! The same program is built twice (dev profile = overflow checks on, release profile = off).
//! Started normally (the dev binary) it
//!   1. scans the anchored source files of /repo for narrowing idioms and compares them with the
//!      site table below (a site that is not in the table fails the check),
//!   2. generates boundary sources from `--seed`, compiles each in-process (this profile) and asks
//!      the release binary (`C19_RELEASE_BIN`, started with `--worker`) for its observations of
//!      the very same sources,
//!   3. evaluates the property predicate on both observations (rejected, or emitted faithfully /
//!      with a shape-preserving fallback; both profiles agree) and emits violations,
//!   4. emits, per source, a Gallina term that is true iff the model of the narrowing sites
//!      (FV.C19.Model) predicts exactly what each profile did.
use serde_json::{json, Value};
use std::collections::BTreeMap;
use std::io::{BufRead, BufReader};
use std::process::{Command, Stdio};
use vh::sfnt::{be16, be32, bei16, table};
use vh::srcgen::{compile_path, quiet_panics, scratch_dir, AxisSrc, Design, GlyphSrc, Master, Outcome, Pt};
use vh::*;

// ------------------------------------------------------------------------------------------
// 1. narrowing sites
// ------------------------------------------------------------------------------------------

/// How a site behaves when the value does not fit.
#[derive(Clone, Copy, Debug, PartialEq)]
enum Cls {
    /// float -> int `as` after ot_round / F2Dot14::from_f64: saturates (both profiles)
    Saturate,
    /// int -> narrower int `as`: wraps (both profiles)
    Wrap,
    /// checked conversion mapped to a build error
    Checked,
    /// checked conversion followed by unwrap: panic in both profiles
    CheckedPanic,
    /// explicit clamp of a derived summary value
    Clamp,
    /// narrow integer arithmetic: wraps in release, panics in debug (none left in the table
    /// after the repairs; kept so that a new one can be classified)
    #[allow(dead_code)]
    Arith,
    /// widening or otherwise value-preserving; cannot lose information
    Harmless,
}

/// (file, source line with all white space removed, site key, class, how often the line occurs)
const SITES: &[(&str, &str, &str, Cls, usize)] = &[
    // ---- fontbe/src/glyphs.rs
    ("fontbe/src/glyphs.rs", "letwidth:u16=glyph.width.ot_round();", "glyphs.rs:can_reuse_metrics.width", Cls::Saturate, 1),
    ("fontbe/src/glyphs.rs", "letcomponent_width:u16=component_glyph.width.ot_round();", "glyphs.rs:can_reuse_metrics.component_width", Cls::Saturate, 1),
    ("fontbe/src/glyphs.rs", "coeffs[4]=coeffs[4].ot_round();", "glyphs.rs:can_reuse_metrics.dx(f64)", Cls::Harmless, 1),
    ("fontbe/src/glyphs.rs", "constMAX_POINTS:usize=u16::MAXasusize;", "glyphs.rs:check_num_points.limit(widening)", Cls::Harmless, 1),
    ("fontbe/src/glyphs.rs", "letrounded:f64=value.ot_round();", "glyphs.rs:check_fits_i16(coordinates, deltas, offsets)", Cls::Checked, 1),
    ("fontbe/src/glyphs.rs", "let(x,y)=(point.xasi32,point.yasi32);", "glyphs.rs:check_point_deltas_fit_i16(i32)", Cls::Harmless, 1),
    // guarded by check_fits_i16 in create_composite: cannot saturate any more
    ("fontbe/src/glyphs.rs", "x:e.ot_round(),", "glyphs.rs:component.offset.x", Cls::Saturate, 1),
    ("fontbe/src/glyphs.rs", "y:f.ot_round(),", "glyphs.rs:component.offset.y", Cls::Saturate, 1),
    ("fontbe/src/glyphs.rs", "xx:F2Dot14::from_f64(a),", "glyphs.rs:component.transform.xx", Cls::Saturate, 1),
    ("fontbe/src/glyphs.rs", "yx:F2Dot14::from_f64(b),", "glyphs.rs:component.transform.yx", Cls::Saturate, 1),
    ("fontbe/src/glyphs.rs", "xy:F2Dot14::from_f64(c),", "glyphs.rs:component.transform.xy", Cls::Saturate, 1),
    ("fontbe/src/glyphs.rs", "yy:F2Dot14::from_f64(d),", "glyphs.rs:component.transform.yy", Cls::Saturate, 1),
    ("fontbe/src/glyphs.rs", "letcomposite=CompositeGlyph::try_from_iter(components_at_default)", "glyphs.rs:composite.try_from_iter(no components)", Cls::Checked, 1),
    ("fontbe/src/glyphs.rs", "letpoint=Point::new(dx.ot_round(),dy.ot_round());", "glyphs.rs:composite.gvar.point(f64)", Cls::Harmless, 1),
    ("fontbe/src/glyphs.rs", ".map(|delta|matchdelta.to_point().ot_round(){", "glyphs.rs:composite.gvar.delta", Cls::Saturate, 1),
    ("fontbe/src/glyphs.rs", ".glyph_name(component.glyph.to_u16()asusize)", "glyphs.rs:bbox.gid(widening)", Cls::Harmless, 1),
    // ---- fontbe/src/metrics_and_limits.rs
    ("fontbe/src/metrics_and_limits.rs", "matchadvanceasi32-side_bearingasi32-bounds_advance{", "metrics_and_limits.rs:second_side_bearing(i32)", Cls::Harmless, 1),
    ("fontbe/src/metrics_and_limits.rs", "valueifvalue<i16::MINasi32=>i16::MIN,", "metrics_and_limits.rs:summary.clamp.min", Cls::Clamp, 2),
    ("fontbe/src/metrics_and_limits.rs", "valueifvalue>i16::MAXasi32=>i16::MAX,", "metrics_and_limits.rs:summary.clamp.max", Cls::Clamp, 2),
    ("fontbe/src/metrics_and_limits.rs", "value=>valueasi16,", "metrics_and_limits.rs:summary.clamp.cast(guarded)", Cls::Clamp, 2),
    ("fontbe/src/metrics_and_limits.rs", "letextent=matchside_bearingasi32+bounds_advance{", "metrics_and_limits.rs:extent(i32)", Cls::Harmless, 1),
    ("fontbe/src/metrics_and_limits.rs", "letnum_points=simple.contours.iter().map(Contour::len).sum::<usize>()asu16;", "metrics_and_limits.rs:maxp.num_points", Cls::Wrap, 1),
    ("fontbe/src/metrics_and_limits.rs", "letnum_contours=simple.contours.len()asu16;", "metrics_and_limits.rs:maxp.num_contours", Cls::Wrap, 1),
    ("fontbe/src/metrics_and_limits.rs", "letnum_components=composite.components().len()asu16;", "metrics_and_limits.rs:maxp.num_components", Cls::Wrap, 1),
    ("fontbe/src/metrics_and_limits.rs", "points+e.max_pointsasu32,", "metrics_and_limits.rs:maxp.composite.points(u32 sum)", Cls::Harmless, 1),
    ("fontbe/src/metrics_and_limits.rs", "contours+e.max_contoursasu32,", "metrics_and_limits.rs:maxp.composite.contours(u32 sum)", Cls::Harmless, 1),
    ("fontbe/src/metrics_and_limits.rs", "depth.max(e.max_depthasu32+1),", "metrics_and_limits.rs:maxp.composite.depth(u32)", Cls::Harmless, 1),
    ("fontbe/src/metrics_and_limits.rs", "u16::try_from(points),", "metrics_and_limits.rs:maxp.composite.points", Cls::Checked, 1),
    ("fontbe/src/metrics_and_limits.rs", "u16::try_from(contours),", "metrics_and_limits.rs:maxp.composite.contours", Cls::Checked, 1),
    ("fontbe/src/metrics_and_limits.rs", "u16::try_from(depth),", "metrics_and_limits.rs:maxp.composite.depth", Cls::Checked, 1),
    ("fontbe/src/metrics_and_limits.rs", "letrounded:f64=width.ot_round();", "metrics_and_limits.rs:hmtx.advance", Cls::Checked, 1),
    ("fontbe/src/metrics_and_limits.rs", "Ok(roundedasu16)", "metrics_and_limits.rs:hmtx.advance.cast(guarded)", Cls::Checked, 1),
    ("fontbe/src/metrics_and_limits.rs", ".map(|bbox|bbox.x_maxasi32-bbox.x_minasi32);", "metrics_and_limits.rs:bounds_advance(i32)", Cls::Harmless, 1),
    ("fontbe/src/metrics_and_limits.rs", "ascender:FWord::new(default_metrics.hhea_ascender.into_inner().ot_round()),", "metrics_and_limits.rs:hhea.ascender", Cls::Saturate, 1),
    ("fontbe/src/metrics_and_limits.rs", "descender:FWord::new(default_metrics.hhea_descender.into_inner().ot_round()),", "metrics_and_limits.rs:hhea.descender", Cls::Saturate, 1),
    ("fontbe/src/metrics_and_limits.rs", "line_gap:FWord::new(default_metrics.hhea_line_gap.into_inner().ot_round()),", "metrics_and_limits.rs:hhea.line_gap", Cls::Saturate, 1),
    ("fontbe/src/metrics_and_limits.rs", "caret_slope_rise:default_metrics.caret_slope_rise.into_inner().ot_round(),", "metrics_and_limits.rs:hhea.caret_slope_rise", Cls::Saturate, 1),
    ("fontbe/src/metrics_and_limits.rs", "caret_slope_run:default_metrics.caret_slope_run.into_inner().ot_round(),", "metrics_and_limits.rs:hhea.caret_slope_run", Cls::Saturate, 1),
    ("fontbe/src/metrics_and_limits.rs", "caret_offset:default_metrics.caret_offset.into_inner().ot_round(),", "metrics_and_limits.rs:hhea.caret_offset", Cls::Saturate, 1),
    ("fontbe/src/metrics_and_limits.rs", "number_of_h_metrics:metrics.long_metrics.len().try_into().map_err(|_|{", "metrics_and_limits.rs:hhea.number_of_h_metrics", Cls::Checked, 1),
    ("fontbe/src/metrics_and_limits.rs", "num_glyphs:glyph_order.len().try_into().unwrap(),", "metrics_and_limits.rs:maxp.num_glyphs", Cls::CheckedPanic, 1),
    // ---- fontbe/src/metric_variations.rs
    ("fontbe/src/metric_variations.rs", "DeltaDirection::Horizontal=>glyph_instance.width.ot_round(),", "metric_variations.rs:advance(f64)", Cls::Harmless, 1),
    ("fontbe/src/metric_variations.rs", "values[0].ot_round(),", "metric_variations.rs:hvar.delta", Cls::Saturate, 1),
    // ---- fontbe/src/features.rs
    ("fontbe/src/features.rs", "letvalue:f64=value.into_inner().ot_round();", "features.rs:variable_metric.master(f64)", Cls::Harmless, 1),
    ("fontbe/src/features.rs", ".ot_round();", "features.rs:variable_metric.default", Cls::Saturate, 2),
    ("fontbe/src/features.rs", "value.ot_round(),", "features.rs:variable_metric.delta", Cls::Saturate, 2),
    ("fontbe/src/features.rs", "self.axes.len().try_into().unwrap()", "features.rs:axis_count", Cls::CheckedPanic, 1),
    ("fontbe/src/features.rs", ".filter_map(|(name,cls)|glyph_order.glyph_id(name).map(|id|(id,*clsasu16)))", "features.rs:glyph_class(enum)", Cls::Harmless, 1),
    // ---- fontir/src/ir.rs
    ("fontir/src/ir.rs", "self.0.get_index_of(name).map(|i|GlyphId16::new(ias_))", "ir.rs:glyph_order.glyph_id", Cls::Wrap, 1),
    ("fontir/src/ir.rs", ".map(|(i,name)|(GlyphId16::new(ias_),name))", "ir.rs:glyph_order.iter", Cls::Wrap, 1),
    ("fontir/src/ir.rs", ".map(|(loc,value)|(loc,vec![OtRound::<f64>::ot_round(value.into_inner())]))", "ir.rs:global_metric.master(f64)", Cls::Harmless, 1),
    ("fontir/src/ir.rs", "if!(33..127).contains(&(casu32)){", "ir.rs:postscript_name.char(widening)", Cls::Harmless, 1),
    ("fontir/src/ir.rs", ".ot_round()", "ir.rs:glyph.height/vertical_origin", Cls::Saturate, 2),
    ("fontir/src/ir.rs", "letadvance_width:u16=self.width.ot_round();", "ir.rs:phantom.advance_width", Cls::Saturate, 1),
    ("fontir/src/ir.rs", "transform:Affine::new(coeffs.try_into().unwrap()),", "ir.rs:interpolated.transform(slice to array)", Cls::Harmless, 1),
    // ---- fontir/src/glyph.rs
    ("fontir/src/glyph.rs", "letwidth=(upemasf64*0.5).ot_round();", "glyph.rs:notdef.width(f64)", Cls::Harmless, 1),
    ("fontir/src/glyph.rs", "letwidth=OtRound::<u16>::ot_round(upm*0.5)asf64;", "glyph.rs:notdef.outline.width(<=32768)", Cls::Harmless, 1),
    ("fontir/src/glyph.rs", "letstroke=OtRound::<u16>::ot_round(upm*0.05)asf64;", "glyph.rs:notdef.outline.stroke(<=3277)", Cls::Harmless, 1),
    // ---- fontdrasil/src/types.rs
    ("fontdrasil/src/types.rs", "fntry_from(value:u16)->Result<Self,Self::Error>{", "types.rs:WidthClass.try_from", Cls::Checked, 1),
    ("fontdrasil/src/types.rs", ".and_then(|idx|WidthClass::all_values().get(idxasusize))", "types.rs:WidthClass.try_from.index(after checked_sub)", Cls::Harmless, 1),
    ("fontdrasil/src/types.rs", "Self::_PERCENT_LUT[*selfasusize]", "types.rs:WidthClass.to_percent(enum)", Cls::Harmless, 1),
    // ---- fontbe/src/vertical_metrics.rs (not anchored; named in the brief)
    ("fontbe/src/vertical_metrics.rs", "ascender:FWord::new(default_metrics.vhea_ascender.into_inner().ot_round()),", "vertical_metrics.rs:vhea.ascender", Cls::Saturate, 1),
    ("fontbe/src/vertical_metrics.rs", "descender:FWord::new(default_metrics.vhea_descender.into_inner().ot_round()),", "vertical_metrics.rs:vhea.descender", Cls::Saturate, 1),
    ("fontbe/src/vertical_metrics.rs", "line_gap:FWord::new(default_metrics.vhea_line_gap.into_inner().ot_round()),", "vertical_metrics.rs:vhea.line_gap", Cls::Saturate, 1),
    ("fontbe/src/vertical_metrics.rs", ".ot_round(),", "vertical_metrics.rs:vhea.caret_slope_rise", Cls::Saturate, 1),
    ("fontbe/src/vertical_metrics.rs", "caret_slope_run:default_metrics.vhea_caret_slope_run.into_inner().ot_round(),", "vertical_metrics.rs:vhea.caret_slope_run", Cls::Saturate, 1),
    ("fontbe/src/vertical_metrics.rs", "caret_offset:default_metrics.vhea_caret_offset.into_inner().ot_round(),", "vertical_metrics.rs:vhea.caret_offset", Cls::Saturate, 1),
    ("fontbe/src/vertical_metrics.rs", "number_of_long_ver_metrics:metrics.long_metrics.len().try_into().map_err(|_|{", "vertical_metrics.rs:vhea.number_of_long_ver_metrics", Cls::Checked, 1),
    ("fontbe/src/vertical_metrics.rs", ".map(|bbox|bbox.y_maxasi32-bbox.y_minasi32);", "vertical_metrics.rs:bounds_advance(i32)", Cls::Harmless, 1),
    ("fontbe/src/vertical_metrics.rs", "letside_bearing=vertical_originasi32-y_maxasi32;", "vertical_metrics.rs:top_side_bearing(i32)", Cls::Harmless, 1),
    ("fontbe/src/vertical_metrics.rs", "side_bearing.try_into().map_err(|_|Error::OutOfBounds{", "vertical_metrics.rs:top_side_bearing", Cls::Checked, 1),
];

/// Narrow-integer arithmetic cannot be found by a grep for cast idioms; these lines are
/// checked for presence so that the table notices when they change.
const ARITH_SITES: &[(&str, &str, &str)] = &[
    // no narrow arithmetic left in the scanned files (the top side bearing is computed in i32 and
    // checked); these are the lines that make the glyf step check one walk over ALL points of a
    // glyph with a single running previous point (contour seams included)
    // ... and the lines that make the coordinate check look at EVERY point (on- and off-curve)
    // of EVERY element of EVERY master's path
    ("fontbe/src/glyphs.rs", "forelinpath.elements(){", "glyphs.rs:check_path_fits_i16.elements(every path element)"),
    ("fontbe/src/glyphs.rs", "PathEl::MoveTo(p)|PathEl::LineTo(p)=>[Some(p),None,None],", "glyphs.rs:check_path_fits_i16.points(move/line)"),
    ("fontbe/src/glyphs.rs", "PathEl::QuadTo(p1,p)=>[Some(p1),Some(p),None],", "glyphs.rs:check_path_fits_i16.points(quad: control and end)"),
    ("fontbe/src/glyphs.rs", "PathEl::CurveTo(p1,p2,p)=>[Some(p1),Some(p2),Some(p)],", "glyphs.rs:check_path_fits_i16.points(cubic: controls and end)"),
    ("fontbe/src/glyphs.rs", "forpinpoints.into_iter().flatten(){", "glyphs.rs:check_path_fits_i16.points(all)"),
    ("fontbe/src/glyphs.rs", "check_fits_i16(glyph_name,\"xcoordinate\",p.x)?;", "glyphs.rs:check_path_fits_i16.x"),
    ("fontbe/src/glyphs.rs", "check_fits_i16(glyph_name,\"ycoordinate\",p.y)?;", "glyphs.rs:check_path_fits_i16.y"),
    ("fontbe/src/glyphs.rs", "forpathin&bezpaths{", "glyphs.rs:GlyphWork.check_path_fits_i16(every master)"),
    ("fontbe/src/glyphs.rs", "check_path_fits_i16(&self.glyph_name,path)?;", "glyphs.rs:GlyphWork.check_path_fits_i16(call)"),
    ("fontbe/src/glyphs.rs", "let(mutlast_x,mutlast_y)=(0_i32,0_i32);", "glyphs.rs:check_point_deltas_fit_i16.start(one previous point per glyph)"),
    ("fontbe/src/glyphs.rs", "forpointinglyph.contours.iter().flat_map(|c|c.iter()){", "glyphs.rs:check_point_deltas_fit_i16.walk(flat over contours)"),
];

const SCANNED: &[&str] = &[
    "fontbe/src/glyphs.rs",
    "fontbe/src/metrics_and_limits.rs",
    "fontbe/src/metric_variations.rs",
    "fontbe/src/features.rs",
    "fontir/src/ir.rs",
    "fontir/src/glyph.rs",
    "fontdrasil/src/types.rs",
    "fontbe/src/vertical_metrics.rs",
];

fn strip_ws(s: &str) -> String {
    s.chars().filter(|c| !c.is_whitespace()).collect()
}

/// does the (comment-free, white-space-free) line contain a narrowing idiom?
fn has_idiom(l: &str) -> bool {
    const TYPES: &[&str] = &["i8", "u8", "i16", "u16", "i32", "u32", "i64", "u64", "isize", "usize", "f32", "_"];
    // ` as <type>`: in the stripped line this is `as<type>` preceded by an identifier/paren char and
    // followed by a non-identifier char
    let b = l.as_bytes();
    let isid = |c: u8| c.is_ascii_alphanumeric() || c == b'_';
    let mut i = 0;
    while i + 2 <= b.len() {
        if &b[i..i + 2] == b"as" && i > 0 && (isid(b[i - 1]) || b[i - 1] == b')' || b[i - 1] == b']') {
            for t in TYPES {
                let tb = t.as_bytes();
                if b.len() >= i + 2 + tb.len() && &b[i + 2..i + 2 + tb.len()] == tb {
                    let after = b.get(i + 2 + tb.len()).copied().unwrap_or(b' ');
                    if !isid(after) {
                        // the stripped text cannot tell `x as u16` from an identifier ending in
                        // "as" followed by a type name; that needs `...asu16` as an identifier,
                        // which would continue with an identifier character before: accept
                        return true;
                    }
                }
            }
        }
        i += 1;
    }
    for pat in ["ot_round(", "OtRound::<", "F2Dot14::from_f", "Fixed::from_f", "try_into()", "try_from(", "try_from_iter("] {
        if l.contains(pat) {
            return true;
        }
    }
    false
}

/// the part of a source file that is compiled into fontc: everything before the unit tests and
/// the verification hooks
fn production_lines(src: &str) -> Vec<(usize, String)> {
    let mut out = Vec::new();
    let lines: Vec<&str> = src.lines().collect();
    let mut i = 0;
    while i < lines.len() {
        let t = lines[i].trim();
        if t == "#[cfg(fontc_verif)]" {
            break;
        }
        if t == "#[cfg(test)]" {
            // a test module ends the production part; a single cfg(test) item (fn/use/impl) is skipped
            let next = lines.get(i + 1).map(|s| s.trim()).unwrap_or("");
            if next.starts_with("mod ") {
                // skip the braces of the module
                let mut depth = 0i32;
                let mut seen = false;
                let mut j = i + 1;
                while j < lines.len() {
                    for c in lines[j].chars() {
                        if c == '{' {
                            depth += 1;
                            seen = true;
                        } else if c == '}' {
                            depth -= 1;
                        }
                    }
                    j += 1;
                    if seen && depth <= 0 {
                        break;
                    }
                }
                i = j;
                continue;
            } else {
                // skip the single item: up to the line that closes its braces (or a `;` line)
                let mut depth = 0i32;
                let mut seen = false;
                let mut j = i + 1;
                while j < lines.len() {
                    for c in lines[j].chars() {
                        if c == '{' {
                            depth += 1;
                            seen = true;
                        } else if c == '}' {
                            depth -= 1;
                        }
                    }
                    let done = (seen && depth <= 0) || (!seen && lines[j].trim_end().ends_with(';'));
                    j += 1;
                    if done {
                        break;
                    }
                }
                i = j;
                continue;
            }
        }
        // strip line comments (none of the scanned idiom lines contain "//" inside a string)
        let code = match lines[i].find("//") {
            Some(p) => &lines[i][..p],
            None => lines[i],
        };
        out.push((i + 1, strip_ws(code)));
        i += 1;
    }
    out
}

struct SiteScan {
    found: usize,
    listed: usize,
    by_class: BTreeMap<String, usize>,
}

fn scan_sites(repo: &str) -> SiteScan {
    let mut scan = SiteScan { found: 0, listed: SITES.len(), by_class: BTreeMap::new() };
    for file in SCANNED {
        let path = format!("{repo}/{file}");
        let src = match std::fs::read_to_string(&path) {
            Ok(s) => s,
            Err(e) => {
                emit_violation_nf("narrowing-site-file-missing", format!("{path}: {e}"), json!({"file": file}));
                continue;
            }
        };
        let lines = production_lines(&src);
        let mut counts: BTreeMap<String, Vec<usize>> = BTreeMap::new();
        for (ln, l) in &lines {
            // `use x::Error as _;` imports a trait anonymously
            if l.starts_with("use") || l.starts_with("pubuse") {
                continue;
            }
            if has_idiom(l) {
                counts.entry(l.clone()).or_default().push(*ln);
            }
        }
        for (text, lns) in &counts {
            scan.found += lns.len();
            match SITES.iter().find(|s| s.0 == *file && s.1 == text) {
                None => emit_violation_nf(
                    &format!("new-narrowing-site:{file}"),
                    format!("{file}:{}: narrowing idiom not in the C19 site table: `{}` (classify it in SITES of harness/src/bin/c19.rs and model it in coq/theories/C19)", lns[0], text),
                    json!({"file": file, "lines": lns, "text": text}),
                ),
                Some(s) => {
                    *scan.by_class.entry(format!("{:?}", s.3)).or_default() += lns.len();
                    if s.4 != lns.len() {
                        emit_violation_nf(
                            &format!("new-narrowing-site:{file}"),
                            format!("{file}: `{}` (site {}) occurs {} times at lines {:?}, the site table knows {}", text, s.2, lns.len(), lns, s.4),
                            json!({"file": file, "lines": lns, "text": text}),
                        );
                    }
                }
            }
        }
        for s in SITES.iter().filter(|s| s.0 == *file) {
            if !counts.contains_key(s.1) {
                emit_violation_nf(
                    &format!("narrowing-site-changed:{}", s.2),
                    format!("{file}: the line of site {} (`{}`) is gone: the site was edited; review it and update the C19 site table and model", s.2, s.1),
                    json!({"file": file, "site": s.2}),
                );
            }
        }
        for s in ARITH_SITES.iter().filter(|s| s.0 == *file) {
            if !lines.iter().any(|(_, l)| l == s.1) {
                emit_violation_nf(
                    &format!("narrowing-site-changed:{}", s.2),
                    format!("{file}: the line of site {} (`{}`) is gone: the site was edited; review it and update the C19 site table and model", s.2, s.1),
                    json!({"file": file, "site": s.2}),
                );
            }
        }
    }
    scan
}

/// the checkout this harness was built against: the path dependency `fontbe` of its Cargo.toml
fn repo_of_this_build() -> Option<String> {
    let toml = std::fs::read_to_string(concat!(env!("CARGO_MANIFEST_DIR"), "/Cargo.toml")).ok()?;
    let line = toml.lines().find(|l| l.trim_start().starts_with("fontbe"))?;
    let path = line.split('"').nth(1)?;
    Some(path.trim_end_matches('/').trim_end_matches("fontbe").trim_end_matches('/').to_string())
}

fn emit_violation_nf(key: &str, desc: String, extra: Value) {
    let mut v = json!({"type":"violation","key":key,"desc":desc,"found_input":false});
    if let Value::Object(m) = extra {
        for (k, x) in m {
            v[k] = x;
        }
    }
    emit(v);
}

// ------------------------------------------------------------------------------------------
// 2. boundary sources
// ------------------------------------------------------------------------------------------

#[derive(Clone, Debug)]
struct Case {
    id: usize,
    kind: &'static str,
    /// probe values (meaning depends on the kind)
    a: f64,
    b: f64,
    n: u64,
    /// how the value was drawn: "boundary" | "near" | "inrange" | "far"
    draw: &'static str,
}

const I16_EDGE: &[f64] = &[
    32766.0, 32767.0, 32767.25, 32767.5, 32768.0, 32769.0, 40000.0, 65535.0, 65536.0, 65541.0, 98309.0, -32767.0, -32768.0, -32768.5,
    -32768.75, -32769.0, -40000.0, -65536.0, -65541.0,
];
const U16_EDGE: &[f64] = &[65534.0, 65535.0, 65535.25, 65535.5, 65536.0, 65537.0, 70000.0, 131072.0, 131077.0, 0.0, -0.25, -0.5, -0.75, -1.0, -40000.0];

fn quarter(rng: &mut Rng, lo: i64, hi: i64) -> f64 {
    rng.range(lo * 4, hi * 4) as f64 / 4.0
}

fn draw_i16(rng: &mut Rng) -> (f64, &'static str) {
    match rng.below(4) {
        0 | 1 => {
            let c = *rng.pick(&[32767.0, -32768.0]);
            (c + quarter(rng, -3, 3), "near")
        }
        2 => (quarter(rng, -32000, 32000), "inrange"),
        _ => {
            let m = quarter(rng, 32769, 200000);
            (if rng.chance(1, 2) { m } else { -m }, "far")
        }
    }
}

fn draw_u16(rng: &mut Rng) -> (f64, &'static str) {
    match rng.below(4) {
        0 | 1 => {
            let c = *rng.pick(&[65535.0, 0.0]);
            (c + quarter(rng, -3, 3), "near")
        }
        2 => (quarter(rng, 1, 65000), "inrange"),
        _ => {
            if rng.chance(2, 3) {
                (quarter(rng, 65537, 300000), "far")
            } else {
                (-quarter(rng, 2, 70000), "far")
            }
        }
    }
}

fn gen_cases(seed: u64, n: usize, tier: &str) -> Vec<Case> {
    let mut rng = Rng::new(seed);
    let mut v: Vec<Case> = Vec::new();
    let push = |kind: &'static str, a: f64, b: f64, n: u64, draw: &'static str, v: &mut Vec<Case>| {
        let id = v.len();
        v.push(Case { id, kind, a, b, n, draw });
    };
    // ---- the documented inputs first (they draw nothing from the PRNG)
    push("adv", 70000.0, 0.0, 0, "boundary", &mut v);
    push("coord", 40000.0, 0.0, 0, "boundary", &mut v);
    push("compoff", 40000.0, 0.0, 0, "boundary", &mut v);
    push("flatscale", 1.5, 1.5, 0, "boundary", &mut v);
    push("comptotal", 700.0, 0.0, 100, "boundary", &mut v);
    push("tsb", -32000.0, 800.0, 0, "boundary", &mut v);
    push("diff", -20000.0, 20000.0, 0, "boundary", &mut v);
    push("seam", -20000.0, 20000.0, 0, "boundary", &mut v);
    // ---- every edge value for every field
    for &x in U16_EDGE {
        push("adv", x, 0.0, 0, "boundary", &mut v);
        push("vadv", x, 0.0, 0, "boundary", &mut v);
    }
    for &x in I16_EDGE {
        push("coord", x, 0.0, 0, "boundary", &mut v);
        push("coord", x, 0.0, 1, "boundary", &mut v);
        push("compoff", x, 0.0, 0, "boundary", &mut v);
        push("compoff", x, 0.0, 1, "boundary", &mut v);
        push("kern", x, 0.0, 0, "boundary", &mut v);
        push("anchor", x, 0.0, 0, "boundary", &mut v);
        push("anchor", x, 0.0, 1, "boundary", &mut v);
        push("hhea", x.round(), 0.0, 0, "boundary", &mut v);
        push("vorig", x.round(), 0.0, 0, "boundary", &mut v);
    }
    // successive differences: both coordinates fit, the difference is at / beyond the limit
    for (lo, hi) in [(-16383.0, 16384.0), (-16384.0, 16384.0), (-16384.0, 16385.0), (-20000.0, 20000.0), (-32768.0, 32767.0), (-32768.0, 0.0), (-32767.0, 0.0), (-1.0, 32767.0), (-32768.0, -1.0)] {
        push("diff", lo, hi, 0, "boundary", &mut v);
        push("diff", lo, hi, 1, "boundary", &mut v);
    }
    // the step across a contour seam: x axis, emitted order ends contour 1 at (a + 100, 0) and starts
    // contour 2 at (b, 0), so the seam step is b - a - 100; y axis: (100, a) -> (0, b), step b - a
    for (a, b) in [(-15000.0, 15000.0), (-16384.0, 16483.0), (-16384.0, 16484.0), (-20000.0, 20000.0), (-32768.0, 32667.0),
                   (15000.0, -15000.0), (16284.0, -16384.0), (16285.0, -16384.0), (20000.0, -20000.0), (32667.0, -32768.0)] {
        push("seam", a, b, 0, "boundary", &mut v);
        push("seam", a, b, 2, "boundary", &mut v);
    }
    for (a, b) in [(-15000.0, 15000.0), (-16384.0, 16383.0), (-16384.0, 16384.0), (-20000.0, 20000.0), (-32768.0, 32667.0),
                   (15000.0, -15000.0), (16384.0, -16384.0), (16385.0, -16384.0), (20000.0, -20000.0), (32667.0, -32768.0)] {
        push("seam", a, b, 1, "boundary", &mut v);
        push("seam", a, b, 3, "boundary", &mut v);
    }
    // off-curve points: the control point of a quadratic segment / of a cubic segment (through
    // cu2qu) is outside i16 while the on-curve points and the curve stay near the origin
    for &x in &[30000.0, 32767.0, 32767.25, 32767.5, 32768.0, 40000.0, 65534.0, 65535.0, 65541.0, 70000.0, 140000.0,
                -30000.0, -32768.0, -32768.5, -32768.75, -32769.0, -40000.0, -65535.0, -70000.0] {
        push("quad", x, 0.0, 0, "boundary", &mut v);
        push("quad", x, 0.0, 1, "boundary", &mut v);
    }
    for &x in &[30000.0, 32766.0, 32767.0, 32769.0, 39999.0, 49152.0, 65535.0, 70002.0, -30000.0, -32766.0, -32769.0, -32772.0, -39999.0, -65535.0] {
        push("cubic", x, 0.0, 0, "boundary", &mut v);
        push("cubic", x, 0.0, 1, "boundary", &mut v);
    }
    // the same control point in a non-default master (default inside)
    for (x0, dv) in [(30000.0, 2000.0), (30000.0, 2767.0), (30000.0, 2768.0), (30000.0, 10000.0), (20000.0, 45535.0), (-30000.0, -2768.0), (-30000.0, -2769.0), (-30000.0, -10000.0), (32768.0, -1000.0)] {
        push("qvar", x0, dv, 0, "boundary", &mut v);
        push("qvar", x0, dv, 1, "boundary", &mut v);
    }
    // component 2x2 entries around +-2
    let q14 = 1.0 / 16384.0;
    for &s in &[1.0, 1.5, 2.0 - q14, 2.0 - q14 / 2.0, 2.0 - q14 / 4.0, 2.0, 2.0 + q14 / 4.0, 2.0 + q14, 2.25, 3.0, 4.0, -1.5, -2.0 + q14, -2.0, -2.0 - q14 / 4.0, -2.0 - q14, -2.25, -4.0] {
        for which in 0..4 {
            push("scale", s, 0.0, which, "boundary", &mut v);
        }
    }
    // nested scales multiplied by --flatten-components
    // (binary fractions only: the model multiplies exactly, f64 rounds e.g. 1.25 * 1.6 to 2.0)
    for (s1, s2) in [(1.25, 1.5), (1.0, 2.0), (1.5, 1.5), (2.0, 1.0), (2.0, 1.25), (2.0, 2.0), (-1.5, 1.5), (-1.0, 2.0), (1.0, 1.0), (0.5, 2.0), (-2.0, -2.0)] {
        push("flatscale", s1, s2, 0, "boundary", &mut v);
    }
    // composite bounding box: offsets fit, the composed extreme does not
    for x in [32600.0, 32667.0, 32668.0, 32700.0, 32767.0, -32668.0, -32669.0, -32768.0] {
        push("compbbox", x, 0.0, 0, "boundary", &mut v);
    }
    // top side bearing = vertical origin - yMax
    for (ymax, origin) in [(-31967.0, 800.0), (-31968.0, 800.0), (-32000.0, 800.0), (-32767.0, 1.0), (-32767.0, 0.0), (32767.0, -1.0), (32767.0, -2.0), (32767.0, -32768.0), (100.0, 800.0)] {
        push("tsb", ymax, origin, 0, "boundary", &mut v);
    }
    // variation deltas: both masters fit, the delta is at / beyond the limit
    for (d0, dv) in [(100.0, 32767.0), (100.0, 32768.0), (100.0, 40000.0), (100.0, 65435.0), (40000.0, -32768.0), (40000.0, -32769.0), (40000.0, -40000.0), (500.0, 100.0)] {
        push("hvar", d0, dv, 0, "boundary", &mut v);
    }
    for (x0, dv) in [(-16383.0, 32767.0), (-16384.0, 32768.0), (-20000.0, 40000.0), (-32768.0, 65535.0), (16384.0, -32768.0), (16385.0, -32769.0), (20000.0, -40000.0), (100.0, 50.0), (32767.0, -65535.0), (-5.0, 32772.0)] {
        push("gvar", x0, dv, 0, "boundary", &mut v);
        push("compdelta", x0, dv, 0, "boundary", &mut v);
    }
    // composite totals (components x points of the component)
    for (k, m) in [(255u64, 257.0), (256, 256.0), (93, 700.0), (94, 700.0)] {
        push("comptotal", m, 0.0, k, "boundary", &mut v);
    }
    // points in one glyph
    for np in [65535u64, 65536, 65537] {
        push("npoints", 0.0, 0.0, np, "boundary", &mut v);
    }
    if tier == "thorough" {
        for (k, m) in [(2u64, 32768.0), (3, 21845.0), (1, 65535.0), (300, 300.0)] {
            push("comptotal", m, 0.0, k, "boundary", &mut v);
        }
        push("npoints", 0.0, 0.0, 65534, "boundary", &mut v);
        push("npoints", 0.0, 0.0, 70000, "boundary", &mut v);
        push("npoints", 0.0, 0.0, 131073, "boundary", &mut v);
        for nc in [32766u64, 32767, 32768] {
            push("ncontours", 0.0, 0.0, nc, "boundary", &mut v);
        }
        push("nglyphs", 0.0, 0.0, 65535, "boundary", &mut v);
        push("nglyphs", 0.0, 0.0, 65536, "boundary", &mut v);
        push("nglyphs", 1.0, 0.0, 65536, "boundary", &mut v);
        push("nglyphs", 0.0, 0.0, 65537, "boundary", &mut v);
    }
    for w in [0u64, 1, 5, 9, 10, 11, 65535] {
        push("widthclass", 0.0, 0.0, w, "boundary", &mut v);
    }
    // ---- seeded draws
    for _ in 0..n {
        match rng.below(14) {
            13 => {
                let (x, d) = draw_i16(&mut rng);
                let kind = *rng.pick(&["quad", "quad", "cubic"]);
                push(kind, if kind == "cubic" { x.round() } else { x }, 0.0, rng.below(2), d, &mut v);
            }
            12 => {
                // two boxes whose coordinates fit; the seam step may not
                let a = quarter(&mut rng, -32768, 32667);
                let b = if rng.chance(1, 2) { (a + if a < 0.0 { 32767.0 } else { -32768.0 } + quarter(&mut rng, -102, 102)).clamp(-32768.0, 32667.0) } else { quarter(&mut rng, -32768, 32667) };
                let n = rng.below(4);
                let step = if n & 1 == 0 { b - a - 100.0 } else { b - a };
                let d = if (-32768.0..=32767.0).contains(&step.round()) { "inrange" } else { "far" };
                push("seam", a, b, n, d, &mut v);
            }
            0 => {
                let (x, d) = draw_u16(&mut rng);
                push("adv", x, 0.0, 0, d, &mut v);
            }
            1 => {
                let (x, d) = draw_u16(&mut rng);
                push("vadv", x, 0.0, 0, d, &mut v);
            }
            2 => {
                let (x, d) = draw_i16(&mut rng);
                push("coord", x, 0.0, rng.below(2), d, &mut v);
            }
            3 => {
                let (x, d) = draw_i16(&mut rng);
                push("compoff", x, 0.0, rng.below(2), d, &mut v);
            }
            4 => {
                let (x, d) = draw_i16(&mut rng);
                push("kern", x, 0.0, 0, d, &mut v);
            }
            5 => {
                let (x, d) = draw_i16(&mut rng);
                push("anchor", x, 0.0, rng.below(2), d, &mut v);
            }
            6 => {
                // two coordinates that fit; their difference may not
                let lo = -quarter(&mut rng, 0, 32768);
                let hi = if rng.chance(1, 2) { (32767.0 + lo + quarter(&mut rng, -2, 2)).clamp(0.0, 32767.0) } else { quarter(&mut rng, 0, 32767) };
                let d = if hi - lo > 32767.0 { "far" } else { "inrange" };
                push("diff", lo, hi, rng.below(2), d, &mut v);
            }
            7 => {
                let s = match rng.below(3) {
                    0 => 2.0 + rng.range(-8, 8) as f64 / 65536.0,
                    1 => -2.0 + rng.range(-8, 8) as f64 / 65536.0,
                    _ => rng.range(-5 * 16384, 5 * 16384) as f64 / 16384.0,
                };
                let d = if s.abs() > 2.0 { "far" } else { "inrange" };
                push("scale", s, 0.0, rng.below(4), d, &mut v);
            }
            8 => {
                let s1 = rng.range(-32, 32) as f64 / 16.0;
                let s2 = rng.range(4, 32) as f64 / 16.0;
                let d = if (s1 * s2).abs() > 2.0 { "far" } else { "inrange" };
                push("flatscale", s1, s2, 0, d, &mut v);
            }
            9 => {
                let d0 = quarter(&mut rng, 0, 65535).round();
                let d1 = quarter(&mut rng, 0, 65535).round();
                let d = if (d1 - d0).abs() > 32767.0 { "far" } else { "inrange" };
                push("hvar", d0, d1 - d0, 0, d, &mut v);
            }
            10 => {
                let x0 = quarter(&mut rng, -32768, 32767).round();
                let x1 = quarter(&mut rng, -32768, 32767).round();
                let d = if (x1 - x0).abs() > 32767.0 { "far" } else { "inrange" };
                push(if rng.chance(1, 2) { "gvar" } else { "compdelta" }, x0, x1 - x0, 0, d, &mut v);
            }
            _ => {
                let (x, d) = draw_i16(&mut rng);
                if rng.chance(1, 2) {
                    push("hhea", x.round(), 0.0, rng.below(3), d, &mut v);
                } else {
                    push("vorig", x.round(), 0.0, 0, d, &mut v);
                }
            }
        }
    }
    v
}

// ---- source construction ---------------------------------------------------------------

fn order(names: &[&str]) -> Option<Vec<String>> {
    Some(names.iter().map(|s| s.to_string()).collect())
}

fn int_plist(v: f64) -> String {
    format!("<integer>{}</integer>", v as i64)
}

fn vert_info(typo_asc: f64) -> Vec<(String, String)> {
    vec![
        ("openTypeVheaVertTypoAscender".into(), int_plist(500.0)),
        ("openTypeVheaVertTypoDescender".into(), int_plist(-500.0)),
        ("openTypeVheaVertTypoLineGap".into(), int_plist(0.0)),
        ("openTypeOS2TypoAscender".into(), int_plist(typo_asc)),
        ("openTypeOS2TypoDescender".into(), int_plist(-200.0)),
    ]
}

/// contour of a rectangle as the UFO lists it (counter-clockwise, starting bottom left)
fn rect(x0: f64, y0: f64, x1: f64, y1: f64) -> Vec<(f64, f64, Pt)> {
    vec![(x0, y0, Pt::Line), (x1, y0, Pt::Line), (x1, y1, Pt::Line), (x0, y1, Pt::Line)]
}

/// the contours of glyph "a" for the coordinate kinds (source order)
fn coord_contours(c: &Case) -> Vec<Vec<(f64, f64)>> {
    match c.kind {
        "coord" => {
            // a small rectangle that touches the probed coordinate, lying towards the origin
            let v = c.a;
            let w = if v >= 0.0 { v - 100.0 } else { v + 100.0 };
            let (p, q) = (v.min(w), v.max(w));
            if c.n == 0 { vec![vec![(p, 0.0), (q, 0.0), (q, 100.0), (p, 100.0)]] } else { vec![vec![(0.0, p), (100.0, p), (100.0, q), (0.0, q)]] }
        }
        "diff" => {
            let (lo, hi) = (c.a, c.b);
            if c.n == 0 { vec![vec![(lo, 0.0), (hi, 0.0), (hi, 100.0), (lo, 100.0)]] } else { vec![vec![(0.0, lo), (100.0, lo), (100.0, hi), (0.0, hi)]] }
        }
        "tsb" => {
            let lo = (c.a - 100.0).max(-32768.0);
            vec![vec![(0.0, lo), (100.0, lo), (100.0, c.a), (0.0, c.a)]]
        }
        "seam" => {
            // two (n & 2: three) 100-unit boxes, the first at c.a, the second at c.b along the
            // axis n & 1 (the third at the origin): every coordinate and every step inside a
            // contour is small or fits, the step from the last point of one contour to the first
            // point of the next (which glyf stores as a delta like any other) may not
            let boxat = |o: f64| if c.n & 1 == 0 { vec![(o, 0.0), (o + 100.0, 0.0), (o + 100.0, 100.0), (o, 100.0)] } else { vec![(0.0, o), (100.0, o), (100.0, o + 100.0), (0.0, o + 100.0)] };
            let mut cs = vec![boxat(c.a), boxat(c.b)];
            if c.n & 2 != 0 {
                cs.push(boxat(0.0));
            }
            cs
        }
        _ => unreachable!(),
    }
}

/// The contour of the curve kinds, in source order: p0 (line), p1 (line), control point(s) (off
/// curve), p2 (qcurve / curve).  The first segment p0 -> p1 is a line, so that after the
/// direction reversal the contour still closes with a line and is emitted as p0, p2, controls
/// reversed, p1 (every point kept).  The control points carry the probed coordinate `v` on the
/// axis `n & 1`; the on-curve points and the curve itself stay near the origin.
fn curve_contour(kind: &str, v: f64, n: u64) -> Vec<(f64, f64, Pt)> {
    let sw = |x: f64, y: f64, t: Pt| if n & 1 == 0 { (x, y, t) } else { (y, x, t) };
    match kind {
        "quad" | "qvar" => vec![sw(-100.0, 500.0, Pt::Line), sw(0.0, 0.0, Pt::Line), sw(v, 500.0, Pt::Off), sw(0.0, 1000.0, Pt::QCurve)],
        // the cubic is the degree-elevated quadratic (0,0) -> control (v, 750) -> (0, 1500): its own
        // control points are at 2v/3, cu2qu turns it back into one quadratic with the control at v
        _ => vec![sw(-100.0, 500.0, Pt::Line), sw(0.0, 0.0, Pt::Line), sw(2.0 * v / 3.0, 500.0, Pt::Off), sw(2.0 * v / 3.0, 1000.0, Pt::Off), sw(0.0, 1500.0, Pt::Curve)],
    }
}

/// what kurbo's cu2qu (the converter fontbe calls, same tolerance upem / 1000) makes of the cubic
/// segment of the "cubic" contour: the control points of the quadratic spline
fn cubic_expected_off_points(v: f64, n: u64) -> Option<Vec<(f64, f64)>> {
    let c = curve_contour("cubic", v, n);
    let p = |i: usize| kurbo::Point::new(c[i].0, c[i].1);
    let cubic = kurbo::CubicBez { p0: p(1), p1: p(2), p2: p(3), p3: p(4) };
    let splines = kurbo::cubics_to_quadratic_splines(&[cubic], 1.0)?;
    let pts = splines[0].points();
    Some(pts[1..pts.len() - 1].iter().map(|q| (q.x, q.y)).collect())
}

fn to_contours(cs: &[Vec<(f64, f64)>]) -> Vec<Vec<(f64, f64, Pt)>> {
    cs.iter().map(|c| c.iter().map(|(x, y)| (*x, *y, Pt::Line)).collect()).collect()
}

fn zigzag(np: u64) -> Vec<(f64, f64, Pt)> {
    // np distinct on-curve points, successive differences small, no two equal neighbours
    (0..np)
        .map(|i| {
            let col = (i % 20000) as f64;
            let row = (i / 20000) as f64;
            (col, row * 40.0 + (i % 2) as f64 * 10.0, Pt::Line)
        })
        .collect()
}

fn base_pos() -> GlyphSrc {
    let mut g = GlyphSrc::new("ap", 600.0);
    g.contours.push(rect(0.0, 0.0, 100.0, 100.0));
    g
}
fn base_neg() -> GlyphSrc {
    let mut g = GlyphSrc::new("an", 600.0);
    g.contours.push(rect(-100.0, -100.0, 0.0, 0.0));
    g
}

fn two_masters(family: &str, g0: Vec<GlyphSrc>, g1: Vec<GlyphSrc>, names: &[&str]) -> Design {
    let m = |name: &str, w: f64, glyphs: Vec<GlyphSrc>| Master {
        name: name.into(),
        style: name.into(),
        location: vec![("Weight".into(), w)],
        glyphs,
        glyph_order: order(names),
        ..Default::default()
    };
    Design {
        family: family.into(),
        upem: 1000,
        axes: vec![AxisSrc { name: "Weight".into(), tag: "wght".into(), min: 400.0, default: 400.0, max: 700.0, ..Default::default() }],
        masters: vec![m("Regular", 400.0, g0), m("Bold", 700.0, g1)],
        ..Default::default()
    }
}

struct Source {
    design: Design,
    flags: Option<fontir::orchestration::Flags>,
}

fn build_source(c: &Case) -> Option<Source> {
    use fontir::orchestration::Flags;
    let single = |glyphs: Vec<GlyphSrc>, names: &[&str]| {
        let mut d = Design::single("C19", glyphs);
        d.masters[0].glyph_order = order(names);
        d
    };
    let mut flags = None;
    let design = match c.kind {
        "adv" => {
            let mut a = GlyphSrc::new("a", c.a).uni(0x61);
            a.contours.push(rect(0.0, 0.0, 100.0, 100.0));
            let mut b = GlyphSrc::new("b", 600.0).uni(0x62);
            b.contours.push(rect(0.0, 0.0, 100.0, 100.0));
            single(vec![a, b], &["a", "b"])
        }
        "coord" | "diff" | "seam" => {
            let mut a = GlyphSrc::new("a", 600.0).uni(0x61);
            a.contours = to_contours(&coord_contours(c));
            single(vec![a], &["a"])
        }
        "compoff" | "compbbox" => {
            let (dx, dy) = if c.n == 0 { (c.a, 0.0) } else { (0.0, c.a) };
            // the base lies on the side of the origin so that the composed extreme fits when
            // the offset does ("compoff"), or on the far side ("compbbox")
            let towards = (c.a >= 0.0) == (c.kind == "compoff");
            let base = if towards { "an" } else { "ap" };
            let comp = GlyphSrc::new("c", 600.0).uni(0x63).comp(base, [1.0, 0.0, 0.0, 1.0, dx, dy]);
            single(vec![base_pos(), base_neg(), comp], &["ap", "an", "c"])
        }
        "scale" => {
            let mut t = [1.0, 0.0, 0.0, 1.0, 0.0, 0.0];
            t[c.n as usize] = c.a;
            let comp = GlyphSrc::new("c", 600.0).uni(0x63).comp("ap", t).comp("ap", [1.0, 0.0, 0.0, 1.0, 300.0, 0.0]);
            single(vec![base_pos(), comp], &["ap", "c"])
        }
        "flatscale" => {
            flags = Some(Flags::default() | Flags::FLATTEN_COMPONENTS);
            let b = GlyphSrc::new("b", 600.0).uni(0x62).comp("ap", [c.b, 0.0, 0.0, c.b, 0.0, 0.0]).comp("ap", [1.0, 0.0, 0.0, 1.0, 300.0, 0.0]);
            let cc = GlyphSrc::new("c", 600.0).uni(0x63).comp("b", [c.a, 0.0, 0.0, c.a, 0.0, 0.0]).comp("ap", [1.0, 0.0, 0.0, 1.0, 0.0, 300.0]);
            single(vec![base_pos(), b, cc], &["ap", "b", "c"])
        }
        "kern" => {
            let mut a = GlyphSrc::new("a", 600.0).uni(0x61);
            a.contours.push(rect(0.0, 0.0, 100.0, 100.0));
            let mut b = GlyphSrc::new("b", 600.0).uni(0x62);
            b.contours.push(rect(0.0, 0.0, 100.0, 100.0));
            let mut d = single(vec![a, b], &["a", "b"]);
            d.masters[0].kerning = vec![("a".into(), "b".into(), c.a)];
            d
        }
        "anchor" => {
            let (x, y) = if c.n == 0 { (c.a, 700.0) } else { (300.0, c.a) };
            let mut a = GlyphSrc::new("a", 600.0).uni(0x61).anchor("top", x, y);
            a.contours.push(rect(0.0, 0.0, 100.0, 100.0));
            let mut m = GlyphSrc::new("acutecomb", 0.0).uni(0x301).anchor("_top", 50.0, 500.0);
            m.contours.push(rect(0.0, 500.0, 100.0, 600.0));
            single(vec![a, m], &["a", "acutecomb"])
        }
        "vadv" => {
            let mut a = GlyphSrc::new("a", 600.0).uni(0x61);
            a.height = Some(c.a);
            a.contours.push(rect(0.0, 0.0, 100.0, 100.0));
            let mut d = single(vec![a], &["a"]);
            d.masters[0].fontinfo = vert_info(800.0);
            d
        }
        "vorig" => {
            let mut a = GlyphSrc::new("a", 600.0).uni(0x61);
            a.height = Some(1000.0);
            // yMax = 0 so that the top side bearing is the vertical origin itself
            a.contours.push(rect(0.0, -100.0, 100.0, 0.0));
            let mut d = single(vec![a], &["a"]);
            d.masters[0].fontinfo = vert_info(c.a);
            d
        }
        "tsb" => {
            let mut a = GlyphSrc::new("a", 600.0).uni(0x61);
            a.height = Some(1000.0);
            a.contours = to_contours(&coord_contours(c));
            let mut d = single(vec![a], &["a"]);
            d.masters[0].fontinfo = vert_info(c.b);
            d
        }
        "hhea" => {
            let mut a = GlyphSrc::new("a", 600.0).uni(0x61);
            a.contours.push(rect(0.0, 0.0, 100.0, 100.0));
            let mut d = single(vec![a], &["a"]);
            let key = ["openTypeHheaAscender", "openTypeHheaDescender", "openTypeHheaLineGap"][c.n as usize];
            d.masters[0].fontinfo = vec![(key.into(), int_plist(c.a))];
            d
        }
        "quad" | "cubic" => {
            let mut a = GlyphSrc::new("a", 600.0).uni(0x61);
            a.contours.push(curve_contour(c.kind, c.a, c.n));
            single(vec![a], &["a"])
        }
        "qvar" => {
            let g = |v: f64| {
                let mut a = GlyphSrc::new("a", 600.0).uni(0x61);
                a.contours.push(curve_contour("qvar", v, c.n));
                vec![a]
            };
            two_masters("C19V", g(c.a), g(c.a + c.b), &["a"])
        }
        "hvar" => {
            let g = |adv: f64| {
                let mut a = GlyphSrc::new("a", adv).uni(0x61);
                a.contours.push(rect(0.0, 0.0, 100.0, 100.0));
                vec![a]
            };
            two_masters("C19V", g(c.a), g(c.a + c.b), &["a"])
        }
        "gvar" => {
            let g = |x: f64| {
                let mut a = GlyphSrc::new("a", 600.0).uni(0x61);
                a.contours.push(vec![(0.0, 0.0, Pt::Line), (x, 0.0, Pt::Line), (x, 100.0, Pt::Line), (0.0, 100.0, Pt::Line)]);
                vec![a]
            };
            two_masters("C19V", g(c.a), g(c.a + c.b), &["a"])
        }
        "compdelta" => {
            let g = |x: f64| {
                // the base is a unit square at the origin, so the composed extreme is the offset (+1)
                let cc = GlyphSrc::new("c", 600.0).uni(0x63).comp("az", [1.0, 0.0, 0.0, 1.0, x, 0.0]);
                let mut az = GlyphSrc::new("az", 600.0);
                az.contours.push(rect(0.0, 0.0, 1.0, 1.0));
                vec![az, cc]
            };
            two_masters("C19V", g(c.a), g(c.a + c.b), &["az", "c"])
        }
        "comptotal" => {
            let m = c.a as u64;
            let mut a = GlyphSrc::new("a", 600.0).uni(0x61);
            a.contours.push(zigzag(m));
            let mut cc = GlyphSrc::new("c", 600.0).uni(0x63);
            for i in 0..c.n {
                cc = cc.comp("a", [1.0, 0.0, 0.0, 1.0, (i % 100) as f64, (i / 100) as f64]);
            }
            single(vec![a, cc], &["a", "c"])
        }
        "npoints" => {
            let mut a = GlyphSrc::new("a", 600.0).uni(0x61);
            a.contours.push(zigzag(c.n));
            single(vec![a], &["a"])
        }
        "ncontours" => {
            // c.n two-point contours
            let mut a = GlyphSrc::new("a", 600.0).uni(0x61);
            for i in 0..c.n {
                let (x, y) = ((i % 200) as f64 * 10.0, (i / 200) as f64 * 10.0);
                a.contours.push(vec![(x, y, Pt::Line), (x + 5.0, y + 5.0, Pt::Line)]);
            }
            single(vec![a], &["a"])
        }
        "nglyphs" => {
            // c.n glyphs in the font including the synthesised .notdef; c.a = 1: distinct advances
            let mut glyphs = Vec::new();
            for i in 0..(c.n - 1) {
                let adv = if c.a == 1.0 { 500.0 + (i % 2) as f64 } else { 600.0 };
                glyphs.push(GlyphSrc::new(&format!("g{i}"), adv));
            }
            let names: Vec<String> = glyphs.iter().map(|g| g.name.clone()).collect();
            let mut d = Design::single("C19", glyphs);
            d.masters[0].glyph_order = Some(names);
            d
        }
        _ => return None,
    };
    Some(Source { design, flags })
}

// ---- observation -----------------------------------------------------------------------

#[derive(Clone, Debug, PartialEq)]
struct Obs {
    /// "font" | "error" | "panic"
    class: String,
    msg: String,
    fields: Vec<i64>,
    sha: u64,
}

fn fnv(b: &[u8]) -> u64 {
    let mut h = 0xcbf29ce484222325u64;
    for x in b {
        h ^= *x as u64;
        h = h.wrapping_mul(0x100000001b3);
    }
    h
}

#[derive(Debug, Clone)]
enum Body {
    Empty,
    Simple { bbox: [i64; 4], ends: Vec<i64>, pts: Vec<(i64, i64)>, on: Vec<i64> },
    Composite { bbox: [i64; 4], comps: Vec<[i64; 7]> },
}

/// glyf entry decoded the way a rasteriser does: coordinate deltas accumulate without wrapping
fn parse_glyph(d: &[u8]) -> Option<Body> {
    if d.is_empty() {
        return Some(Body::Empty);
    }
    let nc = bei16(d, 0)?;
    let bbox = [bei16(d, 2)? as i64, bei16(d, 4)? as i64, bei16(d, 6)? as i64, bei16(d, 8)? as i64];
    if nc >= 0 {
        let nc = nc as usize;
        let mut ends = Vec::new();
        for i in 0..nc {
            ends.push(be16(d, 10 + 2 * i)? as i64);
        }
        let npts = ends.last().map(|e| *e as usize + 1).unwrap_or(0);
        let ilen = be16(d, 10 + 2 * nc)? as usize;
        let mut o = 12 + 2 * nc + ilen;
        let mut flags = Vec::with_capacity(npts);
        while flags.len() < npts {
            let f = *d.get(o)?;
            o += 1;
            flags.push(f);
            if f & 8 != 0 {
                let r = *d.get(o)?;
                o += 1;
                for _ in 0..r {
                    flags.push(f);
                }
            }
        }
        flags.truncate(npts);
        let mut xs = Vec::with_capacity(npts);
        let mut x = 0i64;
        for f in &flags {
            if f & 2 != 0 {
                let v = *d.get(o)? as i64;
                o += 1;
                x += if f & 16 != 0 { v } else { -v };
            } else if f & 16 == 0 {
                x += bei16(d, o)? as i64;
                o += 2;
            }
            xs.push(x);
        }
        let mut pts = Vec::with_capacity(npts);
        let mut y = 0i64;
        for (i, f) in flags.iter().enumerate() {
            if f & 4 != 0 {
                let v = *d.get(o)? as i64;
                o += 1;
                y += if f & 32 != 0 { v } else { -v };
            } else if f & 32 == 0 {
                y += bei16(d, o)? as i64;
                o += 2;
            }
            pts.push((xs[i], y));
        }
        let on = flags.iter().map(|f| (f & 1) as i64).collect();
        Some(Body::Simple { bbox, ends, pts, on })
    } else {
        let mut o = 10;
        let mut comps = Vec::new();
        loop {
            let flags = be16(d, o)?;
            let gid = be16(d, o + 2)? as i64;
            o += 4;
            let (a1, a2);
            if flags & 1 != 0 {
                a1 = bei16(d, o)? as i64;
                a2 = bei16(d, o + 2)? as i64;
                o += 4;
            } else {
                a1 = *d.get(o)? as i8 as i64;
                a2 = *d.get(o + 1)? as i8 as i64;
                o += 2;
            }
            let mut m = [16384i64, 0, 0, 16384];
            if flags & 0x08 != 0 {
                let s = bei16(d, o)? as i64;
                o += 2;
                m = [s, 0, 0, s];
            } else if flags & 0x40 != 0 {
                m = [bei16(d, o)? as i64, 0, 0, bei16(d, o + 2)? as i64];
                o += 4;
            } else if flags & 0x80 != 0 {
                // file order xscale, scale01, scale10, yscale = xx, yx, xy, yy
                m = [bei16(d, o)? as i64, bei16(d, o + 2)? as i64, bei16(d, o + 4)? as i64, bei16(d, o + 6)? as i64];
                o += 8;
            }
            comps.push([gid, a1, a2, m[0], m[1], m[2], m[3]]);
            if flags & 0x20 == 0 {
                break;
            }
        }
        Some(Body::Composite { bbox, comps })
    }
}

struct Font<'a> {
    bytes: &'a [u8],
    num_glyphs: usize,
    loca: Vec<u32>,
}

impl<'a> Font<'a> {
    fn new(bytes: &'a [u8]) -> Option<Self> {
        let maxp = table(bytes, b"maxp")?;
        let num_glyphs = be16(maxp, 4)? as usize;
        let head = table(bytes, b"head")?;
        let long = bei16(head, 50)? != 0;
        let loca_t = table(bytes, b"loca")?;
        let n = if long { loca_t.len() / 4 } else { loca_t.len() / 2 };
        let mut loca = Vec::with_capacity(n);
        for i in 0..n {
            loca.push(if long { be32(loca_t, 4 * i)? } else { be16(loca_t, 2 * i)? * 2 });
        }
        Some(Font { bytes, num_glyphs, loca })
    }
    fn glyph(&self, gid: usize) -> Option<Body> {
        let glyf = table(self.bytes, b"glyf")?;
        let (s, e) = (*self.loca.get(gid)? as usize, *self.loca.get(gid + 1)? as usize);
        parse_glyph(glyf.get(s..e)?)
    }
    fn maxp(&self, field: usize) -> Option<i64> {
        // 0 numGlyphs 1 maxPoints 2 maxContours 3 maxCompositePoints 4 maxCompositeContours .. 12 maxComponentElements 13 maxComponentDepth
        Some(be16(table(self.bytes, b"maxp")?, 4 + 2 * field)? as i64)
    }
    fn head_bbox(&self) -> Option<[i64; 4]> {
        let h = table(self.bytes, b"head")?;
        Some([bei16(h, 36)? as i64, bei16(h, 38)? as i64, bei16(h, 40)? as i64, bei16(h, 42)? as i64])
    }
    /// (advance, side bearing) of a glyph from hmtx/vmtx
    fn metric(&self, mtx: &[u8; 4], hea: &[u8; 4], gid: usize) -> Option<(i64, i64)> {
        let hea = table(self.bytes, hea)?;
        let nlong = be16(hea, 34)? as usize;
        let t = table(self.bytes, mtx)?;
        if nlong == 0 {
            return None;
        }
        if gid < nlong {
            Some((be16(t, 4 * gid)? as i64, bei16(t, 4 * gid + 2)? as i64))
        } else {
            Some((be16(t, 4 * (nlong - 1))? as i64, bei16(t, 4 * nlong + 2 * (gid - nlong))? as i64))
        }
    }
    fn hea(&self, hea: &[u8; 4], off: usize, signed: bool) -> Option<i64> {
        let t = table(self.bytes, hea)?;
        Some(if signed { bei16(t, off)? as i64 } else { be16(t, off)? as i64 })
    }
}

fn dump_body(b: &Body, out: &mut Vec<i64>) {
    match b {
        Body::Empty => out.push(-1),
        Body::Simple { bbox, ends, pts, .. } => {
            out.push(0);
            out.push(ends.len() as i64);
            out.extend(ends.iter());
            out.push(pts.len() as i64);
            for (x, y) in pts {
                out.push(*x);
                out.push(*y);
            }
            out.extend(bbox.iter());
        }
        Body::Composite { bbox, comps } => {
            out.push(1);
            out.push(comps.len() as i64);
            for c in comps {
                out.extend(c.iter());
            }
            out.extend(bbox.iter());
        }
    }
}

// ---- GPOS (hand decoded) -----------------------------------------------------------------

fn value_record_len(fmt: u32) -> usize {
    (fmt & 0xff).count_ones() as usize * 2
}

/// x advance of the first pair of the first PairPos format 1 subtable
fn gpos_first_pair_xadvance(bytes: &[u8]) -> Option<i64> {
    let g = table(bytes, b"GPOS")?;
    let ll = be16(g, 8)? as usize;
    let nl = be16(g, ll)? as usize;
    for i in 0..nl {
        let lo = ll + be16(g, ll + 2 + 2 * i)? as usize;
        let mut ty = be16(g, lo)?;
        let ns = be16(g, lo + 4)? as usize;
        for k in 0..ns {
            let mut so = lo + be16(g, lo + 6 + 2 * k)? as usize;
            if ty == 9 {
                let ety = be16(g, so + 2)?;
                so += be32(g, so + 4)? as usize;
                if ety != 2 {
                    continue;
                }
                ty = 2;
            }
            if ty != 2 {
                continue;
            }
            let fmt = be16(g, so)?;
            let vf1 = be16(g, so + 4)?;
            let vf2 = be16(g, so + 6)?;
            if fmt == 1 {
                let nsets = be16(g, so + 8)? as usize;
                if nsets == 0 {
                    continue;
                }
                let ps = so + be16(g, so + 10)? as usize;
                let _npairs = be16(g, ps)?;
                let rec = ps + 2;
                // secondGlyph, value1
                let mut o = rec + 2;
                if vf1 & 1 != 0 {
                    o += 2;
                }
                if vf1 & 2 != 0 {
                    o += 2;
                }
                if vf1 & 4 == 0 {
                    return None;
                }
                let _ = vf2;
                return Some(bei16(g, o)? as i64);
            } else if fmt == 2 {
                // class based: class1Count x class2Count records; take record [class of first][class of second]:
                // the generators use one pair only, so the (only) non-zero record is the value
                let c1 = be16(g, so + 12)? as usize;
                let c2 = be16(g, so + 14)? as usize;
                let rl = value_record_len(vf1) + value_record_len(vf2);
                let mut found = None;
                for r in 0..c1 * c2 {
                    let mut o = so + 16 + r * rl;
                    if vf1 & 1 != 0 {
                        o += 2;
                    }
                    if vf1 & 2 != 0 {
                        o += 2;
                    }
                    if vf1 & 4 != 0 {
                        let v = bei16(g, o)? as i64;
                        if v != 0 {
                            found = Some(v);
                        }
                    }
                }
                return found.or(Some(0));
            }
        }
    }
    None
}

/// (base anchor x, y, mark anchor x, y) of the first MarkBasePos subtable
fn gpos_first_mark_base(bytes: &[u8]) -> Option<[i64; 4]> {
    let g = table(bytes, b"GPOS")?;
    let ll = be16(g, 8)? as usize;
    let nl = be16(g, ll)? as usize;
    for i in 0..nl {
        let lo = ll + be16(g, ll + 2 + 2 * i)? as usize;
        let mut ty = be16(g, lo)?;
        let ns = be16(g, lo + 4)? as usize;
        for k in 0..ns {
            let mut so = lo + be16(g, lo + 6 + 2 * k)? as usize;
            if ty == 9 {
                let ety = be16(g, so + 2)?;
                so += be32(g, so + 4)? as usize;
                if ety != 4 {
                    continue;
                }
                ty = 4;
            }
            if ty != 4 {
                continue;
            }
            let ncls = be16(g, so + 6)? as usize;
            let ma = so + be16(g, so + 8)? as usize;
            let ba = so + be16(g, so + 10)? as usize;
            if ncls == 0 || be16(g, ma)? == 0 || be16(g, ba)? == 0 {
                continue;
            }
            let manchor = ma + be16(g, ma + 4)? as usize;
            let banchor = ba + be16(g, ba + 2)? as usize;
            return Some([bei16(g, banchor + 2)? as i64, bei16(g, banchor + 4)? as i64, bei16(g, manchor + 2)? as i64, bei16(g, manchor + 4)? as i64]);
        }
    }
    None
}

// ---- variable fonts through skrifa (the consumer's view at a location) -----------------------

struct PtsPen(Vec<(f32, f32)>);
impl skrifa::outline::OutlinePen for PtsPen {
    fn move_to(&mut self, x: f32, y: f32) {
        self.0.push((x, y));
    }
    fn line_to(&mut self, x: f32, y: f32) {
        self.0.push((x, y));
    }
    fn quad_to(&mut self, cx: f32, cy: f32, x: f32, y: f32) {
        self.0.push((cx, cy));
        self.0.push((x, y));
    }
    fn curve_to(&mut self, a: f32, b: f32, c: f32, d: f32, x: f32, y: f32) {
        self.0.push((a, b));
        self.0.push((c, d));
        self.0.push((x, y));
    }
    fn close(&mut self) {}
}

/// x extent (xmin, xmax) of the outline of glyph `gid` at wght = `w`, as skrifa draws it
fn skrifa_at(bytes: &[u8], gid: u32, w: f32) -> Option<Vec<i64>> {
    use skrifa::instance::Size;
    use skrifa::outline::DrawSettings;
    use skrifa::{FontRef, GlyphId, MetadataProvider};
    let font = FontRef::new(bytes).ok()?;
    let loc = font.axes().location([("wght", w)]);
    let g = font.outline_glyphs().get(GlyphId::new(gid))?;
    let mut pen = PtsPen(Vec::new());
    g.draw(DrawSettings::unhinted(Size::unscaled(), &loc), &mut pen).ok()?;
    if pen.0.is_empty() {
        return Some(vec![0, 0]);
    }
    let xs = pen.0.iter().map(|p| p.0);
    Some(vec![xs.clone().fold(f32::INFINITY, f32::min).round() as i64, xs.fold(f32::NEG_INFINITY, f32::max).round() as i64])
}

/// extent (min, max) along x (or y) of everything skrifa's pen receives for glyph `gid` at
/// wght = `w`: on-curve and control points
fn skrifa_extent(bytes: &[u8], gid: u32, w: f32, y_axis: bool) -> Option<Vec<i64>> {
    use skrifa::instance::Size;
    use skrifa::outline::DrawSettings;
    use skrifa::{FontRef, GlyphId, MetadataProvider};
    let font = FontRef::new(bytes).ok()?;
    let loc = font.axes().location([("wght", w)]);
    let g = font.outline_glyphs().get(GlyphId::new(gid))?;
    let mut pen = PtsPen(Vec::new());
    g.draw(DrawSettings::unhinted(Size::unscaled(), &loc), &mut pen).ok()?;
    if pen.0.is_empty() {
        return Some(vec![0, 0]);
    }
    let vs = pen.0.iter().map(|p| if y_axis { p.1 } else { p.0 });
    Some(vec![vs.clone().fold(f32::INFINITY, f32::min).round() as i64, vs.fold(f32::NEG_INFINITY, f32::max).round() as i64])
}

/// hmtx advance of `gid` plus the HVAR delta at normalized wght = 1 (item variation store
/// evaluated in i32 by read-fonts)
fn hvar_advance_at_max(bytes: &[u8], gid: u16) -> Option<i64> {
    use write_fonts::read::tables::variations::DeltaSetIndex;
    use write_fonts::read::types::{F2Dot14, GlyphId};
    use write_fonts::read::{FontRef, TableProvider};
    let f = Font::new(bytes)?;
    let base = f.metric(b"hmtx", b"hhea", gid as usize)?.0;
    let font = FontRef::new(bytes).ok()?;
    let hvar = font.hvar().ok()?;
    let idx = match hvar.advance_width_mapping() {
        Some(m) => m.ok()?.get(gid as u32).ok()?,
        None => DeltaSetIndex { outer: 0, inner: gid },
    };
    let _ = GlyphId::new(gid as u32);
    let d = hvar.item_variation_store().ok()?.compute_delta(idx, &[F2Dot14::from_f32(1.0)]).ok()?;
    Some(base + d as i64)
}

/// decoded fields of a compiled font for a case; None = the font could not be decoded
fn fields_of(c: &Case, bytes: &[u8]) -> Option<Vec<i64>> {
    let f = Font::new(bytes)?;
    let mut out = Vec::new();
    // gid 0 is the synthesised .notdef, the source glyphs follow in their order
    match c.kind {
        "adv" => {
            out.push(f.metric(b"hmtx", b"hhea", 1)?.0);
            out.push(f.hea(b"hhea", 10, false)?);
            // minLeftSideBearing, minRightSideBearing, xMaxExtent (derived summaries, clamped)
            out.push(f.hea(b"hhea", 12, true)?);
            out.push(f.hea(b"hhea", 14, true)?);
            out.push(f.hea(b"hhea", 16, true)?);
        }
        "coord" | "diff" | "seam" => {
            dump_body(&f.glyph(1)?, &mut out);
            out.extend(f.head_bbox()?.iter());
        }
        "compoff" | "compbbox" => {
            dump_body(&f.glyph(3)?, &mut out);
            out.extend(f.head_bbox()?.iter());
        }
        "scale" => dump_body(&f.glyph(2)?, &mut out),
        "flatscale" => dump_body(&f.glyph(3)?, &mut out),
        "kern" => out.push(gpos_first_pair_xadvance(bytes).unwrap_or(i64::MIN)),
        "anchor" => match gpos_first_mark_base(bytes) {
            Some(a) => out.extend(a.iter()),
            None => out.push(i64::MIN),
        },
        "vadv" => {
            out.push(f.metric(b"vmtx", b"vhea", 1)?.0);
            out.push(f.hea(b"vhea", 10, false)?);
        }
        "vorig" | "tsb" => {
            out.push(f.metric(b"vmtx", b"vhea", 1)?.1);
        }
        "hhea" => {
            out.push(f.hea(b"hhea", 4 + 2 * c.n as usize, true)?);
        }
        "hvar" => {
            out.push(f.metric(b"hmtx", b"hhea", 1)?.0);
            out.push(hvar_advance_at_max(bytes, 1)?);
        }
        "gvar" => {
            out.extend(skrifa_at(bytes, 1, 400.0)?);
            out.extend(skrifa_at(bytes, 1, 700.0)?);
        }
        "qvar" => {
            out.extend(skrifa_extent(bytes, 1, 400.0, c.n & 1 == 1)?);
            out.extend(skrifa_extent(bytes, 1, 700.0, c.n & 1 == 1)?);
        }
        "quad" => {
            let g = f.glyph(1)?;
            dump_body(&g, &mut out);
            out.extend(f.head_bbox()?.iter());
            if let Body::Simple { on, .. } = &g {
                out.extend(on.iter());
            }
        }
        "cubic" => match f.glyph(1)? {
            // [number of off-curve points, the off-curve points sorted, how many of the three
            //  source on-curve points are emitted as on-curve points]
            Body::Simple { pts, on, .. } => {
                let mut offs: Vec<(i64, i64)> = pts.iter().zip(on.iter()).filter(|(_, o)| **o == 0).map(|(p, _)| *p).collect();
                offs.sort();
                out.push(offs.len() as i64);
                for (x, y) in offs {
                    out.push(x);
                    out.push(y);
                }
                let src = curve_contour("cubic", c.a, c.n);
                let found = [0usize, 1, 4].iter().filter(|i| pts.iter().zip(on.iter()).any(|(p, o)| *o == 1 && *p == (otr(src[**i].0), otr(src[**i].1)))).count();
                out.push(found as i64);
            }
            _ => out.push(-1),
        },
        "compdelta" => {
            out.extend(skrifa_at(bytes, 2, 400.0)?);
            out.extend(skrifa_at(bytes, 2, 700.0)?);
        }
        "comptotal" => {
            out.push(f.maxp(3)?);
            out.push(f.maxp(4)?);
            out.push(f.maxp(1)?);
            out.push(f.maxp(12)?);
        }
        "npoints" => {
            out.push(f.maxp(1)?);
            match f.glyph(1)? {
                Body::Simple { ends, .. } => {
                    out.push(ends.len() as i64);
                    out.push(*ends.last().unwrap_or(&-1));
                }
                _ => out.push(-1),
            }
        }
        "ncontours" => {
            out.push(f.maxp(2)?);
            match f.glyph(1)? {
                Body::Simple { ends, .. } => out.push(ends.len() as i64),
                _ => out.push(-1),
            }
        }
        "nglyphs" => {
            out.push(f.num_glyphs as i64);
            out.push(f.loca.len() as i64 - 1);
        }
        _ => return None,
    }
    Some(out)
}

fn observe(c: &Case) -> Obs {
    if c.kind == "widthclass" {
        let n = c.n as u16;
        let r = std::panic::catch_unwind(move || fontdrasil::types::WidthClass::try_from(n));
        return match r {
            Ok(Ok(w)) => Obs { class: "font".into(), msg: String::new(), fields: vec![w as u16 as i64], sha: 0 },
            Ok(Err(e)) => Obs { class: "error".into(), msg: e, fields: vec![], sha: 0 },
            Err(p) => Obs { class: "panic".into(), msg: panic_msg(p), fields: vec![], sha: 0 },
        };
    }
    let src = build_source(c).expect("known kind");
    let dir = scratch_dir("c19");
    let path = src.design.write(dir.path());
    match compile_path(&path, src.flags, None) {
        Outcome::Font(bytes) => match fields_of(c, &bytes) {
            Some(fields) => Obs { class: "font".into(), msg: String::new(), fields, sha: fnv(&bytes) },
            None => Obs { class: "font".into(), msg: "undecodable".into(), fields: vec![i64::MIN], sha: fnv(&bytes) },
        },
        Outcome::Error(m) => {
            let class = if m.contains("panicked") { "panic" } else { "error" };
            Obs { class: class.into(), msg: m, fields: vec![], sha: 0 }
        }
        Outcome::Panic(m) => Obs { class: "panic".into(), msg: m, fields: vec![], sha: 0 },
    }
}

fn panic_msg(p: Box<dyn std::any::Any + Send>) -> String {
    p.downcast_ref::<String>().cloned().or(p.downcast_ref::<&str>().map(|s| s.to_string())).unwrap_or_else(|| "panic".into())
}

fn obs_json(id: usize, o: &Obs) -> Value {
    json!({"id": id, "class": o.class, "msg": o.msg, "fields": o.fields, "sha": o.sha.to_string()})
}

fn obs_from_json(v: &Value) -> Option<(usize, Obs)> {
    Some((
        v.get("id")?.as_u64()? as usize,
        Obs {
            class: v.get("class")?.as_str()?.to_string(),
            msg: v.get("msg")?.as_str()?.to_string(),
            fields: v.get("fields")?.as_array()?.iter().filter_map(|x| x.as_i64()).collect(),
            sha: v.get("sha")?.as_str()?.parse().ok()?,
        },
    ))
}

// ------------------------------------------------------------------------------------------
// 3. the property predicate, evaluated on what the implementation emitted
// ------------------------------------------------------------------------------------------

/// ot_round in exact arithmetic (all generated values are multiples of 1/4 or of 2^-16)
fn otr(x: f64) -> i64 {
    (x + 0.5).floor() as i64
}
fn fits16(z: i64) -> bool {
    (-32768..=32767).contains(&z)
}
fn fitsu16(z: i64) -> bool {
    (0..=65535).contains(&z)
}

const NOTDEF_BBOX: [i64; 4] = [50, -200, 450, 800];

fn union(a: [i64; 4], b: [i64; 4]) -> [i64; 4] {
    [a[0].min(b[0]), a[1].min(b[1]), a[2].max(b[2]), a[3].max(b[3])]
}

fn emit_order<T: Clone>(c: &[T]) -> Vec<T> {
    let mut v = Vec::with_capacity(c.len());
    if let Some(p) = c.first() {
        v.push(p.clone());
        v.extend(c[1..].iter().rev().cloned());
    }
    v
}

fn bbox_pts(pts: &[(i64, i64)]) -> [i64; 4] {
    let mut b = [i64::MAX, i64::MAX, i64::MIN, i64::MIN];
    for (x, y) in pts {
        b = [b[0].min(*x), b[1].min(*y), b[2].max(*x), b[3].max(*y)];
    }
    b
}

/// the faithful glyf entry of an outline given in source order, if it is representable
fn faithful_simple(cs: &[Vec<(f64, f64)>]) -> Option<Vec<i64>> {
    let mut pts: Vec<(i64, i64)> = Vec::new();
    let mut ends = Vec::new();
    for c in cs {
        for (x, y) in emit_order(c) {
            pts.push((otr(x), otr(y)));
        }
        ends.push(pts.len() as i64 - 1);
    }
    if pts.len() > 65535 {
        return None;
    }
    let (mut lx, mut ly) = (0, 0);
    for (x, y) in &pts {
        if !fits16(*x) || !fits16(*y) || !fits16(x - lx) || !fits16(y - ly) {
            return None;
        }
        lx = *x;
        ly = *y;
    }
    let mut out = Vec::new();
    dump_body(&Body::Simple { bbox: bbox_pts(&pts), ends, pts, on: vec![] }, &mut out);
    Some(out)
}

fn body_bbox_from_dump(d: &[i64]) -> Option<[i64; 4]> {
    let n = d.len();
    if n < 4 {
        return None;
    }
    Some([d[n - 4], d[n - 3], d[n - 2], d[n - 1]])
}

/// what the property asks of an emitted font for this case
enum Expect {
    /// the value is representable: the decoded fields must be exactly these
    Exactly(Vec<i64>),
    /// representable in more than one acceptable way (a composite within one 2.14 quantum of the
    /// source transform, or the decomposed outline): any of these, compared with `tol` on the
    /// positions listed in `approx`
    AnyOf(Vec<(Vec<i64>, Vec<usize>)>),
    /// the value cannot be represented: an emitted font is a violation whatever it contains
    MustReject,
    /// representable in principle, but another format limit may legitimately stop the build
    /// (post 2.0 cannot index more than 65277 non-standard glyph names): if a font is
    /// emitted the fields must be these
    IfEmitted(Vec<i64>),
}

const SQ: [(f64, f64); 4] = [(0.0, 0.0), (100.0, 0.0), (100.0, 100.0), (0.0, 100.0)];

fn tf(t: &[f64; 6], p: (f64, f64)) -> (f64, f64) {
    (t[0] * p.0 + t[2] * p.1 + t[4], t[1] * p.0 + t[3] * p.1 + t[5])
}

fn transformed(t: &[f64; 6], c: &[(f64, f64)]) -> Vec<(f64, f64)> {
    let v: Vec<(f64, f64)> = c.iter().map(|p| tf(t, *p)).collect();
    if t[0] * t[3] - t[1] * t[2] < 0.0 { emit_order(&v) } else { v }
}

/// composite record fields `[gid, dx, dy, xx, yx, xy, yy]` for a transform, and whether every
/// 2x2 entry is within [-2, 2] (representable to one quantum)
fn comp_record(gid: i64, t: &[f64; 6]) -> (Vec<i64>, bool) {
    let ok = t[..4].iter().all(|v| (-2.0..=2.0).contains(v)) && fits16(otr(t[4])) && fits16(otr(t[5]));
    let q = |v: f64| (v * 16384.0).round() as i64;
    (vec![gid, otr(t[4]), otr(t[5]), q(t[0]), q(t[1]), q(t[2]), q(t[3])], ok)
}

/// composite glyph dump for components of glyph "ap" (gid 1, the unit-100 square)
fn faithful_composite_of_ap(ts: &[[f64; 6]]) -> (Option<(Vec<i64>, Vec<usize>)>, Option<Vec<i64>>) {
    // as a composite
    let mut out = vec![1, ts.len() as i64];
    let mut approx = Vec::new();
    let mut ok = true;
    let mut pts = Vec::new();
    for t in ts {
        let (r, o) = comp_record(1, t);
        ok &= o;
        let base = out.len();
        approx.extend([base + 3, base + 4, base + 5, base + 6]);
        out.extend(r);
        for p in SQ {
            pts.push(tf(t, p));
        }
    }
    let bb = [
        otr(pts.iter().map(|p| p.0).fold(f64::INFINITY, f64::min)),
        otr(pts.iter().map(|p| p.1).fold(f64::INFINITY, f64::min)),
        otr(pts.iter().map(|p| p.0).fold(f64::NEG_INFINITY, f64::max)),
        otr(pts.iter().map(|p| p.1).fold(f64::NEG_INFINITY, f64::max)),
    ];
    ok &= bb.iter().all(|v| fits16(*v));
    let n0 = out.len();
    approx.extend([n0, n0 + 1, n0 + 2, n0 + 3]); // the box follows the quantised transform
    out.extend(bb);
    // decomposed
    let cs: Vec<Vec<(f64, f64)>> = ts.iter().map(|t| transformed(t, &SQ)).collect();
    (if ok { Some((out, approx)) } else { None }, faithful_simple(&cs))
}

fn expect(c: &Case) -> Expect {
    let ex = |v: Option<Vec<i64>>| match v {
        Some(v) => Expect::Exactly(v),
        None => Expect::MustReject,
    };
    match c.kind {
        "adv" => {
            // .notdef: advance 500, box 50..450; a and b: box 0..100; b advance 600
            let r = otr(c.a);
            ex(fitsu16(r).then(|| vec![r, r.max(600), 0, (r - 100).min(50).max(-32768), 450]))
        }
        "vadv" => {
            let r = otr(c.a);
            ex(fitsu16(r).then(|| vec![r, r.max(1000)]))
        }
        "coord" | "diff" | "seam" => ex(faithful_simple(&coord_contours(c)).map(|mut d| {
            let bb = body_bbox_from_dump(&d).unwrap();
            d.extend(union(NOTDEF_BBOX, bb));
            d
        })),
        "quad" => {
            let src = curve_contour("quad", c.a, c.n);
            let cs = vec![src.iter().map(|(x, y, _)| (*x, *y)).collect::<Vec<_>>()];
            ex(faithful_simple(&cs).map(|mut d| {
                let bb = body_bbox_from_dump(&d).unwrap();
                d.extend(union(NOTDEF_BBOX, bb));
                // emitted as p0, p2, control, p1
                d.extend([1, 1, 0, 1]);
                d
            }))
        }
        "cubic" => match cubic_expected_off_points(c.a, c.n) {
            None => Expect::MustReject,
            Some(offs) => {
                let mut r: Vec<(i64, i64)> = offs.iter().map(|(x, y)| (otr(*x), otr(*y))).collect();
                if r.iter().any(|(x, y)| !fits16(*x) || !fits16(*y)) {
                    Expect::MustReject
                } else {
                    r.sort();
                    let mut d = vec![r.len() as i64];
                    for (x, y) in r {
                        d.push(x);
                        d.push(y);
                    }
                    d.push(3);
                    // the steps between successive points are not predicted here: a rejection is
                    // accepted, an emitted font must have exactly these control points
                    Expect::IfEmitted(d)
                }
            }
        },
        "qvar" => {
            // glyf holds the default master, gvar the difference: representable when both fit
            // after rounding... the compiler may also refuse a master it cannot hold in i16
            let (x0, x1) = (otr(c.a), otr(c.a + c.b));
            if fits16(x0) {
                Expect::IfEmitted(vec![x0.min(-100), x0.max(0), x1.min(-100), x1.max(0)])
            } else {
                Expect::MustReject
            }
        }
        "compoff" | "compbbox" => {
            let r = otr(c.a);
            let (dx, dy) = if c.n == 0 { (r, 0) } else { (0, r) };
            let towards = (c.a >= 0.0) == (c.kind == "compoff");
            let (gid, base) = if towards { (2, [-100, -100, 0, 0]) } else { (1, [0, 0, 100, 100]) };
            let bb = [base[0] + dx, base[1] + dy, base[2] + dx, base[3] + dy];
            let ok = fits16(r) && bb.iter().all(|v| fits16(*v));
            ex(ok.then(|| {
                let mut d = vec![1, 1, gid, dx, dy, 16384, 0, 0, 16384];
                d.extend(bb);
                d.extend(union(union(union(NOTDEF_BBOX, [0, 0, 100, 100]), [-100, -100, 0, 0]), bb));
                d
            }))
        }
        "scale" => {
            let mut t = [1.0, 0.0, 0.0, 1.0, 0.0, 0.0];
            t[c.n as usize] = c.a;
            let (comp, simple) = faithful_composite_of_ap(&[t, [1.0, 0.0, 0.0, 1.0, 300.0, 0.0]]);
            let mut alts = Vec::new();
            if let Some(x) = comp {
                alts.push(x);
            }
            if let Some(x) = simple {
                alts.push((x, vec![]));
            }
            if alts.is_empty() { Expect::MustReject } else { Expect::AnyOf(alts) }
        }
        "flatscale" => {
            let (s1, s2) = (c.a, c.b);
            let ts = [[s1 * s2, 0.0, 0.0, s1 * s2, 0.0, 0.0], [s1, 0.0, 0.0, s1, s1 * 300.0, 0.0], [1.0, 0.0, 0.0, 1.0, 0.0, 300.0]];
            let (comp, simple) = faithful_composite_of_ap(&ts);
            let mut alts = Vec::new();
            if let Some(x) = comp {
                alts.push(x);
            }
            if let Some(x) = simple {
                alts.push((x, vec![]));
            }
            if alts.is_empty() { Expect::MustReject } else { Expect::AnyOf(alts) }
        }
        "kern" => {
            let r = otr(c.a);
            ex(fits16(r).then(|| vec![r]))
        }
        "anchor" => {
            let r = otr(c.a);
            ex(fits16(r).then(|| if c.n == 0 { vec![r, 700, 50, 500] } else { vec![300, r, 50, 500] }))
        }
        "vorig" => {
            // top side bearings: glyph a (yMax 0) and the synthesised .notdef (yMax 800)
            let r = otr(c.a);
            ex((fits16(r) && fits16(r - 800)).then(|| vec![r]))
        }
        "tsb" => {
            let (ymax, origin) = (otr(c.a), otr(c.b));
            ex((fits16(origin - ymax) && fits16(origin - 800)).then(|| vec![origin - ymax]))
        }
        "hhea" => {
            let r = otr(c.a);
            ex(fits16(r).then(|| vec![r]))
        }
        "hvar" => {
            let (m0, m1) = (otr(c.a), otr(c.a + c.b));
            ex((fitsu16(m0) && fitsu16(m1)).then(|| vec![m0, m1]))
        }
        "gvar" => {
            let (x0, x1) = (otr(c.a), otr(c.a + c.b));
            ex((fits16(x0) && fits16(x1)).then(|| vec![x0.min(0), x0.max(0), x1.min(0), x1.max(0)]))
        }
        "compdelta" => {
            let (x0, x1) = (otr(c.a), otr(c.a + c.b));
            ex((fits16(x0) && fits16(x0 + 1) && fits16(x1) && fits16(x1 + 1)).then(|| vec![x0, x0 + 1, x1, x1 + 1]))
        }
        "comptotal" => {
            let (k, m) = (c.n as i64, c.a as i64);
            ex((k * m <= 65535).then(|| vec![k * m, k, m.max(8), k]))
        }
        "npoints" => {
            let n = c.n as i64;
            ex((n <= 65535).then(|| vec![n.max(8), 1, n - 1]))
        }
        "ncontours" => {
            // numberOfContours is an i16 (write-fonts asserts n < 32767, one less than the format allows)
            let n = c.n as i64;
            if n < 32767 { Expect::Exactly(vec![n, n]) } else if n == 32767 { Expect::IfEmitted(vec![n, n]) } else { Expect::MustReject }
        }
        "nglyphs" => {
            let n = c.n as i64;
            if n <= 65535 { Expect::IfEmitted(vec![n, n]) } else { Expect::MustReject }
        }
        "widthclass" => ex((1..=9).contains(&c.n).then(|| vec![c.n as i64])),
        _ => Expect::MustReject,
    }
}

/// the source of a case in words (for the replay files)
fn describe(c: &Case) -> String {
    match c.kind {
        "adv" => format!("single UFO (upem 1000): glyph a = square 0..100 with <advance width={}>, glyph b advance 600", c.a),
        "vadv" => format!("single UFO with openTypeVheaVertTypo* set: glyph a = square 0..100 with <advance height={}>", c.a),
        "coord" | "diff" | "tsb" => format!(
            "single UFO{}: glyph a = one closed contour of line points {:?}",
            if c.kind == "tsb" { format!(" with openTypeVheaVertTypo* set and openTypeOS2TypoAscender {}", c.b) } else { String::new() },
            coord_contours(c)[0]
        ),
        "quad" | "cubic" => format!("single UFO: glyph a = one closed contour (x, y, type), Off = off-curve control point: {:?}", curve_contour(c.kind, c.a, c.n)),
        "qvar" => format!("designspace wght 400..700, two masters: glyph a = one closed contour; at 400: {:?}; at 700: {:?}", curve_contour("qvar", c.a, c.n), curve_contour("qvar", c.a + c.b, c.n)),
        "seam" => format!("single UFO: glyph a = {} closed contours of line points, in this order: {:?}", coord_contours(c).len(), coord_contours(c)),
        "compoff" | "compbbox" => format!("single UFO: ap = square 0..100, an = square -100..0, glyph c = one component of {} with {}Offset={}", if (c.a >= 0.0) == (c.kind == "compoff") { "an" } else { "ap" }, if c.n == 0 { "x" } else { "y" }, c.a),
        "scale" => format!("single UFO: ap = square 0..100, glyph c = component of ap with {}={} plus component of ap at xOffset 300", ["xScale", "xyScale", "yxScale", "yScale"][c.n as usize], c.a),
        "flatscale" => format!("single UFO, --flatten-components: ap = square 0..100; b = ap scaled {} + ap at x 300; c = b scaled {} + ap at y 300", c.b, c.a),
        "kern" => format!("single UFO: kerning.plist a b = {}", c.a),
        "anchor" => format!("single UFO: glyph a anchor top at {}, acutecomb (U+0301) anchor _top at (50,500)", if c.n == 0 { format!("({}, 700)", c.a) } else { format!("(300, {})", c.a) }),
        "vorig" => format!("single UFO with openTypeVheaVertTypo* set, openTypeOS2TypoAscender {} (the vertical origin); glyph a = square with yMax 0, height 1000", c.a),
        "hhea" => format!("single UFO: {} = {}", ["openTypeHheaAscender", "openTypeHheaDescender", "openTypeHheaLineGap"][c.n as usize], c.a),
        "hvar" => format!("designspace wght 400..700, two masters: glyph a advance {} at 400 and {} at 700", c.a, c.a + c.b),
        "gvar" => format!("designspace wght 400..700, two masters: glyph a = rectangle between x=0 and x={} at 400, x={} at 700", c.a, c.a + c.b),
        "compdelta" => format!("designspace wght 400..700, two masters: glyph c = component of the unit square az at xOffset {} at 400 and {} at 700", c.a, c.a + c.b),
        "comptotal" => format!("single UFO: glyph a = one contour of {} points, glyph c = {} components of a", c.a, c.n),
        "npoints" => format!("single UFO: glyph a = one contour of {} line points", c.n),
        "ncontours" => format!("single UFO: glyph a = {} two-point contours", c.n),
        "nglyphs" => format!("single UFO with {} empty glyphs (plus the generated .notdef), advances {}", c.n - 1, if c.a == 1.0 { "alternating 500/501" } else { "all 600" }),
        "widthclass" => format!("fontdrasil::types::WidthClass::try_from({}u16)", c.n),
        _ => String::new(),
    }
}

/// (site key for an emitted but unfaithful value, site key for a debug/release disagreement,
///  what the field is)
fn keys(kind: &str) -> (&'static str, &'static str, &'static str) {
    match kind {
        "adv" => ("metrics_and_limits.rs:hmtx.advance:saturates", "metrics_and_limits.rs:hmtx.advance:profiles-differ", "advance width (fontbe/src/metrics_and_limits.rs: width.ot_round() -> u16)"),
        "vadv" => ("ir.rs:GlyphInstance.height:saturates", "ir.rs:GlyphInstance.height:profiles-differ", "advance height (fontir/src/ir.rs GlyphInstance::height: ot_round() -> u16)"),
        "coord" => ("glyphs.rs:glyf.coordinate:saturates", "glyphs.rs:glyf.coordinate_delta:i16-overflow", "outline coordinate (write-fonts CurvePoint::from via fontbe/src/glyphs.rs: ot_round() -> i16)"),
        "quad" => ("glyphs.rs:glyf.coordinate:saturates", "glyphs.rs:glyf.coordinate_delta:i16-overflow", "off-curve (control) point coordinate of a quadratic segment (fontbe/src/glyphs.rs check_path_fits_i16 must look at every point of every path element; write-fonts CurvePoint::from: ot_round() -> i16)"),
        "cubic" => ("glyphs.rs:glyf.coordinate:saturates", "glyphs.rs:glyf.coordinate_delta:i16-overflow", "control point of the quadratic spline cu2qu makes of a cubic segment (fontbe/src/glyphs.rs check_path_fits_i16 on the converted paths; write-fonts CurvePoint::from: ot_round() -> i16)"),
        "qvar" => ("glyphs.rs:glyf.master_coordinate:saturates", "glyphs.rs:glyf.master_coordinate:profiles-differ", "off-curve point coordinate in a non-default master (fontbe/src/glyphs.rs check_path_fits_i16 runs on every master; the master's points are rounded to i16 before the gvar deltas are taken)"),
        "seam" => ("glyphs.rs:glyf.coordinate:saturates", "glyphs.rs:glyf.coordinate_delta:i16-overflow", "step from the last point of a contour to the first point of the next (fontbe/src/glyphs.rs check_point_deltas_fit_i16; write-fonts SimpleGlyph::compute_point_deltas: i16 `-`)"),
        "diff" => ("glyphs.rs:glyf.coordinate:saturates", "glyphs.rs:glyf.coordinate_delta:i16-overflow", "difference of successive outline coordinates (write-fonts SimpleGlyph::compute_point_deltas via fontbe/src/glyphs.rs: i16 `-`)"),
        "compoff" => ("glyphs.rs:component.offset:saturates", "glyphs.rs:component.offset:profiles-differ", "component offset (fontbe/src/glyphs.rs create_component_ref_gid: e.ot_round() -> i16)"),
        "compbbox" => ("glyphs.rs:composite.bbox:saturates", "glyphs.rs:composite.bbox:profiles-differ", "composite bounding box (fontbe/src/glyphs.rs compute_composite_bboxes: Rect -> Bbox, ot_round() -> i16)"),
        "scale" => ("glyphs.rs:component.transform:saturates", "glyphs.rs:component.transform:profiles-differ", "component 2x2 entry (fontbe/src/glyphs.rs: F2Dot14::from_f64)"),
        "flatscale" => ("glyph.rs:flatten_glyph.transform:saturates", "glyph.rs:flatten_glyph.transform:profiles-differ", "component 2x2 entry after --flatten-components (fontir/src/glyph.rs flatten_glyph, then fontbe/src/glyphs.rs F2Dot14::from_f64)"),
        "kern" => ("features.rs:kern.value:saturates", "features.rs:kern.value:profiles-differ", "kerning value (fontbe/src/features.rs resolve_variable_metric: ot_round() -> i16)"),
        "anchor" => ("features.rs:anchor.coordinate:saturates", "features.rs:anchor.coordinate:profiles-differ", "anchor coordinate (fontbe/src/features.rs resolve_variable_metric: ot_round() -> i16)"),
        "vorig" => ("ir.rs:GlyphInstance.vertical_origin:saturates", "vertical_metrics.rs:top_side_bearing:i16-overflow", "vertical origin (fontir/src/ir.rs GlyphInstance::vertical_origin: ot_round() -> i16)"),
        "tsb" => ("vertical_metrics.rs:top_side_bearing:wraps", "vertical_metrics.rs:top_side_bearing:i16-overflow", "top side bearing (fontbe/src/vertical_metrics.rs: vertical_origin - bbox.y_max on i16)"),
        "hhea" => ("metrics_and_limits.rs:hhea.line_metric:saturates", "metrics_and_limits.rs:hhea.line_metric:profiles-differ", "hhea ascender/descender/lineGap (fontbe/src/metrics_and_limits.rs: ot_round() -> i16)"),
        "hvar" => ("metric_variations.rs:hvar.delta:saturates", "metric_variations.rs:hvar.delta:profiles-differ", "advance delta (fontbe/src/metric_variations.rs: values[0].ot_round() -> i16)"),
        "gvar" => ("glyphs.rs:gvar.point_delta:saturates", "glyphs.rs:gvar.point_delta:profiles-differ", "outline point delta (write-fonts iup via fontbe/src/glyphs.rs compute_deltas: ot_round() -> i16)"),
        "compdelta" => ("glyphs.rs:gvar.component_delta:saturates", "glyphs.rs:gvar.component_delta:profiles-differ", "component offset delta (fontbe/src/glyphs.rs process_composite_deltas: ot_round() -> (i16, i16))"),
        "comptotal" => ("metrics_and_limits.rs:maxp.composite_total:wraps", "metrics_and_limits.rs:maxp.composite_total:over-u16", "maxp composite totals (fontbe/src/metrics_and_limits.rs update_composite_limits)"),
        "npoints" => ("metrics_and_limits.rs:maxp.num_points:wraps", "glyphs.rs:glyf.end_point:u16-overflow", "points of one glyph (fontbe/src/metrics_and_limits.rs num_points `as u16`; write-fonts SimpleGlyph::write_into `cur as u16 - 1`)"),
        "ncontours" => ("metrics_and_limits.rs:maxp.num_contours:wraps", "metrics_and_limits.rs:maxp.num_contours:profiles-differ", "contours of one glyph (fontbe/src/metrics_and_limits.rs num_contours `as u16`; write-fonts SimpleGlyph::write_into asserts < i16::MAX)"),
        "nglyphs" => ("ir.rs:glyph_order.glyph_id:wraps", "metrics_and_limits.rs:maxp.num_glyphs:profiles-differ", "number of glyphs (fontir/src/ir.rs GlyphId16::new(i as _); fontbe/src/metrics_and_limits.rs num_glyphs)"),
        "widthclass" => ("types.rs:WidthClass.try_from:wrong-value", "types.rs:WidthClass.try_from:debug-panic", "WidthClass::try_from(u16) (fontdrasil/src/types.rs: (value - 1) on u16)"),
        _ => ("c19-unknown", "c19-unknown", ""),
    }
}

fn meets(e: &Expect, fields: &[i64]) -> bool {
    match e {
        Expect::MustReject => false,
        Expect::Exactly(v) | Expect::IfEmitted(v) => v.as_slice() == fields,
        Expect::AnyOf(alts) => alts.iter().any(|(v, approx)| {
            v.len() == fields.len() && v.iter().zip(fields).enumerate().all(|(i, (a, b))| if approx.contains(&i) { (a - b).abs() <= 1 } else { a == b })
        }),
    }
}

// ------------------------------------------------------------------------------------------
// 4. Gallina terms
// ------------------------------------------------------------------------------------------

fn cq(x: f64) -> String {
    coq_q(x)
}
fn cz(x: i64) -> String {
    coq_z(x)
}
fn coq_pts(c: &[(f64, f64, Pt)]) -> String {
    coq_list(c, |(x, y, _)| format!("({}, {})", cq(*x), cq(*y)))
}
fn coq_aff(t: &[f64; 6]) -> String {
    // srcgen: [xScale, xyScale, yxScale, yScale, xOffset, yOffset] = kurbo [a, b, c, d, e, f]
    format!("({}, {}, {}, {}, {}, {})", cq(t[0]), cq(t[1]), cq(t[2]), cq(t[3]), cq(t[4]), cq(t[5]))
}

/// `src` term of a single-master design: the synthesised .notdef first, then the glyphs in order
fn coq_src(d: &Design, origin: Option<f64>, hhea: [f64; 3]) -> String {
    let m = &d.masters[0];
    let order = m.glyph_order.clone().unwrap_or_else(|| m.glyphs.iter().map(|g| g.name.clone()).collect());
    let gid = |n: &str| order.iter().position(|x| x == n).map(|i| i as i64 + 1).unwrap_or(0);
    let mut gs = vec!["notdef_src".to_string()];
    for name in &order {
        let g = m.glyphs.iter().find(|g| &g.name == name).expect("glyph in order");
        let h = g.height.unwrap_or(1000.0);
        if g.components.is_empty() {
            if g.contours.len() > 1000 {
                gs.push(format!("(SrcSimple {} {} (twopoints {}%nat))", cq(g.advance), cq(h), g.contours.len()));
            } else if g.contours.len() == 1 && g.contours[0].len() > 1000 {
                gs.push(format!("(SrcSimple {} {} [zigzag {}%nat])", cq(g.advance), cq(h), g.contours[0].len()));
            } else {
                gs.push(format!("(SrcSimple {} {} {})", cq(g.advance), cq(h), coq_list(&g.contours, |c| coq_pts(c))));
            }
        } else if g.components.len() > 50 {
            // the composite-total sources: k components of one base at offsets (i mod 100, i / 100)
            gs.push(format!("(SrcComposite {} {} (grid_comps {} {}%nat))", cq(g.advance), cq(h), cz(gid(&g.components[0].0)), g.components.len()));
        } else {
            gs.push(format!("(SrcComposite {} {} {})", cq(g.advance), cq(h), coq_list(&g.components, |(b, t)| format!("({}, {})", cz(gid(b)), coq_aff(t)))));
        }
    }
    format!(
        "(mk_src [{}] {} {} {} {} {} {})",
        gs.join("; "),
        cq(hhea[0]),
        cq(hhea[1]),
        cq(hhea[2]),
        coq_opt(&origin, |o| cq(*o)),
        coq_list(&m.kerning, |(_, _, v)| cq(*v)),
        {
            let anchors: Vec<(f64, f64)> = order.iter().flat_map(|n| m.glyphs.iter().find(|g| &g.name == n).unwrap().anchors.iter().map(|(_, x, y)| (*x, *y))).collect();
            coq_list(&anchors, |(x, y)| format!("({}, {})", cq(*x), cq(*y)))
        }
    )
}

fn coq_obs(o: &Obs) -> String {
    match o.class.as_str() {
        "font" => format!("(Emit {})", coq_list(&o.fields, |z| cz(*z))),
        "error" => "Reject".into(),
        _ => "Panic".into(),
    }
}

/// Gallina bool: the model predicts both observations
fn coq_case(c: &Case, dbg: &Obs, rel: &Obs) -> Option<String> {
    let both = |model: &dyn Fn(&str) -> String| Some(format!("obs_eqb {} {} && obs_eqb {} {}", model("Debug"), coq_obs(dbg), model("Release"), coq_obs(rel)));
    let via_build = |proj: &str, origin: Option<f64>, hhea: [f64; 3]| {
        let src = build_source(c)?;
        let s = coq_src(&src.design, origin, hhea);
        both(&|p| format!("(project ({}) (build {} {}))", proj, p, s))
    };
    let dflt = [800.0, -200.0, 0.0];
    match c.kind {
        "adv" => via_build("fun f => [fst (nth 1 (f_hmtx f) (0, 0)); f_adv_max f; f_min_lsb f; f_min_rsb f; f_max_extent f]", None, dflt),
        "vadv" => via_build("fun f => match f_vmtx f with Some v => [fst (nth 1 v (0, 0)); zmax0 (map fst v)] | None => [] end", Some(800.0), dflt),
        "coord" | "diff" | "seam" => via_build("fun f => dump_glyf (nth 1 (f_glyf f) GEmpty) ++ bbox_list (f_head f)", None, dflt),
        "quad" => via_build("fun f => dump_glyf (nth 1 (f_glyf f) GEmpty) ++ bbox_list (f_head f) ++ [1; 1; 0; 1]", None, dflt),
        "qvar" => {
            // every master is checked; the masters' points are rounded to i16, the delta is theirs
            let cz_pts = |v: f64| coq_list(&curve_contour("qvar", v, c.n), |(x, y, _)| format!("({}, {})", cq(*x), cq(*y)));
            let (x0, x1) = (otr(c.a), otr(c.a + c.b));
            both(&|_| format!(
                "(if masters_coords_fitb [[{}]; [{}]] then Emit [Z.min {} (-100); Z.max {} 0; Z.min (instance_at_master1 {} {}) (-100); Z.max (instance_at_master1 {} {}) 0] else Reject)",
                cz_pts(c.a), cz_pts(c.a + c.b), cz(x0), cz(x0), cz(x0), cz(x1), cz(x0), cz(x1)
            ))
        }
        "compoff" | "compbbox" => via_build("fun f => dump_glyf (nth 3 (f_glyf f) GEmpty) ++ bbox_list (f_head f)", None, dflt),
        "scale" => via_build("fun f => dump_glyf (nth 2 (f_glyf f) GEmpty)", None, dflt),
        "kern" => via_build("fun f => f_kern f", None, dflt),
        "anchor" => via_build("fun f => flat_map (fun a => [fst a; snd a]) (f_anchor f)", None, dflt),
        "vorig" => via_build("fun f => match f_vmtx f with Some v => [snd (nth 1 v (0, 0))] | None => [] end", Some(c.a), dflt),
        "tsb" => via_build("fun f => match f_vmtx f with Some v => [snd (nth 1 v (0, 0))] | None => [] end", Some(c.b), dflt),
        "hhea" => {
            let mut h = dflt;
            h[c.n as usize] = c.a;
            via_build(["fun f => [f_asc f]", "fun f => [f_desc f]", "fun f => [f_gap f]"][c.n as usize], None, h)
        }
        "comptotal" => via_build("fun f => [x_max_comp_points (f_maxp f); x_max_comp_contours (f_maxp f); x_max_points (f_maxp f); x_max_comp_elements (f_maxp f)]", None, dflt),
        "ncontours" => via_build("fun f => x_max_contours (f_maxp f) :: match nth 1 (f_glyf f) GEmpty with GSimple s => [zlen (so_ends s)] | _ => [-1] end", None, dflt),
        "npoints" => via_build("fun f => x_max_points (f_maxp f) :: match nth 1 (f_glyf f) GEmpty with GSimple s => [zlen (so_ends s); last (so_ends s) (-1)] | _ => [-1] end", None, dflt),
        "flatscale" => {
            let (s1, s2) = (c.a, c.b);
            let inner = format!("[(1, {}); (1, {})]", coq_aff(&[s2, 0.0, 0.0, s2, 0.0, 0.0]), coq_aff(&[1.0, 0.0, 0.0, 1.0, 300.0, 0.0]));
            let nested = format!("[NNode {} {}; NLeaf 1 {}]", coq_aff(&[s1, 0.0, 0.0, s1, 0.0, 0.0]), inner, coq_aff(&[1.0, 0.0, 0.0, 1.0, 0.0, 300.0]));
            // flatten_glyph repeats the 2x2 range test after flattening (/repo 101951c)
            both(&|p| format!("(omap dump_glyf (build_flattened_repaired {} [notdef_src; SrcSimple 600 1000 [unit100]] {}))", p, nested))
        }
        "hvar" => {
            let (m0, m1) = (otr(c.a), otr(c.a + c.b));
            both(&|_| format!("(Emit [sat_u16 {}; sat_u16 {} + delta_i16 {} {}])", cz(m0), cz(m0), cz(m0), cz(m1)))
        }
        "gvar" => {
            // the masters' points are i16 (saturated) before the deltas are taken
            let (x0, x1) = (otr(c.a), otr(c.a + c.b));
            both(&|_| format!("(Emit (extent2 (sat_i16 {}) (instance_at_master1 (sat_i16 {}) (sat_i16 {}))))", cz(x0), cz(x0), cz(x1)))
        }
        "compdelta" => {
            let (x0, x1) = (otr(c.a), otr(c.a + c.b));
            both(&|_| format!("(Emit (shifted2 (sat_i16 {}) (sat_i16 {} + delta_i16 {} {})))", cz(x0), cz(x0), cz(x0), cz(x1)))
        }
        "widthclass" => both(&|p| format!("(omap (fun z => [z]) (width_class {} {}))", p, cz(c.n as i64))),
        _ => None,
    }
}

// ------------------------------------------------------------------------------------------
// 5. driver
// ------------------------------------------------------------------------------------------

fn observe_all(cases: &[Case], threads: usize) -> Vec<Obs> {
    use std::sync::atomic::{AtomicUsize, Ordering};
    use std::sync::Mutex;
    let next = AtomicUsize::new(0);
    let out: Mutex<Vec<Option<Obs>>> = Mutex::new(vec![None; cases.len()]);
    // heavy cases first so that they do not end up alone at the tail
    let mut order: Vec<usize> = (0..cases.len()).collect();
    order.sort_by_key(|i| match cases[*i].kind {
        "nglyphs" => 0,
        "npoints" | "ncontours" => 1,
        "comptotal" => 2,
        _ => 3,
    });
    std::thread::scope(|s| {
        for _ in 0..threads {
            s.spawn(|| loop {
                let k = next.fetch_add(1, Ordering::SeqCst);
                if k >= order.len() {
                    break;
                }
                let i = order[k];
                let o = observe(&cases[i]);
                out.lock().unwrap()[i] = Some(o);
            });
        }
    });
    out.into_inner().unwrap().into_iter().map(|o| o.expect("observed")).collect()
}

fn main() {
    let args: Vec<String> = std::env::args().collect();
    let args = &args[1..];
    let seed = arg_val(args, "--seed", 1);
    let n = arg_val(args, "--n", 100) as usize;
    let threads = arg_val(args, "--threads", 8) as usize;
    let tier = args.iter().position(|a| a == "--tier").and_then(|i| args.get(i + 1)).cloned().unwrap_or_else(|| "quick".into());
    let worker = args.iter().any(|a| a == "--worker");
    let probe = args.iter().any(|a| a == "--probe");
    let only = args.iter().position(|a| a == "--only").and_then(|i| args.get(i + 1)).cloned();
    if std::env::var("RAYON_NUM_THREADS").is_err() {
        // fontc builds one rayon pool per compile; several compiles run side by side here
        unsafe { std::env::set_var("RAYON_NUM_THREADS", "2") };
    }
    unsafe { std::env::set_var("SOURCE_DATE_EPOCH", "0") };
    if std::env::var("C19_LOUD").is_err() {
        quiet_panics();
    }
    let mut cases = gen_cases(seed, n, &tier);
    if let Some(o) = &only {
        cases.retain(|c| c.kind == o);
    }
    if probe {
        for c in &cases {
            let o = observe(c);
            println!("{:4} {:10} a={} b={} n={} [{}] -> {} {:?} {}", c.id, c.kind, c.a, c.b, c.n, c.draw, o.class, &o.fields[..o.fields.len().min(40)], &o.msg[..o.msg.len().min(160)]);
        }
        return;
    }
    if worker {
        let obs = observe_all(&cases, threads);
        for (c, o) in cases.iter().zip(&obs) {
            emit(obs_json(c.id, o));
        }
        return;
    }

    // ---- 1. site table against the working tree
    let repo = std::env::var("VERIF_REPO").ok().or_else(repo_of_this_build).unwrap_or_else(|| "/repo".into());
    let scan = scan_sites(&repo);

    // ---- 2. both profiles
    let profile = if cfg!(debug_assertions) { "debug" } else { "release" };
    if profile != "debug" {
        emit_violation_nf("harness-profile", "the driving c19 binary was not built with overflow checks (dev profile)".into(), json!({}));
    }
    let rel_bin = std::env::var("C19_RELEASE_BIN").unwrap_or_default();
    let mut child = None;
    if rel_bin.is_empty() || !std::path::Path::new(&rel_bin).exists() {
        emit_violation_nf("harness-build-release", format!("release build of the harness not available ({rel_bin:?}): debug/release agreement cannot be checked"), json!({}));
    } else {
        let mut cmd = Command::new(&rel_bin);
        cmd.arg("--worker").arg("--seed").arg(seed.to_string()).arg("--n").arg(n.to_string()).arg("--tier").arg(&tier).arg("--threads").arg(threads.to_string());
        if let Some(o) = &only {
            cmd.arg("--only").arg(o);
        }
        match cmd.stdin(Stdio::null()).stdout(Stdio::piped()).stderr(Stdio::null()).spawn() {
            Ok(c) => child = Some(c),
            Err(e) => emit_violation_nf("harness-build-release", format!("cannot start {rel_bin}: {e}"), json!({})),
        }
    }
    let dbg = observe_all(&cases, threads);
    let mut rel: BTreeMap<usize, Obs> = BTreeMap::new();
    if let Some(mut ch) = child {
        if let Some(out) = ch.stdout.take() {
            for line in BufReader::new(out).lines().map_while(Result::ok) {
                if let Ok(v) = serde_json::from_str::<Value>(&line) {
                    if let Some((id, o)) = obs_from_json(&v) {
                        rel.insert(id, o);
                    }
                }
            }
        }
        let st = ch.wait();
        if !matches!(st, Ok(s) if s.success()) {
            emit_violation_nf("harness-release-crash", format!("release worker ended with {st:?} after {} of {} observations", rel.len(), cases.len()), json!({}));
        }
    }

    // ---- 3/4. predicate and model terms
    let mut dist: BTreeMap<String, usize> = BTreeMap::new();
    let mut outcomes: BTreeMap<String, usize> = BTreeMap::new();
    let mut rejected_by_panic: BTreeMap<String, usize> = BTreeMap::new();
    let mut bytes_equal = 0usize;
    let mut bytes_differ = 0usize;
    for (c, d) in cases.iter().zip(&dbg) {
        *dist.entry(format!("{}/{}", c.kind, c.draw)).or_default() += 1;
        let Some(r) = rel.get(&c.id) else { continue };
        let (sat_key, arith_key, what) = keys(c.kind);
        let e = expect(c);
        let representable = matches!(e, Expect::Exactly(_) | Expect::AnyOf(_));
        let ctx = json!({"case": c.id, "kind": c.kind, "a": c.a, "b": c.b, "n": c.n, "draw": c.draw, "source": describe(c),
            "debug": {"outcome": d.class, "fields": d.fields.iter().take(60).collect::<Vec<_>>(), "message": d.msg},
            "release": {"outcome": r.class, "fields": r.fields.iter().take(60).collect::<Vec<_>>(), "message": r.msg},
            "representable": representable});
        *outcomes.entry(format!("{}:{}{}", c.kind, if representable { "fits:" } else { "unfit:" }, if d.class == r.class { d.class.clone() } else { format!("{}|{}", d.class, r.class) })).or_default() += 1;
        // whole-font cases: "error" and "panic" are both a failed build (which job fails first can
        // depend on the schedule); the direct call distinguishes Err from a panic
        let agree = if c.kind == "widthclass" {
            d.class == r.class && d.fields == r.fields
        } else {
            (d.class == "font") == (r.class == "font") && d.fields == r.fields
        };
        if d.class == "font" && r.class == "font" {
            if d.sha == r.sha { bytes_equal += 1 } else { bytes_differ += 1 }
        }
        if !agree {
            emit_violation(
                arith_key,
                format!(
                    "{what}: a={} b={} n={}: debug build -> {} {}, release build -> {} {}",
                    c.a, c.b, c.n, d.class,
                    if d.class == "font" { format!("{:?}", &d.fields[..d.fields.len().min(24)]) } else { d.msg.clone() },
                    r.class,
                    if r.class == "font" { format!("{:?}", &r.fields[..r.fields.len().min(24)]) } else { r.msg.clone() }
                ),
                ctx.clone(),
            );
        } else if d.class == "font" {
            if !meets(&e, &d.fields) {
                let want = match &e {
                    Expect::Exactly(v) | Expect::IfEmitted(v) => format!("representable, faithful fields {:?}", &v[..v.len().min(24)]),
                    Expect::AnyOf(v) => format!("representable, e.g. {:?}", &v[0].0[..v[0].0.len().min(24)]),
                    Expect::MustReject => "not representable: the build must fail or fall back".to_string(),
                };
                emit_violation(sat_key, format!("{what}: a={} b={} n={}: both builds emit a font with {:?}; {}", c.a, c.b, c.n, &d.fields[..d.fields.len().min(24)], want), ctx.clone());
            }
        } else {
            if d.class == "panic" {
                *rejected_by_panic.entry(c.kind.to_string()).or_default() += 1;
            }
            if representable {
                emit_violation(&format!("{}:representable-value-rejected", sat_key.rsplit_once(':').map(|x| x.0).unwrap_or(c.kind)), format!("{what}: a={} b={} n={}: representable, but both builds fail: {}", c.a, c.b, c.n, d.msg), ctx.clone());
            }
        }
        if let Some(coq) = coq_case(c, d, r) {
            emit_case(c.id, c.kind, coq, None, c.draw != "inrange", format!("{}:{}:{}:{}", c.kind, c.a, c.b, c.n), ctx);
        }
    }
    emit_stat(json!({
        "narrowing_idiom_lines_found": scan.found, "site_table_entries": scan.listed, "sites_by_class": scan.by_class,
        "input_classes": dist, "outcomes_kind_fit_class": outcomes, "rejected_by_panic_in_both_profiles": rejected_by_panic,
        "fonts_byte_identical_across_profiles": bytes_equal, "fonts_differing_across_profiles": bytes_differ,
        "cases": cases.len(), "release_observations": rel.len(),
    }));
}
