//! C03: outlines at every master location reproduce that master's drawing.
//!
//! Per generated variable source (three of four designspace + UFO with sparse masters as layers, every fourth a
//! Glyphs 3 file with sparse masters as brace layers; 1-3 axes, optionally a point axis; on-axis, corner,
//! intermediate and sparse per-glyph masters; line, quadratic, cubic, empty, composite and mixed glyphs; with
//! and without vertical metrics):
//!   * the REAL compiler builds the variable font in process (Options.ir_dir on), and every master alone
//!     (the master's own static build);
//!   * glyf / gvar / hmtx / vmtx of both are decoded with read-fonts; the per-glyph GvarFragment the backend
//!     left in the ir_dir (regions with exact tents, every delta with its `required` flag), the glyph IR and the
//!     static metadata are read back (no hooks);
//!   * the PROPERTY PREDICATE is evaluated directly on the font: an evaluator written here from the OpenType
//!     spec (tuple scalars, inferred deltas for un-referenced points, accumulation) instantiates every glyph
//!     at every master location of that glyph - as stored (2.14 tents and coordinates, as a rasteriser reads
//!     them) and with the regions' exact tents - and compares every point / component offset / phantom point
//!     with the master's own static build within 0.5 + 0.5 * (sum of the scalars of the regions that reach the
//!     location), exactly at the default; skrifa (independent evaluator) instantiates the same glyphs and both
//!     must agree (composites: flattened);
//!   * per glyph one Gallina term compares the MODEL (FV.C03.Check.check_glyph: C07 variation model on the
//!     masters' point sequences, rounding, phantom points, to_deltas, packing, the spec evaluator in Coq)
//!     with what the implementation produced, and runs the certified checker `glyph_ok` on the decoded font.
//!
//! `--only <font id>` re-runs one generated font, `--debug` lets panics print.
use fontdrasil::coords::NormalizedLocation;
use fontdrasil::types::Tag;
use fontir::orchestration::{Persistable, WorkId as FeWorkId};
use fontir::paths::Paths as FePaths;
use serde_json::{json, Value};
use skrifa::instance::{LocationRef, Size};
use skrifa::outline::{DrawSettings, OutlinePen};
use skrifa::raw::tables::glyf::{Anchor, Glyph as RGlyph};
use skrifa::raw::types::{F2Dot14, GlyphId};
use skrifa::raw::TableProvider;
use skrifa::{FontRef, MetadataProvider};
use std::collections::{BTreeMap, BTreeSet};
use std::str::FromStr;
use vh::srcgen::*;
use vh::*;

// ---------------------------------------------------------------------------------------------
// source description
// ---------------------------------------------------------------------------------------------
#[derive(Clone, Debug)]
struct AxisSpec {
    tag: &'static str,
    name: &'static str,
    def: i64,
    unit: i64,
    neg: bool, // axis extends below the default
    pos: bool, // axis extends above the default (false: the default is the axis maximum)
}

#[derive(Clone, Debug)]
struct MasterSpec {
    name: String,
    /// k per axis: normalized coordinate k/d
    loc: Vec<i64>,
    sparse: bool,
    /// Glyphs sources: a brace layer attached to the full master `.0` that names only the `.1` leading axes; the
    /// other axes keep the associated master's values (`loc` is that intended location)
    brace: Option<(usize, usize)>,
}

#[derive(Clone, Debug, PartialEq)]
enum GKind {
    Line,
    Quad,
    Cubic,
    Empty,
    Composite,
}

#[derive(Clone, Debug)]
struct GlyphSpec {
    name: String,
    kind: GKind,
    /// masters (indices) that define the glyph, default first
    masters: Vec<usize>,
    /// drawing per defining master (parallel to `masters`)
    draw: Vec<GlyphSrc>,
    /// explicit public.verticalOrigin per defining master
    vorigin: Vec<Option<f64>>,
    style: &'static str,
    /// a composite the compiler must decompose per master: it repeats a base with different 2x2 transforms and
    /// lists the components in a different order in some master, or its 2x2 differs between masters
    decompose: bool,
}

#[derive(Clone, Debug)]
struct Case {
    id: usize,
    d: i64,
    axes: Vec<AxisSpec>,
    masters: Vec<MasterSpec>,
    glyphs: Vec<GlyphSpec>,
    vertical: bool,
    layout: &'static str,
    /// an extra axis with minimum = default = maximum (not an axis of variation)
    point_axis: bool,
    keep_direction: bool,
    /// written as a Glyphs 3 source (sparse masters = brace layers) instead of designspace + UFO
    glyphs_source: bool,
    /// Glyphs 2 file format (brace coordinates in the layer name) instead of Glyphs 3
    glyphs_v2: bool,
}

const AXES: [(&str, &str); 3] = [("wght", "Weight"), ("wdth", "Width"), ("opsz", "Optical")];
const ASC: f64 = 800.0;

fn frac(rng: &mut Rng) -> f64 {
    match rng.below(10) {
        0 => 0.5,
        1 => 0.25,
        2 => 0.75,
        _ => 0.0,
    }
}

/// segments: (number of off-curve points before the on-curve point, on-curve type)
fn gen_topology(rng: &mut Rng, kind: &GKind) -> Vec<Vec<Pt>> {
    let nc = rng.range(1, 2) as usize;
    let mut out = Vec::new();
    for _ in 0..nc {
        let mut c: Vec<Pt> = Vec::new();
        match kind {
            GKind::Line => {
                for _ in 0..rng.range(3, 6) {
                    c.push(Pt::Line);
                }
            }
            GKind::Quad => {
                if rng.chance(1, 12) {
                    // TrueType contour without on-curve points
                    for _ in 0..rng.range(3, 5) {
                        c.push(Pt::Off);
                    }
                } else {
                    let nseg = rng.range(2, 4) as usize;
                    let offs: Vec<usize> = (0..nseg).map(|_| rng.below(3) as usize).collect();
                    // on_0, offs_1, on_1, ..., offs_0 (closing segment)
                    for i in 0..nseg {
                        if i > 0 {
                            for _ in 0..offs[i] {
                                c.push(Pt::Off);
                            }
                        }
                        c.push(if offs[i] == 0 { Pt::Line } else { Pt::QCurve });
                    }
                    for _ in 0..offs[0] {
                        c.push(Pt::Off);
                    }
                    if c.iter().filter(|p| **p != Pt::Off).count() < 2 || c.len() < 3 {
                        c = vec![Pt::Line, Pt::Off, Pt::QCurve, Pt::Line];
                    }
                }
            }
            GKind::Cubic => {
                let nseg = rng.range(2, 3) as usize;
                let offs: Vec<usize> = (0..nseg).map(|_| if rng.chance(2, 3) { 2 } else { 0 }).collect();
                for i in 0..nseg {
                    if i > 0 {
                        for _ in 0..offs[i] {
                            c.push(Pt::Off);
                        }
                    }
                    c.push(if offs[i] == 0 { Pt::Line } else { Pt::Curve });
                }
                for _ in 0..offs[0] {
                    c.push(Pt::Off);
                }
                if c.len() < 3 {
                    c = vec![Pt::Line, Pt::Off, Pt::Off, Pt::Curve, Pt::Line];
                }
            }
            _ => {}
        }
        out.push(c);
    }
    out
}

/// no two cyclically adjacent points coincide after rounding, no on-curve point is (before or after
/// rounding) the midpoint of two off-curve neighbours: the point structure of the compiled outline is then
/// the same whether the master is built alone or with the others
fn degenerate(c: &[(f64, f64, Pt)]) -> bool {
    let n = c.len();
    let r = |v: f64| (v + 0.5).floor();
    for i in 0..n {
        let (p0, p1, p2) = (&c[(i + n - 1) % n], &c[i], &c[(i + 1) % n]);
        if r(p1.0) == r(p2.0) && r(p1.1) == r(p2.1) {
            return true;
        }
        if p1.2 != Pt::Off && p0.2 == Pt::Off && p2.2 == Pt::Off {
            let mid = ((p0.0 + p2.0) / 2.0, (p0.1 + p2.1) / 2.0);
            if ((mid.0 - p1.0).abs() < 1e-6 && (mid.1 - p1.1).abs() < 1e-6) || (r(p0.0) + r(p2.0) == 2.0 * r(p1.0) && r(p0.1) + r(p2.1) == 2.0 * r(p1.1)) {
                return true;
            }
        }
        // consecutive off-curve points: the implied point between them must not coincide with a neighbour
        if p1.2 == Pt::Off && p2.2 == Pt::Off && r(p1.0) == r(p2.0) && r(p1.1) == r(p2.1) {
            return true;
        }
    }
    false
}

fn lerp_loc(m: &MasterSpec, d: i64) -> Vec<f64> {
    m.loc.iter().map(|k| *k as f64 / d as f64).collect()
}

fn gen_glyph(rng: &mut Rng, case: &Case, name: &str, kind: GKind, masters: Vec<usize>, bases: &[String]) -> GlyphSpec {
    let style = *rng.pick(&["random", "linear", "identical", "translate", "few", "tie"]);
    let nm = masters.len();
    let naxes = case.axes.len();
    let mut draw: Vec<GlyphSrc> = Vec::new();
    let mut vorigin = Vec::new();
    let implied_mode = if kind == GKind::Quad { match rng.below(8) { 0 => 1, 1 => 2, _ => 0 } } else { 0 };
    let adv0 = rng.range(200, 900) as f64;
    let adv_slope: Vec<f64> = (0..naxes).map(|_| rng.range(-150, 300) as f64).collect();
    let mut attempt = 0;
    loop {
        attempt += 1;
        draw.clear();
        vorigin.clear();
        // a composite with an outline of its own: fontir moves the outline into a new component glyph
        // (only over components that are drawn at every master of this glyph: the decomposed outline at a master
        // is then that master's drawing, not an interpolation of the component)
        let drawn_everywhere: Vec<String> = bases.iter().filter(|b| case.glyphs.iter().any(|g| &g.name == *b && masters.iter().all(|m| g.masters.contains(m)))).cloned().collect();
        let mixed = kind == GKind::Composite && rng.chance(1, 6) && !drawn_everywhere.is_empty();
        let bases: &[String] = if mixed { &drawn_everywhere } else { bases };
        let topo = if matches!(kind, GKind::Line | GKind::Quad | GKind::Cubic) { gen_topology(rng, &kind) } else if mixed { gen_topology(rng, &GKind::Line) } else { vec![] };
        let npts: usize = topo.iter().map(|c| c.len()).sum();
        let base: Vec<(f64, f64)> = (0..npts).map(|_| (rng.range(-50, 700) as f64 + frac(rng), rng.range(-200, 750) as f64 + frac(rng))).collect();
        let slopes: Vec<Vec<(f64, f64)>> = (0..npts).map(|_| (0..naxes).map(|_| (rng.range(-80, 80) as f64, rng.range(-80, 80) as f64)).collect()).collect();
        let moving: BTreeSet<usize> = (0..npts).filter(|_| rng.chance(1, 4)).collect();
        let ncomp = if kind == GKind::Composite { rng.range(1, 3) as usize } else { 0 };
        let comp_base: Vec<(String, [f64; 4], (f64, f64))> = (0..ncomp)
            .map(|_| {
                let b = rng.pick(bases).clone();
                let t = match rng.below(5) {
                    0 => [0.5, 0.0, 0.0, 0.5],
                    1 => [-1.0, 0.0, 0.0, 1.0],
                    2 => [1.0, 0.25, 0.0, 1.0],
                    _ => [1.0, 0.0, 0.0, 1.0],
                };
                (b, t, (rng.range(-100, 400) as f64 + frac(rng), rng.range(-100, 400) as f64 + frac(rng)))
            })
            .collect();
        let comp_slopes: Vec<Vec<(f64, f64)>> = (0..ncomp).map(|_| (0..naxes).map(|_| (rng.range(-90, 90) as f64, rng.range(-90, 90) as f64)).collect()).collect();
        let mut ok = true;
        for (mi, &m) in masters.iter().enumerate() {
            let ms = &case.masters[m];
            let l = lerp_loc(ms, case.d);
            let shift = (rng.range(-40, 40) as f64, rng.range(-40, 40) as f64);
            let mut pts: Vec<(f64, f64)> = Vec::new();
            for i in 0..npts {
                let lin = (0..naxes).fold((0.0, 0.0), |a, ax| (a.0 + l[ax] * slopes[i][ax].0, a.1 + l[ax] * slopes[i][ax].1));
                let q = |v: f64| (v * 4.0).round() / 4.0;
                let p = if mi == 0 {
                    base[i]
                } else {
                    match style {
                        "random" => (base[i].0 + rng.range(-40, 40) as f64 + frac(rng), base[i].1 + rng.range(-40, 40) as f64 + frac(rng)),
                        "linear" => (q(base[i].0 + lin.0), q(base[i].1 + lin.1)),
                        "identical" => {
                            if rng.chance(1, 2) || ms.sparse {
                                base[i]
                            } else {
                                (q(base[i].0 + lin.0), q(base[i].1 + lin.1))
                            }
                        }
                        "translate" => (base[i].0 + shift.0, base[i].1 + shift.1),
                        "few" => {
                            if moving.contains(&i) {
                                (base[i].0 + rng.range(-30, 30) as f64, base[i].1 + rng.range(-30, 30) as f64)
                            } else {
                                base[i]
                            }
                        }
                        _ => {
                            // "tie": linear in the location plus a half: deltas of x.5 before rounding
                            let h = if ms.loc.iter().any(|k| k.abs() != case.d && *k != 0) { 0.5 } else { 0.0 };
                            ((base[i].0 + lin.0).round() + h, (base[i].1 + lin.1).round() - h)
                        }
                    }
                };
                pts.push(p);
            }
            let mut g = GlyphSrc::new(name, 0.0);
            let mut k = 0;
            for c in &topo {
                let cc: Vec<(f64, f64, Pt)> = c
                    .iter()
                    .map(|t| {
                        let p = pts[k];
                        k += 1;
                        (p.0, p.1, t.clone())
                    })
                    .collect();
                let mut cc = cc;
                // an on-curve point exactly between two off-curve neighbours is implied: dropped from the
                // compiled outline when it is implied in every master (implied_mode 1), kept - but dropped from
                // the static build of a master where it is - when only in some (implied_mode 2)
                let mut exempt = false;
                if implied_mode > 0 && (implied_mode == 1 || mi == 0 || rng.chance(1, 2)) {
                    let nn = cc.len();
                    if let Some(j) = (0..nn).find(|j| cc[*j].2 != Pt::Off && cc[(*j + nn - 1) % nn].2 == Pt::Off && cc[(*j + 1) % nn].2 == Pt::Off) {
                        let (a, b) = (cc[(j + nn - 1) % nn].clone(), cc[(j + 1) % nn].clone());
                        cc[j].0 = (a.0 + b.0) / 2.0;
                        cc[j].1 = (a.1 + b.1) / 2.0;
                        exempt = true;
                    }
                }
                if implied_mode == 0 && degenerate(&cc) {
                    ok = false;
                }
                let _ = exempt;
                g.contours.push(cc);
            }
            for (ci, (b, t, off)) in comp_base.iter().enumerate() {
                let lin = (0..naxes).fold((0.0, 0.0), |a, ax| (a.0 + l[ax] * comp_slopes[ci][ax].0, a.1 + l[ax] * comp_slopes[ci][ax].1));
                let o = if mi == 0 {
                    *off
                } else {
                    match style {
                        "identical" => *off,
                        "linear" | "tie" => ((off.0 + lin.0).round() + if style == "tie" { 0.5 } else { 0.0 }, (off.1 + lin.1).round()),
                        _ => (off.0 + rng.range(-60, 60) as f64 + frac(rng), off.1 + rng.range(-60, 60) as f64 + frac(rng)),
                    }
                };
                g.components.push((b.clone(), [t[0], t[1], t[2], t[3], o.0, o.1]));
            }
            // advance: varies with the location; sometimes fractional
            let lin_adv: f64 = (0..naxes).map(|ax| l[ax] * adv_slope[ax]).sum();
            g.advance = match style {
                "identical" => adv0,
                "random" | "few" => (adv0 + rng.range(-100, 200) as f64 + if mi > 0 { frac(rng) } else { 0.0 }).max(0.0),
                _ => (adv0 + lin_adv).round().max(0.0) + if style == "tie" && mi > 0 { 0.5 } else { 0.0 },
            };
            if case.vertical {
                g.height = Some((1000.0 + if mi == 0 { 0.0 } else { rng.range(-50, 80) as f64 + frac(rng) }).max(0.0));
                vorigin.push(if rng.chance(5, 6) { Some(ASC + 80.0 + if mi == 0 { 0.0 } else { rng.range(-40, 40) as f64 }) } else { None });
            } else {
                vorigin.push(None);
            }
            draw.push(g);
        }
        // a glyph either has a vertical origin in every master or in none
        if vorigin.iter().any(|v| v.is_none()) {
            for v in vorigin.iter_mut() {
                *v = None;
            }
        }
        if ok || attempt > 20 {
            break;
        }
    }
    let _ = nm;
    let style = match implied_mode { 1 => "implied-everywhere", 2 => "implied-somewhere", _ => style };
    let style = if kind == GKind::Composite && !draw[0].contours.is_empty() { "mixed-outline-and-components" } else { style };
    GlyphSpec { name: name.into(), kind, masters, draw, vorigin, style, decompose: false }
}


/// A composite fontbe cannot keep: component i of the default is not component i of every master.
/// "reordered": the same base twice (or three times) with different 2x2 transforms, listed in another order in
/// some non-default master (the SET of (base, 2x2) pairs is the same everywhere); "varying-2x2": a component whose
/// scale differs between masters. The correct compiler decomposes such a glyph master by master, in each master's
/// own component order.
fn gen_decomposing_composite(rng: &mut Rng, case: &Case, name: &str, masters: Vec<usize>, bases: &[String]) -> GlyphSpec {
    let reordered = rng.chance(2, 3);
    let b = rng.pick(bases).clone();
    let scales: Vec<[f64; 4]> = vec![[1.0, 0.0, 0.0, 1.0], [0.5, 0.0, 0.0, 0.5], [0.75, 0.0, 0.0, 0.75], [0.5, 0.0, 0.0, 1.0]];
    let ncomp = if reordered { rng.range(2, 3) as usize } else { rng.range(1, 2) as usize };
    // distinct 2x2 per component
    let mut ts: Vec<[f64; 4]> = scales.clone();
    rng.shuffle(&mut ts);
    ts.truncate(ncomp);
    let offs: Vec<(f64, f64)> = (0..ncomp).map(|i| (rng.range(-50, 200) as f64 + 450.0 * i as f64, rng.range(-100, 200) as f64)).collect();
    let mut draw = Vec::new();
    let mut vorigin = Vec::new();
    let adv0 = rng.range(600, 1500) as f64;
    let mut any_change = false;
    for (mi, _) in masters.iter().enumerate() {
        let last = mi + 1 == masters.len();
        let mut g = GlyphSrc::new(name, adv0 + if mi == 0 { 0.0 } else { rng.range(-60, 120) as f64 });
        let mut comps: Vec<(String, [f64; 6])> = (0..ncomp)
            .map(|i| {
                let o = if mi == 0 { offs[i] } else { (offs[i].0 + rng.range(-40, 60) as f64 + frac(rng), offs[i].1 + rng.range(-40, 60) as f64 + frac(rng)) };
                let mut t = ts[i];
                if !reordered && mi > 0 && i == 0 && (rng.chance(1, 2) || (last && !any_change)) {
                    // another scale in this master
                    t = *scales.iter().find(|s| **s != ts[i]).unwrap();
                    any_change = true;
                }
                (b.clone(), [t[0], t[1], t[2], t[3], o.0, o.1])
            })
            .collect();
        if reordered && mi > 0 && (rng.chance(1, 2) || (last && !any_change)) {
            comps.reverse();
            any_change = true;
        }
        g.components = comps;
        if case.vertical {
            g.height = Some(1000.0);
            vorigin.push(Some(ASC + 80.0));
        } else {
            vorigin.push(None);
        }
        draw.push(g);
    }
    GlyphSpec { name: name.into(), kind: GKind::Composite, masters, draw, vorigin, style: if reordered { "components-reordered" } else { "components-2x2-varies" }, decompose: true }
}

/// the drawing of a to-be-decomposed composite at its master `mi`, decomposed here: every component's base as that
/// master draws it, through the component's 2x2 and offset, in that master's component order
fn flat_draw(case: &Case, g: &GlyphSpec, mi: usize) -> GlyphSrc {
    let m = g.masters[mi];
    let d = &g.draw[mi];
    let mut out = GlyphSrc::new(&g.name, d.advance);
    out.height = d.height;
    out.contours = d.contours.clone();
    for (b, t) in &d.components {
        let bg = case.glyphs.iter().find(|x| &x.name == b).expect("base exists");
        let bi = bg.masters.iter().position(|x| *x == m).expect("base is drawn at every master of the composite");
        for c in &bg.draw[bi].contours {
            out.contours.push(c.iter().map(|(x, y, ty)| (t[0] * x + t[2] * y + t[4], t[1] * x + t[3] * y + t[5], ty.clone())).collect());
        }
    }
    out
}

fn gen_case(rng: &mut Rng, id: usize, glyphs_source: bool) -> Case {
    let naxes = match (rng.below(10), glyphs_source) {
        (0..=4, false) | (0..=2, true) => 1,
        (5..=7, false) | (3..=7, true) => 2,
        _ => 3,
    };
    let layout = *rng.pick(&["on-axis", "corners", "intermediate", "mixed", "diagonal"]);
    // Off-axis masters on a grid f64 does not represent exactly make the trimming of regions depend on the last
    // bit of equal cut ratios (the model computes them exactly): thirds, fifths, tenths only where every region
    // has a single axis to cut (one axis, or all masters on the axes); they still exercise the 2.14 rounding of
    // tents and coordinates and f64 delta weights.
    let d: i64 = if naxes == 1 || layout == "on-axis" || layout == "intermediate" { *rng.pick(&[2, 4, 8, 3, 6, 5, 10, 16]) } else { *rng.pick(&[2, 4, 4, 8, 16]) };
    let axes: Vec<AxisSpec> = (0..naxes)
        .map(|a| AxisSpec { tag: AXES[a].0, name: AXES[a].1, def: *rng.pick(&[0, 100, 400]), unit: *rng.pick(&[5, 10, 25, 50]), neg: rng.chance(1, 3) && !glyphs_source, pos: true })
        .collect();
    let mut case = Case { id, d, axes, masters: vec![], glyphs: vec![], vertical: rng.chance(1, 4), layout: "", point_axis: false, keep_direction: false, glyphs_source, glyphs_v2: false };
    case.glyphs_v2 = glyphs_source && rng.chance(1, 3);
    case.point_axis = rng.chance(1, 10) && !glyphs_source;
    case.keep_direction = rng.chance(1, 8);
    if glyphs_source {
        case.vertical = false;
    }
    // ---- master layout -----------------------------------------------------------------------
    let mut locs: Vec<Vec<i64>> = vec![vec![0; naxes]];
    let steps: Vec<i64> = {
        let mut s: Vec<i64> = (1..d).filter(|k| (d % 2 != 0) || k % (d / 2).max(1) == 0 || rng.chance(1, 3)).collect();
        s.push(d);
        s
    };
    let pickc = |rng: &mut Rng, a: usize, case: &Case| -> i64 {
        let v = *rng.pick(&steps);
        if case.axes[a].neg && rng.chance(1, 3) { -v } else { v }
    };
    case.layout = layout;
    match case.layout {
        "on-axis" => {
            for a in 0..naxes {
                let mut l = vec![0; naxes];
                l[a] = d;
                locs.push(l);
                if case.axes[a].neg {
                    let mut l = vec![0; naxes];
                    l[a] = -d;
                    locs.push(l);
                }
            }
        }
        "corners" => {
            for a in 0..naxes {
                let mut l = vec![0; naxes];
                l[a] = d;
                locs.push(l);
            }
            if naxes >= 2 {
                locs.push(vec![d; naxes]);
                if rng.chance(1, 2) {
                    let mut l = vec![d; naxes];
                    l[0] = 0;
                    locs.push(l);
                }
            }
        }
        "intermediate" => {
            for a in 0..naxes {
                let mut l = vec![0; naxes];
                l[a] = d;
                locs.push(l);
                for _ in 0..rng.range(1, 2) {
                    let mut l = vec![0; naxes];
                    l[a] = pickc(rng, a, &case);
                    locs.push(l);
                }
            }
        }
        "diagonal" => {
            for k in &steps {
                if rng.chance(2, 3) {
                    locs.push(vec![*k; naxes]);
                }
            }
            locs.push(vec![d; naxes]);
            if naxes >= 2 {
                let mut l = vec![d; naxes];
                l[0] = steps[0];
                locs.push(l);
            }
        }
        _ => {
            for a in 0..naxes {
                let mut l = vec![0; naxes];
                l[a] = d;
                locs.push(l);
            }
            for _ in 0..rng.range(1, 4) {
                let l: Vec<i64> = (0..naxes).map(|a| if rng.chance(1, 3) { 0 } else { pickc(rng, a, &case) }).collect();
                locs.push(l);
            }
        }
    }
    // Glyphs sources with two or more axes: intermediate masters that will be written as brace layers naming only the
    // leading axis / axes, attached to the master at the end of a trailing axis (off-default on an unnamed axis)
    if glyphs_source && naxes >= 2 && d >= 2 {
        let mut extra: Vec<Vec<i64>> = Vec::new();
        for a in 1..naxes {
            let mut e = vec![0; naxes];
            e[a] = d;
            extra.push(e.clone());
            if rng.chance(3, 4) {
                let mut l = e.clone();
                l[0] = rng.range(1, d - 1);
                extra.push(l);
            }
            if a == 2 && rng.chance(1, 2) {
                let mut l = e.clone();
                l[0] = rng.range(1, d - 1);
                l[1] = rng.range(1, d - 1);
                extra.push(l);
            }
        }
        let rest: Vec<Vec<i64>> = locs.drain(1..).collect();
        locs.extend(extra);
        locs.extend(rest);
    }
    // now and then an axis whose default is its maximum: mirror it
    for a in 0..naxes {
        if !case.axes[a].neg && rng.chance(1, 7) {
            case.axes[a].neg = true;
            case.axes[a].pos = false;
            for l in locs.iter_mut() {
                l[a] = -l[a].abs();
            }
        }
    }
    let mut seen = BTreeSet::new();
    locs.retain(|l| seen.insert(l.clone()));
    // at most 8 masters; the ones that span the axes stay (a Glyphs source takes the axis ranges from them)
    if locs.len() > 8 {
        let (ends, rest): (Vec<Vec<i64>>, Vec<Vec<i64>>) = locs[1..].iter().cloned().partition(|l| l.iter().any(|k| k.abs() == d));
        let mut kept = vec![locs[0].clone()];
        kept.extend(ends);
        kept.extend(rest);
        kept.truncate(8);
        locs = kept;
    }
    // which masters are sparse (layers of the default master's UFO): never the default, never an axis end
    for (i, l) in locs.iter().enumerate() {
        let is_end = l.iter().filter(|k| **k != 0).count() == 1 && l.iter().any(|k| k.abs() == d);
        let touches_end = l.iter().any(|k| k.abs() == d);
        let sparse = i > 0 && !is_end && rng.chance(1, 2) && !(glyphs_source && touches_end);
        case.masters.push(MasterSpec { name: format!("M{i}"), loc: l.clone(), sparse, brace: None });
    }
    // Glyphs sources: an intermediate master that agrees with a full master A on all axes after the first p, and is
    // not at an axis end on the first p, becomes a brace layer of A with p coordinates
    if glyphs_source && naxes >= 2 {
        let n = case.masters.len();
        for i in 1..n {
            let l = case.masters[i].loc.clone();
            let is_end = l.iter().filter(|k| **k != 0).count() == 1 && l.iter().any(|k| k.abs() == d);
            if is_end {
                continue;
            }
            let mut found = None;
            'search: for p in 1..naxes {
                if l[..p].iter().any(|k| k.abs() == d) || l[p..].iter().all(|k| *k == 0) {
                    continue;
                }
                for a in 0..n {
                    let al = &case.masters[a].loc;
                    let a_end = al.iter().filter(|k| **k != 0).count() == 1 && al.iter().any(|k| k.abs() == d);
                    if a != i && a_end && al[p..] == l[p..] && al[..p] != l[..p] {
                        found = Some((a, p));
                        break 'search;
                    }
                }
            }
            if let Some(f) = found {
                if rng.chance(4, 5) {
                    case.masters[i].sparse = true;
                    case.masters[i].brace = Some(f);
                }
            }
        }
    }
    // ---- glyphs ------------------------------------------------------------------------------------
    let full: Vec<usize> = (0..case.masters.len()).filter(|i| !case.masters[*i].sparse).collect();
    let sparse: Vec<usize> = (0..case.masters.len()).filter(|i| case.masters[*i].sparse).collect();
    let kinds = [GKind::Line, GKind::Quad, GKind::Cubic, GKind::Empty, GKind::Line, GKind::Quad];
    let nsimple = rng.range(2, 4) as usize;
    let mut names: Vec<String> = Vec::new();
    for gi in 0..nsimple {
        let name = ["a", "b", "c", "d"][gi].to_string();
        let kind = if gi == 0 { GKind::Line } else { rng.pick(&kinds).clone() };
        let mut ms = full.clone();
        for s in &sparse {
            if rng.chance(if case.masters[*s].brace.is_some() { 3 } else { 2 }, 4) {
                ms.push(*s);
            }
        }
        // now and then a glyph is missing from a non-default full master
        if gi > 0 && full.len() > 2 && rng.chance(1, 8) && !glyphs_source {
            let drop = full[rng.range(1, full.len() as i64 - 1) as usize];
            ms.retain(|m| *m != drop);
        }
        ms.sort();
        let g = gen_glyph(rng, &case, &name, kind, ms, &[]);
        case.glyphs.push(g);
        names.push(name);
    }
    let bases: Vec<String> = case.glyphs.iter().filter(|g| matches!(g.kind, GKind::Line | GKind::Quad | GKind::Cubic) && full.iter().all(|m| g.masters.contains(m))).map(|g| g.name.clone()).collect();
    if !bases.is_empty() {
        for ci in 0..rng.range(1, 2) as usize {
            let name = ["k", "l"][ci].to_string();
            let mut ms = full.clone();
            for s in &sparse {
                if rng.chance(1, 2) {
                    ms.push(*s);
                }
            }
            ms.sort();
            let g = gen_glyph(rng, &case, &name, GKind::Composite, ms, &bases);
            case.glyphs.push(g);
        }
    }
    // a composite that has to be decomposed (components reordered / 2x2 varying between masters), over a base that is
    // drawn at every master of the composite; its masters: the full ones and the sparse ones the base has
    if case.masters.len() > 1 && rng.chance(2, 5) {
        let cands: Vec<String> = case.glyphs.iter().filter(|g| matches!(g.kind, GKind::Line | GKind::Quad | GKind::Cubic) && full.iter().all(|m| g.masters.contains(m))).map(|g| g.name.clone()).collect();
        if !cands.is_empty() {
            let b = rng.pick(&cands).clone();
            let bm = case.glyphs.iter().find(|g| g.name == b).unwrap().masters.clone();
            let mut ms = full.clone();
            for sp in &sparse {
                if bm.contains(sp) && rng.chance(1, 2) {
                    ms.push(*sp);
                }
            }
            ms.sort();
            let g = gen_decomposing_composite(rng, &case, "m", ms, &[b]);
            case.glyphs.push(g);
        }
    }
    // every sparse master must define at least one glyph
    for s in &sparse {
        if !case.glyphs.iter().any(|g| g.masters.contains(s)) {
            let g0 = case.glyphs[0].clone();
            let mut ms = g0.masters.clone();
            ms.push(*s);
            ms.sort();
            let ng = gen_glyph(rng, &case, &g0.name, g0.kind.clone(), ms, &[]);
            case.glyphs[0] = ng;
        }
    }
    case
}

// ---------------------------------------------------------------------------------------------
// writing sources
// ---------------------------------------------------------------------------------------------
fn user(ax: &AxisSpec, k: i64) -> f64 {
    (ax.def + k * ax.unit) as f64
}

/// `alone`: for the master's own static build, where a to-be-decomposed composite is drawn decomposed
fn master_glyphs(case: &Case, m: usize, alone: bool) -> Vec<(GlyphSrc, Option<f64>)> {
    let mut v = Vec::new();
    for g in &case.glyphs {
        if let Some(i) = g.masters.iter().position(|x| *x == m) {
            v.push((if alone && g.decompose { flat_draw(case, g, i) } else { g.draw[i].clone() }, g.vorigin[i]));
        }
    }
    v
}

fn vertical_fontinfo() -> Vec<(String, String)> {
    vec![
        ("openTypeVheaVertTypoAscender".into(), "<integer>500</integer>".into()),
        ("openTypeVheaVertTypoDescender".into(), "<integer>-500</integer>".into()),
        ("openTypeVheaVertTypoLineGap".into(), "<integer>0</integer>".into()),
    ]
}

/// srcgen does not write glyph libs: patch public.verticalOrigin into the glif files it wrote
fn patch_vorigin(layer_dir: &std::path::Path, glyphs: &[(GlyphSrc, Option<f64>)]) {
    for (i, (_, vo)) in glyphs.iter().enumerate() {
        if let Some(v) = vo {
            let f = layer_dir.join(glif_name(i));
            if let Ok(s) = std::fs::read_to_string(&f) {
                let lib = format!("  <lib><dict><key>public.verticalOrigin</key><real>{}</real></dict></lib>\n</glyph>", v);
                let _ = std::fs::write(&f, s.replace("</glyph>", &lib));
            }
        }
    }
}

fn variable_design(case: &Case) -> Design {
    let mut d = Design { family: format!("C03v{}", case.id), upem: 1000, ..Default::default() };
    for ax in &case.axes {
        d.axes.push(AxisSrc {
            name: ax.name.into(),
            tag: ax.tag.into(),
            min: if ax.neg { user(ax, -case.d) } else { user(ax, 0) },
            default: user(ax, 0),
            max: if ax.pos { user(ax, case.d) } else { user(ax, 0) },
            map: vec![],
            hidden: false,
        });
    }
    if case.point_axis {
        d.axes.push(AxisSrc { name: "Italic".into(), tag: "ital".into(), min: 0.0, default: 0.0, max: 0.0, map: vec![], hidden: false });
    }
    for (mi, m) in case.masters.iter().enumerate() {
        let mut ms = Master { name: m.name.clone(), style: m.name.clone(), ..Default::default() };
        ms.location = case.axes.iter().zip(&m.loc).map(|(ax, k)| (ax.name.to_string(), user(ax, *k))).collect();
        if case.point_axis {
            ms.location.push(("Italic".into(), 0.0));
        }
        ms.glyphs = master_glyphs(case, mi, false).into_iter().map(|(g, _)| g).collect();
        if m.sparse {
            ms.layer_of = Some(case.masters[0].name.clone());
        }
        if case.vertical {
            ms.fontinfo = vertical_fontinfo();
        }
        d.masters.push(ms);
    }
    d
}

fn write_variable(case: &Case, dir: &std::path::Path) -> std::path::PathBuf {
    let d = variable_design(case);
    let p = d.write_designspace(dir);
    if case.vertical {
        for (mi, m) in case.masters.iter().enumerate() {
            let gl = master_glyphs(case, mi, false);
            let ufo = dir.join(Design::ufo_name(&d.masters[if m.sparse { 0 } else { mi }]));
            let layer = if m.sparse { ufo.join(format!("glyphs.L{}", mi)) } else { ufo.join("glyphs") };
            patch_vorigin(&layer, &gl);
        }
    }
    p
}

/// the master alone: its own glyphs (+ the default master's drawing of a component base it lacks)
fn write_static(case: &Case, m: usize, dir: &std::path::Path) -> std::path::PathBuf {
    let mut gl = master_glyphs(case, m, true);
    let have: BTreeSet<String> = gl.iter().map(|(g, _)| g.name.clone()).collect();
    let mut need: Vec<String> = Vec::new();
    for (g, _) in &gl {
        for (b, _) in &g.components {
            if !have.contains(b) && !need.contains(b) {
                need.push(b.clone());
            }
        }
    }
    for b in need {
        let g = case.glyphs.iter().find(|g| g.name == b).unwrap();
        gl.push((g.draw[0].clone(), g.vorigin[0]));
    }
    let mut d = Design::single(&format!("C03s{}m{}", case.id, m), gl.iter().map(|(g, _)| g.clone()).collect());
    if case.vertical {
        d.masters[0].fontinfo = vertical_fontinfo();
    }
    let p = d.write(dir);
    if case.vertical {
        patch_vorigin(&p.join("glyphs"), &gl);
    }
    p
}


// ---------------------------------------------------------------------------------------------
// Glyphs 3 sources (full masters = fontMaster entries, sparse masters = brace layers)
// ---------------------------------------------------------------------------------------------
const FILTERS: &str = "userData = {\n\"com.github.googlei18n.ufo2ft.filters\" = (\n{\nname = propagateAnchors;\npre = 1;\n}\n);\n};\n";

fn gnum(x: f64) -> String {
    if x == x.trunc() && x.abs() < 1e15 { format!("{}", x as i64) } else { format!("{}", x) }
}

fn glyphs_shapes(g: &GlyphSrc) -> String {
    let mut s = String::new();
    let mut shapes: Vec<String> = Vec::new();
    for c in &g.contours {
        // the start node of a closed path is stored last
        let all_off = c.iter().all(|p| p.2 == Pt::Off);
        let mut nodes: Vec<&(f64, f64, Pt)> = c.iter().collect();
        if !all_off {
            nodes.rotate_left(1);
        }
        let ns: Vec<String> = nodes
            .iter()
            .map(|(x, y, t)| {
                let ty = match t {
                    Pt::Line => "l",
                    Pt::Curve => "c",
                    Pt::QCurve => "q",
                    Pt::Off => "o",
                };
                format!("({},{},{})", gnum(*x), gnum(*y), ty)
            })
            .collect();
        shapes.push(format!("{{\nclosed = 1;\nnodes = (\n{}\n);\n}}", ns.join(",\n")));
    }
    for (b, t) in &g.components {
        let mut c = format!("{{\npos = ({},{});\nref = {};\n", gnum(t[4]), gnum(t[5]), b);
        if t[0] != 1.0 || t[3] != 1.0 {
            c.push_str(&format!("scale = ({},{});\n", gnum(t[0]), gnum(t[3])));
        }
        c.push_str("}");
        shapes.push(c);
    }
    if !shapes.is_empty() {
        s.push_str(&format!("shapes = (\n{}\n);\n", shapes.join(",\n")));
    }
    s
}


/// Glyphs 2 spelling of a layer's outline and components
fn glyphs_shapes_v2(g: &GlyphSrc) -> String {
    let mut s = String::new();
    if !g.components.is_empty() {
        let cs: Vec<String> = g
            .components
            .iter()
            .map(|(b, t)| format!("{{\nname = {};\ntransform = \"{{{}, {}, {}, {}, {}, {}}}\";\n}}", b, gnum(t[0]), gnum(t[1]), gnum(t[2]), gnum(t[3]), gnum(t[4]), gnum(t[5])))
            .collect();
        s.push_str(&format!("components = (\n{}\n);\n", cs.join(",\n")));
    }
    s
}
fn glyphs_paths_v2(g: &GlyphSrc) -> String {
    let mut paths: Vec<String> = Vec::new();
    for c in &g.contours {
        let all_off = c.iter().all(|p| p.2 == Pt::Off);
        let mut nodes: Vec<&(f64, f64, Pt)> = c.iter().collect();
        if !all_off {
            nodes.rotate_left(1);
        }
        let ns: Vec<String> = nodes
            .iter()
            .map(|(x, y, t)| {
                let ty = match t {
                    Pt::Line => "LINE",
                    Pt::Curve => "CURVE",
                    Pt::QCurve => "QCURVE",
                    Pt::Off => "OFFCURVE",
                };
                format!("\"{} {} {}\"", gnum(*x), gnum(*y), ty)
            })
            .collect();
        paths.push(format!("{{\nclosed = 1;\nnodes = (\n{}\n);\n}}", ns.join(",\n")));
    }
    if paths.is_empty() { String::new() } else { format!("paths = (\n{}\n);\n", paths.join(",\n")) }
}

/// `only`: Some(m) = the master m alone (its own static source)
fn glyphs_text(case: &Case, only: Option<usize>) -> String {
    let v2 = case.glyphs_v2;
    let mut s = String::from("{\n.appVersion = \"3300\";\n");
    if v2 {
        let ax: Vec<String> = case.axes.iter().map(|a| format!("{{\nName = {};\nTag = {};\n}}", a.name, a.tag)).collect();
        s.push_str(&format!("customParameters = (\n{{\nname = Axes;\nvalue = (\n{}\n);\n}},\n{{\nname = \"Variable Font Origin\";\nvalue = M0;\n}}\n);\n", ax.join(",\n")));
    } else {
        s.push_str(".formatVersion = 3;\naxes = (\n");
        let ax: Vec<String> = case.axes.iter().map(|a| format!("{{\nname = {};\ntag = {};\n}}", a.name, a.tag)).collect();
        s.push_str(&ax.join(",\n"));
        s.push_str("\n);\ncustomParameters = (\n{\nname = \"Variable Font Origin\";\nvalue = M0;\n}\n);\n");
    }
    s.push_str(&format!("familyName = \"C03g{}\";\nfontMaster = (\n", case.id));
    let values = |m: &MasterSpec| -> String { case.axes.iter().zip(&m.loc).map(|(a, k)| gnum(user(a, *k))).collect::<Vec<_>>().join(",\n") };
    // an explicit ufo2ft filter list in the default master switches the Glyphs default "erase open corners"
    // off: that filter rewrites each master on its own and can make compatible random polygons incompatible
    let master_entry = |m: &MasterSpec, id: usize, first: bool| -> String {
        if v2 {
            let keys = ["weightValue", "widthValue", "customValue"];
            let vals: Vec<String> = case.axes.iter().zip(&m.loc).enumerate().map(|(i, (a, k))| format!("{} = {};\n", keys[i], gnum(user(a, *k)))).collect();
            format!("{{\ncustom = \"Master {}\";\nid = M{};\n{}{}}}", id, id, if first { FILTERS } else { "" }, vals.join(""))
        } else {
            format!("{{\naxesValues = (\n{}\n);\nid = M{};\nname = \"Master {}\";\n{}}}", values(m), id, id, if first { FILTERS } else { "" })
        }
    };
    let fm: Vec<String> = match only {
        Some(m) => vec![master_entry(&case.masters[m], 0, true)],
        None => case.masters.iter().enumerate().filter(|(_, m)| !m.sparse).map(|(i, m)| master_entry(m, i, i == 0)).collect(),
    };
    s.push_str(&fm.join(",\n"));
    s.push_str("\n);\nglyphs = (\n");
    let body = |d: &GlyphSrc| -> String {
        if v2 { format!("{}{}", glyphs_shapes_v2(d), glyphs_paths_v2(d)) } else { glyphs_shapes(d) }
    };
    let mut gl: Vec<String> = Vec::new();
    // bases first so that components resolve in any case
    for g in &case.glyphs {
        let mut layers: Vec<String> = Vec::new();
        match only {
            Some(m) => {
                let di = g.masters.iter().position(|x| *x == m);
                // a component base the master lacks is borrowed from the default master
                let needed = case.glyphs.iter().any(|c| c.masters.contains(&m) && c.draw[0].components.iter().any(|(b, _)| *b == g.name));
                let flat;
                let d = match di {
                    Some(i) if g.decompose => {
                        flat = flat_draw(case, g, i);
                        Some(&flat)
                    }
                    Some(i) => Some(&g.draw[i]),
                    None if needed => Some(&g.draw[0]),
                    None => None,
                };
                if let Some(d) = d {
                    layers.push(format!("{{\nlayerId = M0;\n{}width = {};\n}}", body(d), gnum(d.advance)));
                }
            }
            None => {
                for (i, &m) in g.masters.iter().enumerate() {
                    let ms = &case.masters[m];
                    let d = &g.draw[i];
                    if ms.sparse {
                        // the coordinates the layer names: all axes on the default master, or only the leading ones
                        // on the master whose values the other axes keep
                        let (assoc, ncoords) = ms.brace.unwrap_or((0, case.axes.len()));
                        let named: Vec<String> = case.axes.iter().zip(&ms.loc).take(ncoords).map(|(a, k)| gnum(user(a, *k))).collect();
                        if v2 {
                            layers.push(format!(
                                "{{\nassociatedMasterId = M{};\n{}layerId = B{};\nname = \"{{{}}}\";\n{}width = {};\n}}",
                                assoc, glyphs_shapes_v2(d), m, named.join(", "), glyphs_paths_v2(d), gnum(d.advance)
                            ));
                        } else {
                            layers.push(format!(
                                "{{\nassociatedMasterId = M{};\nattr = {{\ncoordinates = (\n{}\n);\n}};\nlayerId = B{};\nname = \"brace {}\";\n{}width = {};\n}}",
                                assoc, named.join(",\n"), m, m, glyphs_shapes(d), gnum(d.advance)
                            ));
                        }
                    } else {
                        layers.push(format!("{{\nlayerId = M{};\n{}width = {};\n}}", m, body(d), gnum(d.advance)));
                    }
                }
            }
        }
        if !layers.is_empty() {
            gl.push(format!("{{\nglyphname = {};\nlayers = (\n{}\n);\n}}", g.name, layers.join(",\n")));
        }
    }
    s.push_str(&gl.join(",\n"));
    s.push_str("\n);\nunitsPerEm = 1000;\nversionMajor = 1;\nversionMinor = 0;\n}\n");
    s
}

// ---------------------------------------------------------------------------------------------
// decoding fonts
// ---------------------------------------------------------------------------------------------
#[derive(Clone, Debug)]
enum Shape {
    Empty,
    Simple { pts: Vec<(i32, i32, bool)>, ends: Vec<usize> },
    Composite { comps: Vec<(u32, (i32, i32), [f64; 4])> },
}

#[derive(Clone, Debug)]
#[allow(dead_code)]
struct Tuple {
    /// (start, peak, end) raw 2.14 per axis
    tents: Vec<(i32, i32, i32)>,
    intermediate: bool,
    /// explicit deltas by point number
    deltas: Vec<Option<(i32, i32)>>,
}

#[derive(Clone, Debug)]
struct GlyphObs {
    shape: Shape,
    advance: i32,
    vadvance: Option<i32>,
    tsb: Option<i32>,
    ymax: i32,
    tuples: Vec<Tuple>,
}

struct FontObs {
    names: Vec<String>,
    glyphs: Vec<GlyphObs>,
    axis_count: usize,
}

fn npoints(s: &Shape) -> usize {
    match s {
        Shape::Empty => 0,
        Shape::Simple { pts, .. } => pts.len(),
        Shape::Composite { comps } => comps.len(),
    }
}

fn decode_font(bytes: &[u8]) -> Result<FontObs, String> {
    let font = FontRef::new(bytes).map_err(|e| format!("unreadable font: {e}"))?;
    let names = skrifa::GlyphNames::new(&font);
    let num = font.maxp().map_err(|e| e.to_string())?.num_glyphs() as u32;
    let loca = font.loca(None).map_err(|e| e.to_string())?;
    let glyf = font.glyf().map_err(|e| e.to_string())?;
    let hmtx = font.hmtx().map_err(|e| e.to_string())?;
    let vmtx = font.vmtx().ok();
    let gvar = font.gvar().ok();
    let axis_count = font.fvar().map(|f| f.axis_count() as usize).unwrap_or(0);
    let mut out = FontObs { names: vec![], glyphs: vec![], axis_count };
    for g in 0..num {
        let gid = GlyphId::new(g);
        out.names.push(names.get(gid).map(|n| n.to_string()).unwrap_or_default());
        let mut ymax = 0;
        let shape = match loca.get_glyf(gid, &glyf).map_err(|e| e.to_string())? {
            None => Shape::Empty,
            Some(RGlyph::Simple(s)) => {
                ymax = s.y_max() as i32;
                let pts: Vec<(i32, i32, bool)> = s.points().map(|p| (p.x as i32, p.y as i32, p.on_curve)).collect();
                let ends: Vec<usize> = s.end_pts_of_contours().iter().map(|e| e.get() as usize).collect();
                Shape::Simple { pts, ends }
            }
            Some(RGlyph::Composite(c)) => {
                ymax = c.y_max() as i32;
                let mut comps = Vec::new();
                for comp in c.components() {
                    let off = match comp.anchor {
                        Anchor::Offset { x, y } => (x as i32, y as i32),
                        Anchor::Point { .. } => return Err("point-anchored component".into()),
                    };
                    let t = comp.transform;
                    comps.push((comp.glyph.to_u32(), off, [t.xx.to_f32() as f64, t.yx.to_f32() as f64, t.xy.to_f32() as f64, t.yy.to_f32() as f64]));
                }
                Shape::Composite { comps }
            }
        };
        let n = npoints(&shape) + 4;
        let mut tuples = Vec::new();
        if let Some(gv) = &gvar {
            if let Some(data) = gv.glyph_variation_data(gid).map_err(|e| format!("gvar {g}: {e}"))? {
                for t in data.tuples() {
                    let peak: Vec<i32> = t.peak().values().iter().map(|v| v.get().to_bits() as i32).collect();
                    let (inter, st, en) = match (t.intermediate_start(), t.intermediate_end()) {
                        (Some(s), Some(e)) => (
                            true,
                            s.values().iter().map(|v| v.get().to_bits() as i32).collect::<Vec<_>>(),
                            e.values().iter().map(|v| v.get().to_bits() as i32).collect::<Vec<_>>(),
                        ),
                        _ => (false, peak.iter().map(|p| (*p).min(0)).collect(), peak.iter().map(|p| (*p).max(0)).collect()),
                    };
                    let tents = (0..peak.len()).map(|i| (st[i], peak[i], en[i])).collect();
                    let mut deltas: Vec<Option<(i32, i32)>> = vec![None; n];
                    for d in t.deltas() {
                        let p = d.position as usize;
                        if p >= n {
                            return Err(format!("gvar glyph {g}: delta for point {p} of {n}"));
                        }
                        deltas[p] = Some((d.x_delta, d.y_delta));
                    }
                    tuples.push(Tuple { tents, intermediate: inter, deltas });
                }
            }
        }
        let vadvance = vmtx.as_ref().and_then(|v| v.advance(gid)).map(|a| a as i32);
        let tsb = vmtx.as_ref().and_then(|v| v.side_bearing(gid)).map(|a| a as i32);
        out.glyphs.push(GlyphObs { shape, advance: hmtx.advance(gid).unwrap_or(0) as i32, vadvance, tsb, ymax, tuples });
    }
    Ok(out)
}

// ---------------------------------------------------------------------------------------------
// the evaluator (OpenType spec: tuple scalar, inferred deltas, accumulation), f64
// ---------------------------------------------------------------------------------------------
fn axis_scalar(t: (f64, f64, f64), v: f64) -> f64 {
    let (s, p, e) = t;
    if s > p || p > e {
        return 1.0;
    }
    if s < 0.0 && e > 0.0 && p != 0.0 {
        return 1.0;
    }
    if p == 0.0 {
        return 1.0;
    }
    if v < s || v > e {
        return 0.0;
    }
    if v == p {
        return 1.0;
    }
    if v < p { (v - s) / (p - s) } else { (e - v) / (e - p) }
}

fn tuple_scalar(tents: &[(f64, f64, f64)], l: &[f64]) -> f64 {
    tents.iter().zip(l).map(|(t, v)| axis_scalar(*t, *v)).product()
}

fn infer1(c1: f64, d1: f64, c2: f64, d2: f64, c: f64) -> f64 {
    if c1 == c2 {
        return if d1 == d2 { d1 } else { 0.0 };
    }
    let (lc, ld, hc, hd) = if c1 < c2 { (c1, d1, c2, d2) } else { (c2, d2, c1, d1) };
    if c <= lc {
        ld
    } else if c >= hc {
        hd
    } else {
        ld + (c - lc) * ((hd - ld) / (hc - lc))
    }
}

/// deltas of all points of a simple glyph: explicit where given, inferred within each contour
fn iup(coords: &[(f64, f64)], ends: &[usize], ds: &[Option<(f64, f64)>]) -> Vec<(f64, f64)> {
    let n = coords.len();
    let mut out = vec![(0.0, 0.0); n];
    let mut ranges: Vec<(usize, usize)> = Vec::new();
    let mut start = 0;
    for e in ends {
        ranges.push((start, *e));
        start = e + 1;
    }
    for p in start..n {
        ranges.push((p, p));
    }
    for (a, b) in ranges {
        let len = b + 1 - a;
        let refs: Vec<usize> = (a..=b).filter(|i| ds[*i].is_some()).collect();
        if refs.is_empty() {
            continue;
        }
        for i in a..=b {
            if let Some(d) = ds[i] {
                out[i] = d;
                continue;
            }
            // nearest referenced point after / before i, cyclically
            let mut nx = i;
            for k in 1..=len {
                let j = a + (i - a + k) % len;
                if ds[j].is_some() {
                    nx = j;
                    break;
                }
            }
            let mut pv = i;
            for k in 1..=len {
                let j = a + (i - a + len - (k % len)) % len;
                if ds[j].is_some() {
                    pv = j;
                    break;
                }
            }
            let (d1, d2) = (ds[pv].unwrap(), ds[nx].unwrap());
            out[i] = (infer1(coords[pv].0, d1.0, coords[nx].0, d2.0, coords[i].0), infer1(coords[pv].1, d1.1, coords[nx].1, d2.1, coords[i].1));
        }
    }
    out
}

/// base points of a glyph as the variation data sees them: outline points or component offsets, then the
/// four phantom points
fn base_points(g: &GlyphObs, vertical: bool) -> Vec<(f64, f64)> {
    let mut v: Vec<(f64, f64)> = match &g.shape {
        Shape::Empty => vec![],
        Shape::Simple { pts, .. } => pts.iter().map(|p| (p.0 as f64, p.1 as f64)).collect(),
        Shape::Composite { comps } => comps.iter().map(|c| (c.1 .0 as f64, c.1 .1 as f64)).collect(),
    };
    v.push((0.0, 0.0));
    v.push((g.advance as f64, 0.0));
    if vertical {
        let top = (g.ymax + g.tsb.unwrap_or(0)) as f64;
        v.push((0.0, top));
        v.push((0.0, top - g.vadvance.unwrap_or(0) as f64));
    } else {
        v.push((0.0, 0.0));
        v.push((0.0, 0.0));
    }
    v
}

#[allow(dead_code)]
struct Inst {
    pts: Vec<(f64, f64)>,
    /// sum of the scalars of the tuples that reach the location
    active: f64,
    /// sum over tuples of |scalar| * max |delta| (for the quantisation allowance)
    scalars: Vec<f64>,
}

fn instantiate(g: &GlyphObs, base: &[(f64, f64)], tents_of: &dyn Fn(usize) -> Vec<(f64, f64, f64)>, l: &[f64]) -> Inst {
    let mut pts = base.to_vec();
    let ends: Vec<usize> = match &g.shape {
        Shape::Simple { ends, .. } => ends.clone(),
        _ => vec![],
    };
    let simple = matches!(g.shape, Shape::Simple { .. } | Shape::Empty);
    let mut active = 0.0;
    let mut scalars = Vec::new();
    for (ti, t) in g.tuples.iter().enumerate() {
        let s = tuple_scalar(&tents_of(ti), l);
        scalars.push(s);
        if s == 0.0 {
            continue;
        }
        active += s;
        let ds: Vec<Option<(f64, f64)>> = t.deltas.iter().map(|d| d.map(|(x, y)| (x as f64, y as f64))).collect();
        let full = if simple { iup(base, &ends, &ds) } else { ds.iter().map(|d| d.unwrap_or((0.0, 0.0))).collect() };
        for (p, d) in pts.iter_mut().zip(full) {
            p.0 += s * d.0;
            p.1 += s * d.1;
        }
    }
    Inst { pts, active, scalars }
}


// ---------------------------------------------------------------------------------------------
// skrifa as the second evaluator
// ---------------------------------------------------------------------------------------------
#[derive(Default)]
struct Pen {
    contours: Vec<Vec<(f64, f64, bool)>>,
    cubic: bool,
}
impl OutlinePen for Pen {
    fn move_to(&mut self, x: f32, y: f32) {
        self.contours.push(vec![(x as f64, y as f64, true)]);
    }
    fn line_to(&mut self, x: f32, y: f32) {
        if let Some(c) = self.contours.last_mut() {
            c.push((x as f64, y as f64, true));
        }
    }
    fn quad_to(&mut self, cx: f32, cy: f32, x: f32, y: f32) {
        if let Some(c) = self.contours.last_mut() {
            c.push((cx as f64, cy as f64, false));
            c.push((x as f64, y as f64, true));
        }
    }
    fn curve_to(&mut self, _: f32, _: f32, _: f32, _: f32, _: f32, _: f32) {
        self.cubic = true;
    }
    fn close(&mut self) {}
}

/// a contour of TrueType points with the implied on-curve points made explicit, as a cyclic list
fn explicit_cycle(pts: &[(f64, f64, bool)]) -> Vec<(f64, f64, bool)> {
    let n = pts.len();
    let mut out = Vec::new();
    for i in 0..n {
        let (p, q) = (pts[i], pts[(i + 1) % n]);
        out.push(p);
        if !p.2 && !q.2 {
            out.push(((p.0 + q.0) / 2.0, (p.1 + q.1) / 2.0, true));
        }
    }
    out
}

fn drop_repeats(c: &[(f64, f64, bool)]) -> Vec<(f64, f64, bool)> {
    // zero-length lines vanish in a path; compare cycles without them
    let mut out: Vec<(f64, f64, bool)> = Vec::new();
    for p in c {
        if let Some(l) = out.last() {
            if l.2 && p.2 && (l.0 - p.0).abs() < 1e-9 && (l.1 - p.1).abs() < 1e-9 {
                continue;
            }
        }
        out.push(*p);
    }
    while out.len() > 1 {
        let (f, l) = (out[0], out[out.len() - 1]);
        if f.2 && l.2 && (f.0 - l.0).abs() < 1e-9 && (f.1 - l.1).abs() < 1e-9 {
            out.pop();
        } else {
            break;
        }
    }
    out
}

/// largest coordinate difference between two cyclic point lists under the best rotation
fn cycle_distance(a: &[(f64, f64, bool)], b: &[(f64, f64, bool)]) -> Option<f64> {
    if a.len() != b.len() {
        return None;
    }
    let n = a.len();
    if n == 0 {
        return Some(0.0);
    }
    let mut best: Option<f64> = None;
    for r in 0..n {
        let mut worst: f64 = 0.0;
        let mut ok = true;
        for i in 0..n {
            let (p, q) = (a[i], b[(i + r) % n]);
            if p.2 != q.2 {
                ok = false;
                break;
            }
            worst = worst.max((p.0 - q.0).abs()).max((p.1 - q.1).abs());
        }
        if ok && best.map(|b| worst < b).unwrap_or(true) {
            best = Some(worst);
        }
    }
    best
}

fn skrifa_draw(font: &FontRef, gid: u32, coords: &[F2Dot14]) -> Result<Vec<Vec<(f64, f64, bool)>>, String> {
    let outlines = font.outline_glyphs();
    let mut pen = Pen::default();
    if let Some(g) = outlines.get(GlyphId::new(gid)) {
        let settings = DrawSettings::unhinted(Size::unscaled(), LocationRef::new(coords)).with_path_style(skrifa::outline::pen::PathStyle::HarfBuzz);
        g.draw(settings, &mut pen).map_err(|e| format!("skrifa draw: {e}"))?;
    }
    if pen.cubic {
        return Err("cubic segment from a glyf outline".into());
    }
    Ok(pen.contours)
}


/// the outline a composite's instance draws: every component's own instance at the location through the stored 2x2,
/// shifted by the instantiated offset (simple glyphs: the instance's contours)
fn flatten_instance(vf: &FontObs, obs: &GlyphObs, inst_pts: &[(f64, f64)], ql: &[f64], vertical: bool) -> Vec<Vec<(f64, f64, bool)>> {
    let simple_contours = |o: &GlyphObs, pts: &[(f64, f64)]| -> Vec<Vec<(f64, f64, bool)>> {
        match &o.shape {
            Shape::Simple { pts: p, ends } => {
                let on: Vec<bool> = p.iter().map(|q| q.2).collect();
                split_contours(pts, &on, ends)
            }
            _ => vec![],
        }
    };
    match &obs.shape {
        Shape::Composite { comps } => {
            let mut all = Vec::new();
            for (ci, (bg, _, t)) in comps.iter().enumerate() {
                let bo = &vf.glyphs[*bg as usize];
                let bb = base_points(bo, vertical);
                let bt = |ti: usize| -> Vec<(f64, f64, f64)> { bo.tuples[ti].tents.iter().map(|t| (t.0 as f64 / 16384.0, t.1 as f64 / 16384.0, t.2 as f64 / 16384.0)).collect() };
                let bi = instantiate(bo, &bb, &bt, ql);
                let (dx, dy) = inst_pts[ci];
                for c in simple_contours(bo, &bi.pts) {
                    all.push(c.iter().map(|p| (t[0] * p.0 + t[2] * p.1 + dx, t[1] * p.0 + t[3] * p.1 + dy, p.2)).collect());
                }
            }
            all
        }
        _ => simple_contours(obs, inst_pts),
    }
}

fn split_contours(pts: &[(f64, f64)], on: &[bool], ends: &[usize]) -> Vec<Vec<(f64, f64, bool)>> {
    let mut out = Vec::new();
    let mut s = 0;
    for e in ends {
        out.push((s..=*e).map(|i| (pts[i].0, pts[i].1, on[i])).collect());
        s = e + 1;
    }
    out
}


// ---------------------------------------------------------------------------------------------
// the joint conversion of all masters of a contour glyph (the oracles kurbo cubics_to_quadratic_splines and
// write-fonts interpolatable_glyphs_from_bezpaths re-run on the glyph IR, the way fontbe's GlyphWork drives
// them): the masters' outlines in the point structure they share in the variable font
// ---------------------------------------------------------------------------------------------
fn joint_outlines(irg: &fontir::ir::Glyph, upem: f64, keep_direction: bool) -> Result<Vec<(NormalizedLocation, Vec<(i32, i32, bool)>, Vec<usize>)>, String> {
    use kurbo::{BezPath, CubicBez, PathEl};
    let locs: Vec<NormalizedLocation> = irg.sources().keys().cloned().collect();
    let mut paths: Vec<Vec<PathEl>> = Vec::new();
    for l in &locs {
        let inst = &irg.sources()[l];
        let mut els: Vec<PathEl> = Vec::new();
        for c in &inst.contours {
            els.extend(c.elements().iter().cloned());
        }
        paths.push(els);
    }
    let n = paths.first().map(|p| p.len()).unwrap_or(0);
    if paths.iter().any(|p| p.len() != n) {
        return Err("masters have different numbers of path elements".into());
    }
    let mut out: Vec<BezPath> = vec![BezPath::new(); locs.len()];
    let mut start: Vec<kurbo::Point> = vec![kurbo::Point::ZERO; locs.len()];
    let mut prev: Vec<kurbo::Point> = vec![kurbo::Point::ZERO; locs.len()];
    for e in 0..n {
        if let PathEl::CurveTo(..) = paths[0][e] {
            let mut cubics = Vec::new();
            for (k, p) in paths.iter().enumerate() {
                match p[e] {
                    PathEl::CurveTo(p1, p2, p3) => cubics.push(CubicBez { p0: prev[k], p1, p2, p3 }),
                    _ => return Err("masters have different path element types".into()),
                }
            }
            let splines = kurbo::cubics_to_quadratic_splines(&cubics, upem / 1000.0).ok_or("cu2qu failed")?;
            for (k, sp) in splines.iter().enumerate() {
                for q in sp.to_quads() {
                    out[k].quad_to(q.p1, q.p2);
                }
            }
        } else {
            for (k, p) in paths.iter().enumerate() {
                out[k].push(p[e]);
            }
        }
        for (k, p) in paths.iter().enumerate() {
            match p[e] {
                PathEl::MoveTo(q) => {
                    start[k] = q;
                    prev[k] = q;
                }
                PathEl::LineTo(q) | PathEl::QuadTo(_, q) | PathEl::CurveTo(_, _, q) => prev[k] = q,
                PathEl::ClosePath => prev[k] = start[k],
            }
        }
    }
    if !keep_direction {
        for p in out.iter_mut() {
            *p = p.reverse_subpaths();
        }
    }
    let glyphs = write_fonts::tables::glyf::SimpleGlyph::interpolatable_glyphs_from_bezpaths(&out).map_err(|e| format!("{e:?}"))?;
    let mut res = Vec::new();
    for (l, g) in locs.into_iter().zip(glyphs) {
        let mut pts = Vec::new();
        let mut ends = Vec::new();
        for c in &g.contours {
            for p in c.iter() {
                pts.push((p.x as i32, p.y as i32, p.on_curve));
            }
            ends.push(pts.len() - 1);
        }
        res.push((l, pts, ends));
    }
    Ok(res)
}

// ---------------------------------------------------------------------------------------------
// Gallina printers
// ---------------------------------------------------------------------------------------------
fn cz(v: i64) -> String {
    if v < 0 { format!("({})", v) } else { format!("{}", v) }
}
fn cloc(l: &[i64]) -> String {
    format!("[{}]", l.iter().map(|v| cz(*v)).collect::<Vec<_>>().join(";"))
}
fn czpt(p: (i64, i64)) -> String {
    format!("({},{})", cz(p.0), cz(p.1))
}

// ---------------------------------------------------------------------------------------------
// one case
// ---------------------------------------------------------------------------------------------
struct Out {
    lines: Vec<Value>,
    stats: BTreeMap<String, f64>,
}
impl Out {
    fn viol(&mut self, key: &str, desc: String, case: &Case, extra: Value) {
        let mut v = json!({"type":"violation","key":key,"desc":desc,"found_input":true,"case":case_json(case)});
        if let Value::Object(m) = extra {
            for (k, x) in m {
                v[k] = x;
            }
        }
        self.lines.push(v);
    }
    fn count(&mut self, k: &str) {
        *self.stats.entry(k.into()).or_default() += 1.0;
    }
    fn max(&mut self, k: &str, v: f64) {
        let e = self.stats.entry(k.into()).or_default();
        if v > *e {
            *e = v;
        }
    }
}

fn glyph_json(g: &GlyphSrc) -> Value {
    json!({"advance": g.advance, "height": g.height,
           "contours": g.contours.iter().map(|c| c.iter().map(|(x, y, t)| json!([x, y, format!("{:?}", t)])).collect::<Vec<_>>()).collect::<Vec<_>>(),
           "components": g.components.iter().map(|(b, t)| json!([b, t])).collect::<Vec<_>>()})
}

fn case_json(c: &Case) -> Value {
    json!({
        "id": c.id, "d": c.d, "layout": c.layout, "vertical": c.vertical, "point_axis": c.point_axis, "keep_direction": c.keep_direction, "glyphs_source": c.glyphs_source, "glyphs_v2": c.glyphs_v2,
        "axes": c.axes.iter().map(|a| json!({"tag": a.tag, "default": a.def, "unit": a.unit, "neg": a.neg, "pos": a.pos})).collect::<Vec<_>>(),
        "masters": c.masters.iter().map(|m| json!({"name": m.name, "loc": m.loc, "sparse": m.sparse, "brace_of_master_with_n_coordinates": m.brace})).collect::<Vec<_>>(),
        "glyphs": c.glyphs.iter().map(|g| json!({"name": g.name, "kind": format!("{:?}", g.kind), "style": g.style, "masters": g.masters,
            "vorigin": g.vorigin, "draw": g.draw.iter().map(glyph_json).collect::<Vec<_>>()})).collect::<Vec<_>>(),
    })
}

fn ot_round(v: f64) -> f64 {
    (v + 0.5).floor()
}

/// the master's phantom points, from the source values
fn expected_phantoms(case: &Case, g: &GlyphSpec, mi: usize) -> Vec<(i64, i64)> {
    let d = &g.draw[mi];
    let adv = ot_round(d.advance).clamp(0.0, 65535.0) as i64;
    let (top, bottom) = if case.vertical {
        let top = ot_round(g.vorigin[mi].unwrap_or(ASC)) as i64;
        let h = ot_round(d.height.unwrap_or(0.0)).clamp(0.0, 65535.0) as i64;
        (top, top - h)
    } else {
        (0, 0)
    };
    vec![(0, 0), (adv, 0), (0, top), (0, bottom)]
}

fn norm_loc(case: &Case, m: &MasterSpec) -> NormalizedLocation {
    let pos: Vec<(&str, f64)> = case.axes.iter().zip(&m.loc).map(|(a, k)| (a.tag, *k as f64 / case.d as f64)).collect();
    NormalizedLocation::for_pos(&pos)
}

fn region_tents(case: &Case, r: &fontdrasil::variations::VariationRegion) -> Result<Vec<(i64, i64, i64)>, String> {
    let mut v = Vec::new();
    for a in &case.axes {
        let t = r.get(&Tag::from_str(a.tag).unwrap()).ok_or("region lacks an axis")?;
        let f = |x: f64| -> Result<i64, String> {
            let k = (x * case.d as f64).round();
            if (k / case.d as f64 - x).abs() > 1e-12 { Err(format!("tent coordinate {x} is not a multiple of 1/{}", case.d)) } else { Ok(k as i64) }
        };
        v.push((f(t.min.to_f64())?, f(t.peak.to_f64())?, f(t.max.to_f64())?));
    }
    Ok(v)
}

fn run_case(case: &Case, debug: bool) -> Out {
    let mut out = Out { lines: vec![], stats: BTreeMap::new() };
    let tmp = scratch_dir("c03");
    let vdir = tmp.path().join("var");
    let ir_dir = tmp.path().join("ir");
    std::fs::create_dir_all(&ir_dir).unwrap();
    let vpath = if case.glyphs_source {
        std::fs::create_dir_all(&vdir).unwrap();
        let p = vdir.join(format!("C03g{}.glyphs", case.id));
        std::fs::write(&p, glyphs_text(case, None)).unwrap();
        p
    } else {
        write_variable(case, &vdir)
    };
    let flags = || {
        let mut f = fontir::orchestration::Flags::default();
        f.set(fontir::orchestration::Flags::KEEP_DIRECTION, case.keep_direction);
        Some(f)
    };
    let vbytes = match compile_path(&vpath, flags(), Some(ir_dir.clone())) {
        Outcome::Font(b) => b,
        Outcome::Error(e) => {
            out.viol("variable-build-failed", format!("valid compatible sources rejected: {e}"), case, json!({}));
            return out;
        }
        Outcome::Panic(e) => {
            out.viol("variable-build-panicked", format!("panic: {e}"), case, json!({}));
            return out;
        }
    };
    out.count("builds");
    let vf = match decode_font(&vbytes) {
        Ok(f) => f,
        Err(e) => {
            out.viol("variable-font-undecodable", e, case, json!({}));
            return out;
        }
    };
    if vf.axis_count != case.axes.len() {
        out.viol("fvar-axis-count", format!("fvar has {} axes, the source {}", vf.axis_count, case.axes.len()), case, json!({}));
        return out;
    }
    let vfont = FontRef::new(&vbytes).unwrap();
    // static builds, one per master
    let mut statics: Vec<Option<FontObs>> = Vec::new();
    for mi in 0..case.masters.len() {
        let sdir = tmp.path().join(format!("s{mi}"));
        let sp = if case.glyphs_source {
            std::fs::create_dir_all(&sdir).unwrap();
            let p = sdir.join(format!("C03g{}m{}.glyphs", case.id, mi));
            std::fs::write(&p, glyphs_text(case, Some(mi))).unwrap();
            p
        } else {
            write_static(case, mi, &sdir)
        };
        match compile_path(&sp, flags(), None) {
            Outcome::Font(b) => {
                out.count("builds");
                statics.push(decode_font(&b).ok());
            }
            Outcome::Error(e) | Outcome::Panic(e) => {
                out.viol("static-build-failed", format!("master {} alone does not build: {e}", case.masters[mi].name), case, json!({}));
                statics.push(None);
            }
        }
    }
    // IR: global model locations, per-glyph sources
    let load_yaml = |f: std::path::PathBuf| -> Result<Value, String> { serde_yaml::from_reader(std::fs::File::open(&f).map_err(|e| format!("{f:?}: {e}"))?).map_err(|e| format!("{f:?}: {e}")) };
    let _ = load_yaml;
    let sm: fontir::ir::StaticMetadata = match std::fs::File::open(FePaths::target_file(&ir_dir, &FeWorkId::StaticMetadata)).map_err(|e| e.to_string()).and_then(|f| serde_yaml::from_reader(f).map_err(|e| e.to_string())) {
        Ok(s) => s,
        Err(e) => {
            out.viol("ir-unreadable", format!("static metadata: {e}"), case, json!({}));
            return out;
        }
    };
    // a location names a master when it agrees with it on every axis of variation (a point axis may or may
    // not be listed, at 0)
    let loc_index = |l: &NormalizedLocation| -> Option<usize> {
        case.masters.iter().position(|m| {
            let nl = norm_loc(case, m);
            case.axes.iter().all(|a| {
                let t = Tag::from_str(a.tag).unwrap();
                (l.get(t).map(|v| v.to_f64()).unwrap_or(0.0) - nl.get(t).map(|v| v.to_f64()).unwrap_or(0.0)).abs() < 1e-9
            }) && l.iter().all(|(t, v)| case.axes.iter().any(|a| Tag::from_str(a.tag).unwrap() == *t) || v.to_f64() == 0.0)
        })
    };
    let mut global: Vec<usize> = Vec::new();
    for l in sm.variation_model.locations() {
        match loc_index(l) {
            Some(i) => global.push(i),
            None => {
                out.viol("global-model-location-not-a-master", format!("{l:?}"), case, json!({}));
                return out;
            }
        }
    }
    {
        let mut exp: Vec<usize> = (0..case.masters.len()).filter(|i| !case.masters[*i].sparse).collect();
        let mut got = global.clone();
        got.sort();
        exp.sort();
        if got != exp {
            out.viol("global-model-locations", format!("global model has masters {got:?}, the non-layer sources are {exp:?}"), case, json!({}));
        }
    }
    if sm.build_vertical != case.vertical {
        out.viol("build-vertical-flag", format!("build_vertical = {}, source has vhea metrics: {}", sm.build_vertical, case.vertical), case, json!({}));
    }

    for g in &case.glyphs {
        let Some(gid) = vf.names.iter().position(|n| *n == g.name) else {
            out.viol("glyph-missing-from-font", g.name.clone(), case, json!({}));
            continue;
        };
        let obs = &vf.glyphs[gid];
        let base = base_points(obs, case.vertical);
        let n = base.len();
        // ---- IR sources of the glyph = its masters -------------------------------------------------
        let irg: Result<fontir::ir::Glyph, String> = std::fs::File::open(FePaths::target_file(&ir_dir, &FeWorkId::Glyph(g.name.as_str().into()))).map_err(|e| e.to_string()).and_then(|f| serde_yaml::from_reader(f).map_err(|e| e.to_string()));
        let mut derived_sources = false;
        match &irg {
            Ok(irg) => {
                let got: Vec<Option<usize>> = irg.sources().keys().map(|l| loc_index(l)).collect();
                let exp: Vec<Option<usize>> = g.masters.iter().map(|m| Some(*m)).collect();
                let describe = || -> String {
                    let ir: Vec<String> = irg.sources().keys().map(|l| format!("{l:?}")).collect();
                    let want: Vec<String> = g.masters.iter().map(|m| format!("{} {:?}/{}", case.masters[*m].name, case.masters[*m].loc, case.d)).collect();
                    format!("glyph {}: IR sources at {} (masters {got:?}), the source defines it at {}", g.name, ir.join(", "), want.join(", "))
                };
                if !exp.iter().all(|e| got.contains(e)) || (got.len() != exp.len() && g.kind != GKind::Composite) {
                    // a master of the glyph is filed at another location (or lost, or invented): reported here, and the
                    // predicate below still instantiates at the intended locations
                    out.viol("glyph-sources-differ-from-designspace", describe(), case, json!({"glyph": g.name}));
                    derived_sources = true;
                } else if got.len() != exp.len() {
                    // a decomposed composite also gets instances where only its components have masters: those are
                    // not drawings of this glyph, there is nothing to compare them with; the model comparison
                    // (which needs every source's point sequence) is skipped, the predicate is not
                    derived_sources = true;
                    out.count("glyphs_with_derived_sources");
                }
            }
            Err(e) => {
                out.viol("ir-unreadable", format!("glyph {}: {e}", g.name), case, json!({}));
                continue;
            }
        }
        // ---- the reference: every master's own static build ------------------------------------------
        let mut seqs: Vec<Vec<(i64, i64)>> = Vec::new();
        let mut structure_ok = true;
        let is_comp = matches!(obs.shape, Shape::Composite { .. });
        let expect_comp = g.kind == GKind::Composite && g.draw[0].contours.is_empty() && !g.decompose;
        if g.kind == GKind::Composite {
            // the model's decision (positional consistency of base and 2x2, no outline of its own) against glyf
            let fq4 = |v: f64| -> String {
                let n = (v * 4.0).round() as i64;
                if n % 4 == 0 { format!("{}", cz(n / 4)) } else { format!("({} # 4)", cz(n)) }
            };
            let srcs: Vec<String> = g
                .draw
                .iter()
                .map(|d| {
                    format!(
                        "[{}]",
                        d.components
                            .iter()
                            .map(|(b, t)| format!("({}%N,({},{},{},{}))", case.glyphs.iter().position(|x| &x.name == b).unwrap_or(99), fq4(t[0]), fq4(t[1]), fq4(t[2]), fq4(t[3])))
                            .collect::<Vec<_>>()
                            .join(";")
                    )
                })
                .collect();
            let term = format!("check_kept {} {} ([{}]%Q)", is_comp, !g.draw[0].contours.is_empty(), srcs.join(";"));
            out.lines.push(json!({"type":"case","id":0,"kind":format!("decision:{}", if expect_comp { "kept-composite" } else { "decomposed" }),"coq":term,"nontrivial":g.masters.len() > 1,
                "sig": format!("{}:{}:decision:{}", case.id, g.name, srcs.join("|")), "font": case.id, "glyph": g.name, "masters": g.masters.len(), "style": g.style}));
        }
        if !expect_comp && is_comp && g.decompose {
            // The glyph was kept as a composite although component i of the default is not component i of every
            // master. Is the drawing nevertheless the master's? Flatten the instance (components' own instances
            // through the stored 2x2 and the instantiated offsets) and compare with the master's static build, which
            // is drawn decomposed. Slack: the static build rounds T*p + offset once, the composite rounds p and the
            // offset separately: (|xx|+|xy|)/2 + 1/2 <= 1.5 on top of the bound.
            for (_mi, &m) in g.masters.iter().enumerate() {
                let ms = &case.masters[m];
                let Some(sf) = statics[m].as_ref() else { continue };
                let Some(sgid) = sf.names.iter().position(|nm| *nm == g.name) else { continue };
                let Shape::Simple { pts: sp, ends: se } = &sf.glyphs[sgid].shape else { continue };
                let coords: Vec<F2Dot14> = ms.loc.iter().map(|k| F2Dot14::from_f64(*k as f64 / case.d as f64)).collect();
                let ql: Vec<f64> = coords.iter().map(|c| c.to_bits() as f64 / 16384.0).collect();
                let qt = |ti: usize| -> Vec<(f64, f64, f64)> { obs.tuples[ti].tents.iter().map(|t| (t.0 as f64 / 16384.0, t.1 as f64 / 16384.0, t.2 as f64 / 16384.0)).collect() };
                let inst = instantiate(obs, &base, &qt, &ql);
                let flat = flatten_instance(&vf, obs, &inst.pts, &ql, case.vertical);
                let spts: Vec<(f64, f64)> = sp.iter().map(|q| (q.0 as f64, q.1 as f64)).collect();
                let son: Vec<bool> = sp.iter().map(|q| q.2).collect();
                let want: Vec<Vec<(f64, f64, bool)>> = split_contours(&spts, &son, se).iter().map(|c| drop_repeats(&explicit_cycle(c))).collect();
                let got: Vec<Vec<(f64, f64, bool)>> = flat.iter().map(|c| drop_repeats(&explicit_cycle(c))).collect();
                let mut worst: Option<f64> = Some(0.0);
                if want.len() != got.len() {
                    worst = None;
                } else {
                    for (x, y) in got.iter().zip(&want) {
                        match (worst, cycle_distance(x, y)) {
                            (Some(w), Some(dd)) => worst = Some(w.max(dd)),
                            _ => worst = None,
                        }
                    }
                }
                let bound = 0.5 + 0.5 * inst.active + 1.5;
                if worst.map(|w| w > bound).unwrap_or(true) {
                    out.viol(
                        "outline-at-master-differs-from-master-drawing",
                        format!(
                            "glyph {} ({}) was kept as a composite; at master {} {:?}/{} its instance draws {:?}, the master draws {:?} (largest coordinate difference {:?}, allowed {})",
                            g.name, g.style, ms.name, ms.loc, case.d, got, want, worst, bound
                        ),
                        case,
                        json!({"glyph": g.name, "master": m, "master_name": ms.name, "components": g.draw.iter().map(|d| d.components.iter().map(|(b, t)| json!([b, t])).collect::<Vec<_>>()).collect::<Vec<_>>()}),
                    );
                    break;
                }
            }
            continue;
        }
        if expect_comp != is_comp {
            out.viol("glyph-kind-changed", format!("glyph {} ({}) is {:?} in the source, {} in glyf", g.name, g.style, g.kind, if is_comp { "composite" } else { "not composite" }), case, json!({"glyph": g.name}));
            continue;
        }
        for (mi, &m) in g.masters.iter().enumerate() {
            let Some(sf) = statics[m].as_ref() else {
                structure_ok = false;
                break;
            };
            let Some(sgid) = sf.names.iter().position(|nm| *nm == g.name) else {
                out.viol("glyph-missing-from-static", format!("{} in master {}", g.name, case.masters[m].name), case, json!({}));
                structure_ok = false;
                break;
            };
            let sobs = &sf.glyphs[sgid];
            let same = match (&obs.shape, &sobs.shape) {
                (Shape::Empty, Shape::Empty) => true,
                (Shape::Simple { pts: a, ends: ea }, Shape::Simple { pts: b, ends: eb }) => ea == eb && a.len() == b.len() && a.iter().zip(b).all(|(p, q)| p.2 == q.2),
                (Shape::Composite { comps: a }, Shape::Composite { comps: b }) => {
                    a.len() == b.len() && a.iter().zip(b).all(|(p, q)| vf.names[p.0 as usize] == sf.names[q.0 as usize] && p.2 == q.2)
                }
                _ => false,
            };
            let mut joint: Option<Vec<(i64, i64)>> = None;
            if !same {
                // the master alone may need fewer points than all masters together (fewer cu2qu segments,
                // an on-curve point implied or a closing point repeated in this master only): take the
                // master's outline in the shared structure from the joint conversion of the glyph IR, after
                // checking that it is the static build's outline up to such redundant points
                let kindname = format!("{:?}", g.kind).to_lowercase();
                out.count(&format!("static_structure_differs:{kindname}"));
                let jo = match (&irg, &obs.shape, &sobs.shape) {
                    (Ok(irg), Shape::Simple { pts: vp, ends: ve }, Shape::Simple { pts: sp, ends: se }) => joint_outlines(irg, 1000.0, case.keep_direction).ok().and_then(|j| {
                        let (_, jp, je) = j.into_iter().find(|(l, _, _)| loc_index(l) == Some(m))?;
                        let same_structure = &je == ve && jp.len() == vp.len() && jp.iter().zip(vp).all(|(a, b)| a.2 == b.2);
                        if !same_structure {
                            return None;
                        }
                        // static outline vs joint outline, implied points explicit, repeated points dropped
                        let f = |p: &Vec<(i32, i32, bool)>, e: &Vec<usize>| -> Vec<Vec<(f64, f64, bool)>> {
                            let pts: Vec<(f64, f64)> = p.iter().map(|q| (q.0 as f64, q.1 as f64)).collect();
                            let on: Vec<bool> = p.iter().map(|q| q.2).collect();
                            split_contours(&pts, &on, e).iter().map(|c| drop_repeats(&explicit_cycle(c))).collect()
                        };
                        let (a, b) = (f(&jp, &je), f(sp, se));
                        let has_cubic = irg.sources().values().any(|i| i.contours.iter().any(|c| c.elements().iter().any(|e| matches!(e, kurbo::PathEl::CurveTo(..)))));
                        if !has_cubic {
                            // line / quadratic sources: the same drawing, within the rounding of an implied point
                            if a.len() != b.len() || a.iter().zip(&b).any(|(x, y)| cycle_distance(x, y).map(|d| d > 1.0).unwrap_or(true)) {
                                return None;
                            }
                        }
                        Some(jp.iter().map(|q| (q.0 as i64, q.1 as i64)).collect::<Vec<_>>())
                    }),
                    _ => None,
                };
                match jo {
                    Some(j) => {
                        out.count(&format!("joint_reference_used:{kindname}"));
                        joint = Some(j);
                    }
                    None => {
                        structure_ok = false;
                        out.viol(
                            "outline-structure-differs-from-master",
                            format!("glyph {}: the variable font's outline has another point structure than master {} built alone, and is not that outline with redundant points ({:?} vs {:?})", g.name, case.masters[m].name, obs.shape, sobs.shape),
                            case,
                            json!({"glyph": g.name, "master": m}),
                        );
                        break;
                    }
                }
            }
            let mut s: Vec<(i64, i64)> = match &sobs.shape {
                _ if joint.is_some() => joint.take().unwrap(),
                Shape::Empty => vec![],
                Shape::Simple { pts, .. } => pts.iter().map(|p| (p.0 as i64, p.1 as i64)).collect(),
                Shape::Composite { comps } => comps.iter().map(|c| (c.1 .0 as i64, c.1 .1 as i64)).collect(),
            };
            let ph = expected_phantoms(case, g, mi);
            // the static build's own metrics agree with the source values the phantom points come from
            if sobs.advance as i64 != ph[1].0 {
                out.viol("static-advance", format!("glyph {} master {}: hmtx advance {} for width {}", g.name, case.masters[m].name, sobs.advance, g.draw[mi].advance), case, json!({}));
            }
            s.extend(ph);
            seqs.push(s);
        }
        if !structure_ok {
            continue;
        }
        let ends: Vec<usize> = match &obs.shape {
            Shape::Simple { ends, .. } => ends.clone(),
            _ => vec![],
        };
        // ---- the backend's fragment --------------------------------------------------------------------
        let ffile = ir_dir.join("glyphs").join(fontdrasil::paths::string_to_filename(&g.name, ".gvar"));
        let frag: fontbe::orchestration::GvarFragment = match std::fs::File::open(&ffile) {
            Ok(mut f) => match std::panic::catch_unwind(std::panic::AssertUnwindSafe(|| fontbe::orchestration::GvarFragment::read(&mut f))) {
                Ok(x) => x,
                Err(_) => {
                    out.viol("ir-unreadable", format!("gvar fragment of {}", g.name), case, json!({}));
                    continue;
                }
            },
            Err(e) => {
                out.viol("ir-unreadable", format!("{ffile:?}: {e}"), case, json!({}));
                continue;
            }
        };
        // the regions of the stored tuples with their exact (unquantised) tents: the fragment entries to_deltas keeps
        let ideal_tents: Option<Vec<Vec<(f64, f64, f64)>>> = {
            let kept: Vec<&(fontdrasil::variations::VariationRegion, Vec<write_fonts::tables::gvar::GlyphDelta>)> =
                frag.deltas.iter().filter(|(r, ds)| !r.is_default() && ds.iter().any(|d| d.required)).collect();
            if kept.len() == obs.tuples.len() {
                // on the integer grid k/d (the f64 the front end computed for k/d may differ from the harness's
                // in the last bit, which matters exactly on a tent's edge)
                kept.iter().map(|(r, _)| region_tents(case, r).ok().map(|v| v.iter().map(|t| (t.0 as f64, t.1 as f64, t.2 as f64)).collect::<Vec<_>>())).collect::<Option<Vec<_>>>()
            } else {
                None
            }
        };
        // ---- property predicate on the font, at every master of the glyph -------------------------------
        let qtents = |ti: usize| -> Vec<(f64, f64, f64)> { obs.tuples[ti].tents.iter().map(|t| (t.0 as f64 / 16384.0, t.1 as f64 / 16384.0, t.2 as f64 / 16384.0)).collect() };
        let mut insts: Vec<Vec<(f64, f64)>> = Vec::new();
        for (mi, &m) in g.masters.iter().enumerate() {
            let ms = &case.masters[m];
            let exact: Vec<f64> = ms.loc.iter().map(|k| *k as f64 / case.d as f64).collect();
            let coords: Vec<F2Dot14> = exact.iter().map(|v| F2Dot14::from_f64(*v)).collect();
            let ql: Vec<f64> = coords.iter().map(|c| c.to_bits() as f64 / 16384.0).collect();
            let inst = instantiate(obs, &base, &qtents, &ql);
            let tag = if mi == 0 { "default" } else if ms.sparse { "sparse" } else { "master" };
            out.count(&format!("glyph_master_checks:{tag}"));
            // (1) the font as a rasteriser reads it: 2.14 tents, 2.14 coordinates. On grids that 2.14 represents
            //     exactly this is the exact instance; otherwise each scalar is off by at most ~ 4 d 2^-14 per axis
            //     (coordinate and two tent corners rounded to 2^-15, tent widths >= 1/d)
            // (2) the same stored deltas read with the regions' exact tents at the exact location: no allowance
            let dyadic = 16384 % case.d == 0;
            let mut allowance = 0.0;
            if !dyadic {
                for t in &obs.tuples {
                    let md = t.deltas.iter().flatten().map(|d| d.0.abs().max(d.1.abs())).max().unwrap_or(0) as f64;
                    allowance += md * 4.0 * case.d as f64 * case.axes.len() as f64 / 16384.0;
                }
            }
            let grid: Vec<f64> = ms.loc.iter().map(|k| *k as f64).collect();
            let ideal = ideal_tents.as_ref().map(|it| instantiate(obs, &base, &|ti| it[ti].clone(), &grid));
            let mut checks: Vec<(&str, &Inst, f64)> = vec![("as stored (2.14)", &inst, allowance)];
            if let Some(id) = &ideal {
                checks.push(("with exact regions", id, 0.0));
            }
            'outer: for (how, ev, allow) in checks {
                let bound = if mi == 0 { 0.0 } else { 0.5 + 0.5 * ev.active + allow + 1e-9 };
                for i in 0..n {
                    let (ex, ey) = (seqs[mi][i].0 as f64, seqs[mi][i].1 as f64);
                    let err = (ev.pts[i].0 - ex).abs().max((ev.pts[i].1 - ey).abs());
                    out.max(&format!("max_error:{tag}"), err);
                    if err > bound {
                        let what = if i >= n - 4 { "phantom" } else if is_comp { "component-offset" } else { "outline-point" };
                        let key = if mi == 0 { format!("default-instance-differs-from-default-master:{what}") } else { format!("{what}-at-master-exceeds-bound") };
                        out.viol(
                            &key,
                            format!(
                                "glyph {} at master {} {:?}/{} ({how}): {} {} instantiates to ({}, {}), the master has ({}, {}); allowed {}",
                                g.name, ms.name, ms.loc, case.d, what, i, ev.pts[i].0, ev.pts[i].1, ex, ey, bound
                            ),
                            case,
                            json!({"glyph": g.name, "master": m, "point": i}),
                        );
                        break 'outer;
                    }
                }
            }
            // second evaluator: skrifa (composites: the components' own instances, transformed and shifted
            // by the instantiated offsets)
            {
                match skrifa_draw(&vfont, gid as u32, &coords) {
                    Ok(drawn) => {
                        let mine: Vec<Vec<(f64, f64, bool)>> = flatten_instance(&vf, obs, &inst.pts, &ql, case.vertical);
                        let a: Vec<Vec<(f64, f64, bool)>> = mine.iter().map(|c| drop_repeats(&explicit_cycle(c))).filter(|c| c.len() > 1 || mine.len() == 1).collect();
                        let b: Vec<Vec<(f64, f64, bool)>> = drawn.iter().map(|c| drop_repeats(c)).collect();
                        let mut worst: Option<f64> = Some(0.0);
                        if a.len() != b.len() {
                            worst = None;
                        } else {
                            for (x, y) in a.iter().zip(&b) {
                                match (worst, cycle_distance(x, y)) {
                                    (Some(w), Some(dd)) => worst = Some(w.max(dd)),
                                    _ => worst = None,
                                }
                            }
                        }
                        match worst {
                            Some(w) if w <= 0.01 => {
                                out.max("max_evaluator_difference", w);
                                out.count(if is_comp { "skrifa_agreements:composite" } else { "skrifa_agreements:simple" });
                            }
                            other => {
                                out.count("evaluators_disagree");
                                out.viol(
                                    "evaluators-disagree",
                                    format!("glyph {} at master {}: skrifa and the harness evaluator differ ({:?}); skrifa {:?}, harness {:?}", g.name, ms.name, other, b, a),
                                    case,
                                    json!({"glyph": g.name, "master": m, "found_input": false}),
                                );
                            }
                        }
                    }
                    Err(e) => out.viol("skrifa-draw-failed", format!("glyph {}: {e}", g.name), case, json!({})),
                }
            }
            insts.push(inst.pts.clone());
        }
        let mut frag_terms: Vec<String> = Vec::new();
        let mut bad = None;
        for (r, ds) in &frag.deltas {
            match region_tents(case, r) {
                Ok(t) => frag_terms.push(format!(
                    "([{}],[{}])",
                    t.iter().map(|x| format!("({},{},{})", cz(x.0), cz(x.1), cz(x.2))).collect::<Vec<_>>().join(";"),
                    ds.iter().map(|d| format!("({},{},{})", cz(d.x as i64), cz(d.y as i64), d.required)).collect::<Vec<_>>().join(";")
                )),
                Err(e) => bad = Some(e),
            }
        }
        if let Some(e) = bad {
            out.viol("region-off-grid", format!("glyph {}: {e}", g.name), case, json!({}));
            continue;
        }
        if derived_sources {
            continue;
        }
        // ---- is some pre-rounding value (as f64 computes it) next to a tie x.5 ? ---------------------------
        let mut near_tie = false;
        {
            let mut order: Vec<usize> = Vec::new(); // fragment entry -> index into g.masters / seqs
            for (r, _) in &frag.deltas {
                let peaks: Vec<i64> = region_tents(case, r).unwrap().iter().map(|t| t.1).collect();
                match g.masters.iter().position(|m| case.masters[*m].loc == peaks) {
                    Some(i) => order.push(i),
                    None => {
                        out.viol("region-peak-not-a-master", format!("glyph {}: region peaks {peaks:?}", g.name), case, json!({}));
                    }
                }
            }
            if order.len() == frag.deltas.len() {
                for (k, &mk) in order.iter().enumerate() {
                    let lk = norm_loc(case, &case.masters[g.masters[mk]]);
                    let sc: Vec<f64> = frag.deltas[..k].iter().map(|(r, _)| r.scalar_at(&lk).into_inner()).collect();
                    for i in 0..n.min(seqs[mk].len()) {
                        for c in 0..2 {
                            let x = if c == 0 { seqs[mk][i].0 } else { seqs[mk][i].1 } as f64;
                            let mut res = x;
                            for j in 0..k {
                                if let Some(d) = frag.deltas[j].1.get(i) {
                                    res -= sc[j] * if c == 0 { d.x } else { d.y } as f64;
                                }
                            }
                            let fr = res - res.floor();
                            if (fr - 0.5).abs() < 1e-6 {
                                near_tie = true;
                            }
                        }
                    }
                }
            }
        }
        if near_tie {
            out.count("glyphs_near_a_rounding_tie");
        }
        // ---- the Gallina term ------------------------------------------------------------------------------
        let kind = if is_comp { "Composite" } else { "Simple" };
        let gl: Vec<String> = g.masters.iter().map(|m| cloc(&case.masters[*m].loc)).collect();
        let glob: Vec<String> = global.iter().map(|m| cloc(&case.masters[*m].loc)).collect();
        let seqs_t: Vec<String> = seqs.iter().map(|s| format!("[{}]", s.iter().map(|p| czpt(*p)).collect::<Vec<_>>().join(";"))).collect();
        let tuples_t: Vec<String> = obs
            .tuples
            .iter()
            .map(|t| {
                format!(
                    "([{}],[{}])",
                    t.tents.iter().map(|x| format!("({},{},{})", cz(x.0 as i64), cz(x.1 as i64), cz(x.2 as i64))).collect::<Vec<_>>().join(";"),
                    t.deltas.iter().map(|d| match d { Some(p) => format!("Some {}", czpt((p.0 as i64, p.1 as i64))), None => "None".into() }).collect::<Vec<_>>().join(";")
                )
            })
            .collect();
        // positions as integers in units of 2^-20
        let sc = |v: f64| (v * 1048576.0).round() as i64;
        let insts_t: Vec<String> = insts.iter().map(|s| format!("[{}]", s.iter().map(|p| czpt((sc(p.0), sc(p.1)))).collect::<Vec<_>>().join(";"))).collect();
        let fq = |v: f64| -> String {
            // source values are multiples of 1/4
            let n = (v * 4.0).round() as i64;
            if n % 4 == 0 { format!("{}", cz(n / 4)) } else { format!("({} # 4)", cz(n)) }
        };
        let srcs_t: Vec<String> = (0..g.masters.len())
            .map(|mi| {
                let d = &g.draw[mi];
                let oq = |o: Option<f64>| match o { Some(v) => format!("(Some {})", fq(v)), None => "None".into() };
                format!(
                    "({},{},{},[{}])",
                    fq(d.advance),
                    if case.vertical { oq(Some(d.height.unwrap_or(0.0))) } else { "None".into() },
                    if case.vertical { oq(g.vorigin[mi]) } else { "None".into() },
                    d.components.iter().map(|(_, t)| format!("({},{})", fq(t[4]), fq(t[5]))).collect::<Vec<_>>().join(";")
                )
            })
            .collect();
        let args = format!(
            "{} {} [{}] [{}] [{}] [{}] [{}] [{}] [{}] {} ([{}]%Q)",
            kind,
            case.d,
            glob.join(";"),
            gl.join(";"),
            seqs_t.join(";"),
            ends.iter().map(|e| format!("{}", e)).collect::<Vec<_>>().join(";"),
            frag_terms.join(";"),
            tuples_t.join(";"),
            insts_t.join(";"),
            case.vertical,
            srcs_t.join(";")
        );
        let term = format!("{} {args}", if near_tie { "check_glyph_tie" } else { "check_glyph" });
        let show = format!("explain_glyph {args}");
        let nontrivial = obs.tuples.iter().any(|t| t.deltas.iter().flatten().any(|d| *d != (0, 0)));
        let sig = format!("{}:{}:{}", case.id, g.name, seqs_t.join("|"));
        let kindname = format!("{}:{}", format!("{:?}", g.kind).to_lowercase(), if g.masters.iter().any(|m| case.masters[*m].sparse) || g.masters.len() != global.len() { "own-model" } else { "global-model" });
        out.lines.push(json!({"type":"case","id":0,"kind":kindname,"coq":term,"show":show,"nontrivial":nontrivial,"sig":sig,
            "font": case.id, "glyph": g.name, "near_tie": near_tie, "masters": g.masters.len(), "axes": case.axes.len(), "d": case.d, "style": g.style, "layout": case.layout}));
        if debug {
            eprintln!("case {} glyph {} kind {:?} tuples {} npts {}", case.id, g.name, g.kind, obs.tuples.len(), n);
        }
    }
    out
}

fn main() {
    let args: Vec<String> = std::env::args().collect();
    let seed = arg_val(&args, "--seed", 1);
    let n = arg_val(&args, "--n", 40) as usize;
    let only = args.iter().position(|a| a == "--only").and_then(|i| args.get(i + 1)).and_then(|v| v.parse::<usize>().ok());
    let debug = args.iter().any(|a| a == "--debug");
    if !debug {
        quiet_panics();
    }
    let threads = std::thread::available_parallelism().map(|n| n.get()).unwrap_or(4).min(12);
    let mut rng = Rng::new(seed);
    // every fourth source is a Glyphs file
    let cases: Vec<Case> = (0..n).map(|i| gen_case(&mut rng, i, i % 4 == 3)).collect();
    let todo: Vec<&Case> = cases.iter().filter(|c| only.map(|o| o == c.id).unwrap_or(true)).collect();
    let chunks: Vec<Vec<&Case>> = (0..threads).map(|t| todo.iter().skip(t).step_by(threads).cloned().collect()).collect();
    let outs: Vec<Vec<(usize, Out)>> = std::thread::scope(|s| {
        let hs: Vec<_> = chunks.iter().map(|ch| s.spawn(move || ch.iter().map(|c| (c.id, run_case(c, debug))).collect::<Vec<_>>())).collect();
        hs.into_iter().map(|h| h.join().expect("worker")).collect()
    });
    let mut slots: BTreeMap<usize, Out> = BTreeMap::new();
    for o in outs {
        for (i, v) in o {
            slots.insert(i, v);
        }
    }
    let mut dist: BTreeMap<String, usize> = BTreeMap::new();
    let mut sums: BTreeMap<String, f64> = BTreeMap::new();
    let mut maxes: BTreeMap<String, f64> = BTreeMap::new();
    let mut next_id = 0;
    for c in &todo {
        *dist.entry(format!("axes:{}", c.axes.len())).or_default() += 1;
        *dist.entry(format!("masters:{}", c.masters.len())).or_default() += 1;
        *dist.entry(format!("sparse_masters:{}", c.masters.iter().filter(|m| m.sparse).count())).or_default() += 1;
        *dist.entry(format!("layout:{}", c.layout)).or_default() += 1;
        *dist.entry(format!("denominator:{}", c.d)).or_default() += 1;
        *dist.entry(format!("vertical:{}", c.vertical)).or_default() += 1;
        *dist.entry(format!("point_axis:{}", c.point_axis)).or_default() += 1;
        *dist.entry(format!("keep_direction:{}", c.keep_direction)).or_default() += 1;
        *dist.entry(format!("source:{}", if c.glyphs_v2 { "glyphs2" } else if c.glyphs_source { "glyphs3" } else { "designspace" })).or_default() += 1;
        *dist.entry(format!("partial_brace_masters:{}", c.masters.iter().filter(|m| m.brace.is_some()).count())).or_default() += 1;
        let o = slots.remove(&c.id).unwrap();
        for (k, v) in o.stats {
            if k.starts_with("max_") {
                let e = maxes.entry(k).or_default();
                if v > *e {
                    *e = v;
                }
            } else {
                *sums.entry(k).or_default() += v;
            }
        }
        for mut l in o.lines {
            if l["type"] == "case" {
                l["id"] = json!(next_id);
                next_id += 1;
            }
            emit(l);
        }
    }
    let extra = sums.iter().filter(|(k, _)| k.starts_with("glyph_master_checks")).map(|(_, v)| *v as usize).sum::<usize>();
    emit_stat(json!({"distribution": dist, "counts": sums, "maxima": maxes, "extra_evaluations": extra}));
}
