//! C09: kerning in the font equals the source kerning at every master.
//!
//! Streams (all randomness from one Rng):
//!   lookup  — fontbe kern::lookup_kerning_value (hook) on random sources and pairs of all four kinds
//!   build   — fontbe kern::build_variable_kern_adjustments (hook) on random multi-source kerning with
//!             divergent / missing / unkerned / renamed groups, partial masters, zero pairs, exceptions;
//!             the property predicate is evaluated on its output (most-specific-rule-first reading of the
//!             emitted pairs == UFO lookup on every source, every ordered glyph pair)
//!   e2e     — whole designspaces compiled in process by fontc; GPOS `kern` evaluated by an independent
//!             PairPos (format 1 and 2, VariationIndex through GDEF's ItemVariationStore) evaluator written
//!             here, for every ordered glyph pair at every kerning master, against the UFO lookup
//!             algorithm on that master's own kerning.plist / groups.plist, rounded.
use fontbe::features::kern_verif_hooks as hk;
use fontdrasil::coords::{NormalizedCoord, NormalizedLocation};
use fontdrasil::types::{GlyphName, Tag};
use fontir::ir::{self, KernGroup, KerningInstance, KerningLocations};
use serde_json::json;
use std::collections::{BTreeMap, BTreeSet, HashMap};
use std::str::FromStr;
use vh::srcgen::{compile_path, quiet_panics, scratch_dir, AxisSrc, Design, GlyphSrc, Master, Outcome};
use vh::*;
use write_fonts::read::tables::gpos::{PairPos, PositionSubtables};
use write_fonts::read::tables::layout::DeviceOrVariationIndex;
use write_fonts::read::tables::variations::ItemVariationStore;
use write_fonts::read::types::GlyphId16;
use write_fonts::read::{FontData, FontRef, TableProvider};

const GLYPHS: &[&str] = &["A", "B", "C", "D", "E", "F", "G", "H", "I", "J", "K", "L"];

#[derive(Clone, Copy, Debug, PartialEq, Eq, PartialOrd, Ord, Hash)]
enum Sd {
    G(usize),
    C(usize),
}

/// One master's kerning.plist + kern groups. Groups sorted by index, kerns keyed uniquely.
#[derive(Clone, Debug, Default)]
struct Src {
    kerns: Vec<((Sd, Sd), f64)>,
    g1: Vec<(usize, Vec<usize>)>,
    g2: Vec<(usize, Vec<usize>)>,
}

impl Src {
    fn groups(&self, second: bool) -> &Vec<(usize, Vec<usize>)> {
        if second { &self.g2 } else { &self.g1 }
    }
    /// the group holding glyph `a` (the last one by name if the source is invalid and lists it twice)
    fn group_of(&self, second: bool, a: usize) -> Option<usize> {
        self.groups(second).iter().rev().find(|(_, ms)| ms.contains(&a)).map(|(g, _)| *g)
    }
    fn get(&self, k: (Sd, Sd)) -> Option<f64> {
        self.kerns.iter().find(|(kk, _)| *kk == k).map(|(_, v)| *v)
    }
    fn set(&mut self, k: (Sd, Sd), v: f64) {
        if let Some(e) = self.kerns.iter_mut().find(|(kk, _)| *kk == k) {
            e.1 = v;
        } else {
            self.kerns.push((k, v));
        }
    }
    fn valid(&self) -> bool {
        for second in [false, true] {
            let mut seen = BTreeSet::new();
            for (_, ms) in self.groups(second) {
                for m in ms {
                    if !seen.insert(*m) {
                        return false;
                    }
                }
            }
        }
        true
    }
    fn normalise(&mut self) {
        for gs in [&mut self.g1, &mut self.g2] {
            gs.retain(|(_, ms)| !ms.is_empty());
            gs.sort();
            for (_, ms) in gs.iter_mut() {
                ms.sort();
                ms.dedup();
            }
        }
        // drop keys that name a group this source does not have (ufo2fontir ignores them)
        let (g1, g2) = (self.g1.clone(), self.g2.clone());
        self.kerns.retain(|((x, y), _)| {
            let ok1 = match x { Sd::C(g) => g1.iter().any(|(n, _)| n == g), _ => true };
            let ok2 = match y { Sd::C(g) => g2.iter().any(|(n, _)| n == g), _ => true };
            ok1 && ok2
        });
    }
}

/// The UFO kerning value lookup algorithm on one master (the source side of the property).
fn ufo_lookup(s: &Src, a: usize, b: usize) -> f64 {
    let ga = s.group_of(false, a);
    let gb = s.group_of(true, b);
    if let Some(v) = s.get((Sd::G(a), Sd::G(b))) {
        return v;
    }
    if let Some(h) = gb {
        if let Some(v) = s.get((Sd::G(a), Sd::C(h))) {
            return v;
        }
    }
    if let Some(g) = ga {
        if let Some(v) = s.get((Sd::C(g), Sd::G(b))) {
            return v;
        }
    }
    if let (Some(g), Some(h)) = (ga, gb) {
        if let Some(v) = s.get((Sd::C(g), Sd::C(h))) {
            return v;
        }
    }
    0.0
}

fn ot_round(x: f64) -> f64 {
    (x + 0.5).floor()
}

// ---- generators ----------------------------------------------------------------
fn gen_value(rng: &mut Rng) -> f64 {
    match rng.below(12) {
        0 | 1 => 0.0,
        2 => rng.range(-3, 3) as f64 + 0.5,          // rounding ties
        3 => rng.range(-40, 40) as f64 + 0.25,
        4 => *rng.pick(&[12.3, -7.7, 0.4, -0.4, 0.6, -0.6]),
        5 => *rng.pick(&[-1.0, 1.0]),
        _ => (rng.range(-12, 12) * 10) as f64,
    }
}

fn random_partition(rng: &mut Rng, nglyph: usize, ngroups: usize, p_grouped: u64) -> Vec<(usize, Vec<usize>)> {
    let mut gs: Vec<(usize, Vec<usize>)> = (0..ngroups).map(|g| (g, Vec::new())).collect();
    for a in 0..nglyph {
        if rng.chance(p_grouped, 10) {
            let g = rng.below(ngroups as u64) as usize;
            gs[g].1.push(a);
        }
    }
    gs
}

/// A family of sources: a base grouping, then per-source divergence.
fn gen_sources(rng: &mut Rng, nsrc: usize, nglyph: usize, allow_invalid: bool) -> Vec<Src> {
    let ngroups = rng.range(1, 4) as usize;
    let base1 = random_partition(rng, nglyph, ngroups, 7);
    let base2 = random_partition(rng, nglyph, ngroups, 7);
    let diverge = rng.below(4); // 0: identical groups, 1..3: increasing divergence
    // a shared pool of keys so that masters define overlapping but not identical key sets
    let nkeys = rng.range(1, 8) as usize;
    let mut pool: Vec<(Sd, Sd)> = Vec::new();
    for _ in 0..nkeys {
        let x = if rng.chance(1, 2) { Sd::G(rng.below(nglyph as u64) as usize) } else { Sd::C(rng.below(ngroups as u64 + 2) as usize) };
        let y = if rng.chance(1, 2) { Sd::G(rng.below(nglyph as u64) as usize) } else { Sd::C(rng.below(ngroups as u64 + 2) as usize) };
        pool.push((x, y));
    }
    let mut out = Vec::new();
    for si in 0..nsrc {
        let mut s = Src { g1: base1.clone(), g2: base2.clone(), ..Default::default() };
        if si > 0 || rng.chance(1, 3) {
            for second in [false, true] {
                let gs = if second { &mut s.g2 } else { &mut s.g1 };
                for _ in 0..diverge {
                    match rng.below(6) {
                        0 => {
                            // move a glyph to another group
                            let a = rng.below(nglyph as u64) as usize;
                            for (_, ms) in gs.iter_mut() {
                                ms.retain(|m| *m != a);
                            }
                            let g = rng.below(gs.len() as u64) as usize;
                            gs[g].1.push(a);
                        }
                        1 => {
                            // ungroup a glyph
                            let a = rng.below(nglyph as u64) as usize;
                            for (_, ms) in gs.iter_mut() {
                                ms.retain(|m| *m != a);
                            }
                        }
                        2 => {
                            // a group that only this master has (new name), taking one glyph
                            let a = rng.below(nglyph as u64) as usize;
                            for (_, ms) in gs.iter_mut() {
                                ms.retain(|m| *m != a);
                            }
                            gs.push((ngroups + (si % 2), vec![a]));
                        }
                        3 => {
                            // rename a whole group
                            let g = rng.below(gs.len() as u64) as usize;
                            let n = ngroups + 1;
                            if !gs.iter().any(|(x, _)| *x == n) {
                                gs[g].0 = n;
                            }
                        }
                        4 => {
                            // drop a group entirely
                            let g = rng.below(gs.len() as u64) as usize;
                            gs[g].1.clear();
                        }
                        _ => {
                            if allow_invalid {
                                // invalid UFO: list a glyph in a second group of the same side
                                let a = rng.below(nglyph as u64) as usize;
                                let g = rng.below(gs.len() as u64) as usize;
                                gs[g].1.push(a);
                            }
                        }
                    }
                }
            }
        }
        // merge groups that ended up with the same name
        for gs in [&mut s.g1, &mut s.g2] {
            let mut m: BTreeMap<usize, Vec<usize>> = BTreeMap::new();
            for (g, ms) in gs.drain(..) {
                m.entry(g).or_default().extend(ms);
            }
            *gs = m.into_iter().collect();
        }
        for k in &pool {
            if rng.chance(2, 3) {
                s.set(*k, gen_value(rng));
            }
        }
        // occasionally a master-only key
        if rng.chance(1, 3) {
            let x = if rng.chance(1, 2) { Sd::G(rng.below(nglyph as u64) as usize) } else { Sd::C(rng.below(ngroups as u64 + 2) as usize) };
            let y = if rng.chance(1, 2) { Sd::G(rng.below(nglyph as u64) as usize) } else { Sd::C(rng.below(ngroups as u64 + 2) as usize) };
            s.set((x, y), gen_value(rng));
        }
        s.normalise();
        out.push(s);
    }
    out
}

/// Targeted family: a glyph sits in a kerned group in one master and in a group the other master
/// declares but never kerns ("left-over" group), while that group is kerned elsewhere.
fn gen_leftover(rng: &mut Rng, nglyph: usize) -> Vec<Src> {
    let mut ids: Vec<usize> = (0..nglyph).collect();
    rng.shuffle(&mut ids);
    let (a, m, z, b, b2) = (ids[0], ids[1], ids[2], ids[3], ids[4]);
    let v = |rng: &mut Rng| (rng.range(1, 12) * 10) as f64 * if rng.chance(1, 2) { -1.0 } else { 1.0 };
    let mut s1 = Src::default();
    s1.g1 = vec![(0, vec![a, m]), (1, vec![z])];
    s1.g2 = vec![(0, vec![b]), (1, vec![b2])];
    s1.set((Sd::C(0), Sd::C(0)), v(rng));
    s1.set((Sd::C(0), Sd::C(1)), v(rng));
    s1.set((Sd::C(1), Sd::C(0)), v(rng));
    let mut s2 = Src::default();
    s2.g1 = vec![(1, vec![a])];
    s2.g2 = if rng.chance(1, 2) { s1.g2.clone() } else { vec![(0, vec![b])] };
    s2.set((Sd::G(z), Sd::G(b)), v(rng));
    if rng.chance(1, 2) {
        s2.set((Sd::G(m), Sd::C(0)), v(rng));
    }
    let mut out = vec![s1, s2];
    if rng.chance(1, 2) {
        out.swap(0, 1);
    }
    for s in &mut out {
        s.normalise();
    }
    out
}

// ---- IR construction for the hooks ------------------------------------------------
fn gname(i: usize) -> GlyphName {
    GlyphName::new(GLYPHS[i])
}
fn kgroup(second: bool, g: usize) -> KernGroup {
    let n = format!("k{:02}", g);
    if second { KernGroup::Side2(n.into()) } else { KernGroup::Side1(n.into()) }
}
fn ir_side(second: bool, s: Sd) -> ir::KernSide {
    match s {
        Sd::G(a) => ir::KernSide::Glyph(gname(a)),
        Sd::C(g) => ir::KernSide::Group(kgroup(second, g)),
    }
}
fn hook_loc(i: usize, n: usize) -> NormalizedLocation {
    let v = if n <= 1 { 0.0 } else { i as f64 / (n - 1) as f64 };
    vec![(Tag::from_str("wght").unwrap(), NormalizedCoord::new(v))].into_iter().collect()
}
fn ir_instance(s: &Src, loc: NormalizedLocation) -> KerningInstance {
    let mut ki = KerningInstance { location: loc, ..Default::default() };
    for ((x, y), v) in &s.kerns {
        ki.kerns.insert((ir_side(false, *x), ir_side(true, *y)), (*v).into());
    }
    for second in [false, true] {
        for (g, ms) in s.groups(second) {
            ki.groups.insert(kgroup(second, *g), ms.iter().map(|m| gname(*m)).collect());
        }
    }
    ki
}

// ---- Gallina printers ---------------------------------------------------------------
fn coq_sd(s: Sd) -> String {
    match s {
        Sd::G(a) => format!("SG {}", coq_n(a as u64)),
        Sd::C(g) => format!("SC {}", coq_n(g as u64)),
    }
}
fn coq_groups(gs: &[(usize, Vec<usize>)]) -> String {
    coq_list(gs, |(g, ms)| format!("({}, {})", coq_n(*g as u64), coq_list(ms, |m| coq_n(*m as u64))))
}
fn coq_src(s: &Src) -> String {
    format!(
        "(mkSource {} {} {})",
        coq_list(&s.kerns, |((x, y), v)| format!("(({}, {}), {})", coq_sd(*x), coq_sd(*y), coq_q(*v))),
        coq_groups(&s.g1),
        coq_groups(&s.g2)
    )
}
fn coq_srcs(srcs: &[Src]) -> String {
    coq_list(srcs, coq_src)
}

#[derive(Clone, Debug, PartialEq, Eq, PartialOrd, Ord)]
enum Es {
    G(usize),
    C(Vec<usize>),
}
impl Es {
    fn has(&self, a: usize) -> bool {
        match self {
            Es::G(g) => *g == a,
            Es::C(ms) => ms.contains(&a),
        }
    }
    fn is_class(&self) -> bool {
        matches!(self, Es::C(_))
    }
}
fn coq_es(e: &Es) -> String {
    match e {
        Es::G(a) => format!("EG {}", coq_n(*a as u64)),
        Es::C(ms) => format!("EC {}", coq_list(ms, |m| coq_n(*m as u64))),
    }
}

fn glyph_index(n: &GlyphName) -> usize {
    GLYPHS.iter().position(|g| *g == n.as_str()).expect("known glyph")
}

/// most-specific-rule-first reading of an emitted pair list; returns every hit of the best kind
fn best_hits<'a>(rules: &'a [(Es, Es, Vec<f64>)], a: usize, b: usize) -> Vec<&'a (Es, Es, Vec<f64>)> {
    for (c1, c2) in [(false, false), (false, true), (true, false), (true, true)] {
        let h: Vec<_> = rules.iter().filter(|(x, y, _)| x.is_class() == c1 && y.is_class() == c2 && x.has(a) && y.has(b)).collect();
        if !h.is_empty() {
            return h;
        }
    }
    Vec::new()
}

fn src_json(srcs: &[Src]) -> serde_json::Value {
    json!(srcs
        .iter()
        .map(|s| json!({
            "kerning": s.kerns.iter().map(|((x, y), v)| json!([side_name(false, *x), side_name(true, *y), v])).collect::<Vec<_>>(),
            "groups1": s.g1.iter().map(|(g, ms)| json!([group_name(false, *g), ms.iter().map(|m| GLYPHS[*m]).collect::<Vec<_>>()])).collect::<Vec<_>>(),
            "groups2": s.g2.iter().map(|(g, ms)| json!([group_name(true, *g), ms.iter().map(|m| GLYPHS[*m]).collect::<Vec<_>>()])).collect::<Vec<_>>(),
        }))
        .collect::<Vec<_>>())
}
fn group_name(second: bool, g: usize) -> String {
    format!("public.kern{}.k{:02}", if second { 2 } else { 1 }, g)
}
fn side_name(second: bool, s: Sd) -> String {
    match s {
        Sd::G(a) => GLYPHS[a].to_string(),
        Sd::C(g) => group_name(second, g),
    }
}

// ---- stream: lookup_kerning_value --------------------------------------------------
fn run_lookup(rng: &mut Rng, id: &mut usize, n: usize) {
    for _ in 0..n {
        let nglyph = rng.range(2, 6) as usize;
        let srcs = gen_sources(rng, 1, nglyph, true);
        let s = &srcs[0];
        let pick_side = |rng: &mut Rng, second: bool| {
            let gs = s.groups(second);
            if rng.chance(1, 3) && !gs.is_empty() { Sd::C(gs[rng.below(gs.len() as u64) as usize].0) } else { Sd::G(rng.below(nglyph as u64) as usize) }
        };
        let (x, y) = (pick_side(rng, false), pick_side(rng, true));
        let ki = ir_instance(s, hook_loc(0, 1));
        let pair = (ir_side(false, x), ir_side(true, y));
        let got = match std::panic::catch_unwind(|| hk::lookup_kerning_value(&pair, &ki)) {
            Ok(v) => v,
            Err(_) => {
                emit_violation("kern-lookup-panic", format!("lookup_kerning_value panicked on {:?}", pair), json!({"source": src_json(&srcs)}));
                continue;
            }
        };
        if let (Sd::G(a), Sd::G(b)) = (x, y) {
            let want = ufo_lookup(s, a, b);
            if want != got {
                emit_violation(
                    "kern-lookup-differs-from-ufo-algorithm",
                    format!("lookup_kerning_value({}, {}) = {} but the UFO lookup algorithm gives {}", GLYPHS[a], GLYPHS[b], got, want),
                    json!({"source": src_json(&srcs), "pair": [GLYPHS[a], GLYPHS[b]]}),
                );
            }
        }
        let coq = format!("Qeq_bool (lookup_kerning_value {} ({}, {})) {}", coq_src(s), coq_sd(x), coq_sd(y), coq_q(got));
        let show = format!("lookup_kerning_value {} ({}, {})", coq_src(s), coq_sd(x), coq_sd(y));
        emit_case(*id, "lookup", coq, Some(show), !s.kerns.is_empty(), format!("l:{:?}{:?}{:?}", s, x, y), json!({"impl": got, "valid_groups": s.valid()}));
        *id += 1;
    }
}

// ---- stream: build_variable_kern_adjustments ----------------------------------------
struct BuildOut {
    rules: Vec<(Es, Es, Vec<f64>)>,
    classes1: Vec<Vec<usize>>,
    classes2: Vec<Vec<usize>>,
}

fn run_build_impl(srcs: &[Src]) -> Result<BuildOut, String> {
    let n = srcs.len();
    let mut locs = KerningLocations::default();
    let mut by_pos = HashMap::new();
    let mut order = Vec::new();
    for (i, s) in srcs.iter().enumerate() {
        let l = hook_loc(i, n);
        locs.locations.insert(l.clone());
        by_pos.insert(l.clone(), ir_instance(s, l.clone()));
        order.push(l);
    }
    let r = std::panic::catch_unwind(|| hk::build_variable_kern_adjustments(&locs, &by_pos));
    let (groups, adj) = match r {
        Ok(x) => x,
        Err(p) => {
            let msg = p.downcast_ref::<String>().cloned().or_else(|| p.downcast_ref::<&str>().map(|s| s.to_string())).unwrap_or_default();
            return Err(msg);
        }
    };
    let members = |g: &KernGroup| -> Option<Vec<usize>> { groups.get(g).map(|ms| ms.iter().map(glyph_index).collect()) };
    let mut rules = Vec::new();
    for ((x, y), vals) in &adj {
        let conv = |s: &ir::KernSide| -> Result<Es, String> {
            match s {
                ir::KernSide::Glyph(g) => Ok(Es::G(glyph_index(g))),
                ir::KernSide::Group(g) => members(g).map(Es::C).ok_or(format!("adjustment names class {g} that is not in the returned groups")),
            }
        };
        let v: Vec<f64> = order.iter().map(|l| vals.get(l).map(|v| v.into_inner()).unwrap_or(f64::NAN)).collect();
        if vals.len() != n || v.iter().any(|x| x.is_nan()) {
            return Err(format!("adjustment {x} {y} does not carry one value per kerning location"));
        }
        rules.push((conv(x)?, conv(y)?, v));
    }
    let mut classes1 = Vec::new();
    let mut classes2 = Vec::new();
    for (g, ms) in &groups {
        let v: Vec<usize> = ms.iter().map(glyph_index).collect();
        match g {
            KernGroup::Side1(_) => classes1.push(v),
            KernGroup::Side2(_) => classes2.push(v),
        }
    }
    Ok(BuildOut { rules, classes1, classes2 })
}

fn run_build(rng: &mut Rng, id: &mut usize, n: usize, stats: &mut BTreeMap<String, u64>) {
    for k in 0..n {
        let nglyph = rng.range(3, 7) as usize;
        let (srcs, kind) = if k % 9 == 8 {
            (gen_leftover(rng, nglyph.max(5)), "build-leftover")
        } else if k % 9 == 7 {
            let ns = rng.range(1, 3) as usize;
            (gen_sources(rng, ns, nglyph, true), "build-invalid")
        } else {
            let ns = rng.range(1, 4) as usize;
            (gen_sources(rng, ns, nglyph, false), "build")
        };
        let nglyph = nglyph.max(5);
        let out = match run_build_impl(&srcs) {
            Ok(o) => o,
            Err(msg) => {
                let key = if msg.contains("conflicting variable kern values") { "kern-colliding-inserts-differ" } else { "kern-build-panic-or-malformed" };
                emit_violation(key, format!("build_variable_kern_adjustments: {msg}"), json!({"sources": src_json(&srcs)}));
                continue;
            }
        };
        // ---- the property predicate on the implementation's output
        let mut bad: Option<String> = None;
        let mut nonzero = 0u64;
        'outer: for a in 0..nglyph {
            for b in 0..nglyph {
                let hits = best_hits(&out.rules, a, b);
                for (si, s) in srcs.iter().enumerate() {
                    let want = ufo_lookup(s, a, b);
                    if want != 0.0 {
                        nonzero += 1;
                    }
                    if hits.is_empty() {
                        if want != 0.0 {
                            bad = Some(format!("no emitted pair covers ({}, {}) but master {} kerns it by {}", GLYPHS[a], GLYPHS[b], si, want));
                            break 'outer;
                        }
                    }
                    for h in &hits {
                        if h.2[si] != want {
                            bad = Some(format!(
                                "emitted pair {:?}/{:?} gives ({}, {}) the value {} at master {} but that master's own kerning resolves to {}",
                                h.0, h.1, GLYPHS[a], GLYPHS[b], h.2[si], si, want
                            ));
                            break 'outer;
                        }
                    }
                }
            }
        }
        if let Some(msg) = bad {
            emit_violation("reconciled-pairs-differ-from-source-cascade", msg, json!({"sources": src_json(&srcs)}));
        }
        // overlapping output classes on one side (what splits PairPos format 2 subtables)
        for cl in [&out.classes1, &out.classes2] {
            for (i, x) in cl.iter().enumerate() {
                for y in &cl[i + 1..] {
                    if x != y && x.iter().any(|g| y.contains(g)) {
                        *stats.entry("build_overlapping_output_class_pairs".into()).or_default() += 1;
                    }
                }
            }
        }
        *stats.entry(format!("{kind}_sources_{}", srcs.len())).or_default() += 1;
        let coq = format!(
            "let srcs := {} in rules_equiv (build srcs) {} && classes_equiv (out_classes First srcs) {} && classes_equiv (out_classes Second srcs) {}",
            coq_srcs(&srcs),
            coq_list(&out.rules, |(x, y, v)| format!("(({}, {}), {})", coq_es(x), coq_es(y), coq_list(v, |q| coq_q(*q)))),
            coq_list(&out.classes1, |c| coq_list(c, |m| coq_n(*m as u64))),
            coq_list(&out.classes2, |c| coq_list(c, |m| coq_n(*m as u64))),
        );
        let show = format!("build {}", coq_srcs(&srcs));
        emit_case(
            *id,
            kind,
            coq,
            Some(show),
            nonzero > 0,
            format!("b:{:?}", srcs),
            json!({"sources": src_json(&srcs), "impl_rules": out.rules.len(), "valid_groups": srcs.iter().all(|s| s.valid())}),
        );
        *id += 1;
    }
}

// ---- independent GPOS kern evaluator -------------------------------------------------
struct Kern<'a> {
    font: FontRef<'a>,
    ivs: Option<ItemVariationStore<'a>>,
    gids: HashMap<String, u16>,
}

fn region_scalar(axes: &[(f64, f64, f64)], coords: &[f64]) -> f64 {
    let mut s = 1.0;
    for (i, (start, peak, end)) in axes.iter().enumerate() {
        let v = coords.get(i).copied().unwrap_or(0.0);
        if *peak == 0.0 || start > peak || peak > end || (*start < 0.0 && *end > 0.0) {
            continue;
        }
        if v == *peak {
            continue;
        }
        if v <= *start || v >= *end {
            return 0.0;
        }
        s *= if v < *peak { (v - start) / (peak - start) } else { (end - v) / (end - peak) };
    }
    s
}

impl<'a> Kern<'a> {
    fn new(bytes: &'a [u8]) -> Result<Self, String> {
        let font = FontRef::new(bytes).map_err(|e| e.to_string())?;
        let ivs = match font.gdef() {
            Ok(g) => match g.item_var_store() {
                Some(Ok(s)) => Some(s),
                Some(Err(e)) => return Err(format!("GDEF var store: {e}")),
                None => None,
            },
            Err(_) => None,
        };
        let mut gids = HashMap::new();
        let post = font.post().map_err(|e| e.to_string())?;
        let n = font.maxp().map_err(|e| e.to_string())?.num_glyphs();
        for g in 0..n {
            if let Some(name) = post.glyph_name(GlyphId16::new(g)) {
                gids.insert(name.to_string(), g);
            }
        }
        Ok(Kern { font, ivs, gids })
    }

    fn delta(&self, outer: u16, inner: u16, coords: &[f64]) -> Result<f64, String> {
        let ivs = self.ivs.as_ref().ok_or("VariationIndex but GDEF has no ItemVariationStore")?;
        let regions = ivs.variation_region_list().map_err(|e| e.to_string())?.variation_regions();
        let data = ivs.item_variation_data().get(outer as usize).ok_or("outer index out of range")?.map_err(|e| e.to_string())?;
        if inner >= data.item_count() {
            return Err(format!("inner index {inner} out of range ({} items)", data.item_count()));
        }
        let mut total = 0.0;
        for (ri, d) in data.region_indexes().iter().zip(data.delta_set(inner)) {
            let region = regions.get(ri.get() as usize).map_err(|e| e.to_string())?;
            let axes: Vec<(f64, f64, f64)> = region
                .region_axes()
                .iter()
                .map(|c| (c.start_coord().to_bits() as f64 / 16384.0, c.peak_coord().to_bits() as f64 / 16384.0, c.end_coord().to_bits() as f64 / 16384.0))
                .collect();
            total += region_scalar(&axes, coords) * d as f64;
        }
        Ok(total)
    }

    fn record_value(&self, rec: &write_fonts::read::tables::gpos::ValueRecord, data: FontData<'a>, coords: &[f64]) -> Result<f64, String> {
        if rec.x_placement().unwrap_or(0) != 0 || rec.y_placement().unwrap_or(0) != 0 || rec.y_advance().unwrap_or(0) != 0 {
            return Err("kern value record carries a placement / y advance".into());
        }
        let mut v = rec.x_advance().unwrap_or(0) as f64;
        if let Some(dev) = rec.x_advance_device(data) {
            match dev.map_err(|e| e.to_string())? {
                DeviceOrVariationIndex::VariationIndex(vi) => v += self.delta(vi.delta_set_outer_index(), vi.delta_set_inner_index(), coords)?,
                DeviceOrVariationIndex::Device(_) => return Err("hinting Device table in kern value".into()),
            }
        }
        Ok(v)
    }

    /// lookup indices of feature `kern` for a script's default language system
    fn kern_lookups(&self, script: &[u8; 4]) -> Result<Option<Vec<u16>>, String> {
        let gpos = match self.font.gpos() {
            Ok(g) => g,
            Err(_) => return Ok(None),
        };
        let sl = gpos.script_list().map_err(|e| e.to_string())?;
        let fl = gpos.feature_list().map_err(|e| e.to_string())?;
        let want = write_fonts::types::Tag::new(script);
        for sr in sl.script_records() {
            if sr.script_tag() != want {
                continue;
            }
            let sc = sr.script(sl.offset_data()).map_err(|e| e.to_string())?;
            let Some(ls) = sc.default_lang_sys() else { return Ok(Some(Vec::new())) };
            let ls = ls.map_err(|e| e.to_string())?;
            let mut out = Vec::new();
            for fi in ls.feature_indices() {
                let fr = fl.feature_records().get(fi.get() as usize).ok_or("feature index out of range")?;
                if fr.feature_tag() == write_fonts::types::Tag::new(b"kern") {
                    let f = fr.feature(fl.offset_data()).map_err(|e| e.to_string())?;
                    out.extend(f.lookup_list_indices().iter().map(|x| x.get()));
                }
            }
            out.sort();
            out.dedup();
            return Ok(Some(out));
        }
        Ok(None)
    }

    /// x-advance adjustment of glyph g1 when followed by g2 (two-glyph run), at `coords`.
    /// Returns (OpenType reading, lenient reading that skips a format 2 subtable when class2 = 0).
    fn pair_adjust(&self, lookups: &[u16], g1: u16, g2: u16, coords: &[f64]) -> Result<(f64, f64), String> {
        if lookups.is_empty() {
            return Ok((0.0, 0.0));
        }
        let gpos = self.font.gpos().map_err(|e| e.to_string())?;
        let ll = gpos.lookup_list().map_err(|e| e.to_string())?;
        let (a, b) = (GlyphId16::new(g1), GlyphId16::new(g2));
        let mut totals = [0.0f64; 2];
        for li in lookups {
            let lookup = ll.lookups().get(*li as usize).map_err(|e| e.to_string())?;
            let subs = match lookup.subtables().map_err(|e| e.to_string())? {
                PositionSubtables::Pair(s) => s,
                _ => return Err(format!("kern lookup {li} is not a pair adjustment lookup")),
            };
            for (mode, total) in totals.iter_mut().enumerate() {
                for st in subs.iter() {
                    match st.map_err(|e| e.to_string())? {
                        PairPos::Format1(t) => {
                            let Some(ci) = t.coverage().map_err(|e| e.to_string())?.get(a) else { continue };
                            let ps = t.pair_sets().get(ci as usize).map_err(|e| e.to_string())?;
                            let mut found = false;
                            for rec in ps.pair_value_records().iter() {
                                let rec = rec.map_err(|e| e.to_string())?;
                                if rec.second_glyph() == b {
                                    *total += self.record_value(rec.value_record1(), ps.offset_data(), coords)?;
                                    if rec.value_record2().x_advance().unwrap_or(0) != 0 || rec.value_record2().x_placement().unwrap_or(0) != 0 {
                                        return Err("second value record is not empty".into());
                                    }
                                    found = true;
                                    break;
                                }
                            }
                            if found {
                                break;
                            }
                        }
                        PairPos::Format2(t) => {
                            if t.coverage().map_err(|e| e.to_string())?.get(a).is_none() {
                                continue;
                            }
                            let c1 = t.class_def1().map_err(|e| e.to_string())?.get(a);
                            let c2 = t.class_def2().map_err(|e| e.to_string())?.get(b);
                            if mode == 1 && c2 == 0 {
                                continue;
                            }
                            if c1 >= t.class1_count() || c2 >= t.class2_count() {
                                return Err("class index out of range".into());
                            }
                            let r1 = t.class1_records().get(c1 as usize).map_err(|e| e.to_string())?;
                            let r2 = r1.class2_records().get(c2 as usize).map_err(|e| e.to_string())?;
                            *total += self.record_value(r2.value_record1(), t.offset_data(), coords)?;
                            break;
                        }
                    }
                }
            }
        }
        Ok((totals[0], totals[1]))
    }
}

// ---- stream: end to end -----------------------------------------------------------------
struct E2e {
    /// some glyphs carry no code point (script "common"): kern lookups are split by script; no Coq term
    mixed: bool,
    design: Design,
    /// per master: (Src, normalized coords, participates in kerning, is default)
    masters: Vec<(Src, Vec<f64>, bool, bool)>,
    nglyph: usize,
}

fn gen_design(rng: &mut Rng, family: &str, fixed: Option<(Vec<Src>, usize)>, mixed: bool) -> E2e {
    let is_fixed = fixed.is_some();
    let two_axes = !is_fixed && rng.chance(1, 4);
    let mut axes = vec![AxisSrc { name: "Weight".into(), tag: "wght".into(), min: 0.0, default: 0.0, max: 1000.0, ..Default::default() }];
    if two_axes {
        axes.push(AxisSrc { name: "Width".into(), tag: "wdth".into(), min: 50.0, default: 100.0, max: 150.0, ..Default::default() });
    }
    // master positions (design == user; no maps): normalized values are exact in F2Dot14
    let wght_pos = [(1000.0, 1.0), (500.0, 0.5), (250.0, 0.25), (750.0, 0.75)];
    let wdth_pos = [(150.0, 1.0), (50.0, -1.0), (125.0, 0.5), (75.0, -0.5)];
    let nmaster = match &fixed {
        Some((s, _)) => s.len(),
        None => rng.range(1, 4) as usize,
    };
    let nglyph = match &fixed {
        Some((_, n)) => *n,
        None => rng.range(4, 8) as usize,
    };
    let mut locs: Vec<(Vec<(String, f64)>, Vec<f64>)> = vec![(axes.iter().map(|a| (a.name.clone(), a.default)).collect(), vec![0.0; axes.len()])];
    let mut tries = 0;
    while locs.len() < nmaster && tries < 100 {
        tries += 1;
        let mut d = Vec::new();
        let mut nrm = Vec::new();
        let (wv, wn) = if two_axes && rng.chance(1, 3) { (0.0, 0.0) } else { wght_pos[if rng.chance(2, 3) { 0 } else { rng.below(4) as usize }] };
        d.push(("Weight".to_string(), wv));
        nrm.push(wn);
        if two_axes {
            let (v, n) = if rng.chance(1, 3) { (100.0, 0.0) } else { wdth_pos[rng.below(4) as usize] };
            d.push(("Width".to_string(), v));
            nrm.push(n);
        }
        if !locs.iter().any(|(_, n)| *n == nrm) {
            locs.push((d, nrm));
        }
    }
    let nmaster = locs.len();
    let srcs: Vec<Src> = match fixed {
        Some((s, _)) => s,
        None => {
            if rng.chance(1, 6) {
                let mut v = gen_leftover(rng, nglyph.max(5));
                while v.len() < nmaster {
                    let extra = gen_sources(rng, 1, nglyph, false).remove(0);
                    v.push(extra);
                }
                v.truncate(nmaster);
                v
            } else {
                gen_sources(rng, nmaster, nglyph, false)
            }
        }
    };
    let nglyph = nglyph.max(5).min(GLYPHS.len());
    let glyphs: Vec<GlyphSrc> = std::iter::once(GlyphSrc::new(".notdef", 500.0).rect(50.0, 0.0, 450.0, 700.0))
        .chain((0..nglyph).map(|i| {
            let g = GlyphSrc::new(GLYPHS[i], 600.0).rect(50.0, 0.0, 550.0, 700.0);
            if mixed && rng.chance(1, 3) { g } else { g.uni(0x41 + i as u32) }
        }))
        .collect();
    let order: Vec<String> = glyphs.iter().map(|g| g.name.clone()).collect();
    let mut masters = Vec::new();
    let mut info = Vec::new();
    for (mi, ((dloc, nloc), mut s)) in locs.into_iter().zip(srcs).enumerate() {
        // a master without kerning: the default still takes part (all zero), others drop out
        if !is_fixed && mi > 0 && nmaster > 2 && rng.chance(1, 8) {
            s.kerns.clear();
        }
        if !is_fixed && mi == 0 && rng.chance(1, 10) {
            s.kerns.clear();
        }
        let m = Master {
            name: format!("M{mi}"),
            style: format!("S{mi}"),
            location: dloc,
            glyphs: glyphs.clone(),
            kerning: s.kerns.iter().map(|((x, y), v)| (side_name(false, *x), side_name(true, *y), *v)).collect(),
            groups: s
                .g1
                .iter()
                .map(|(g, ms)| (group_name(false, *g), ms.iter().map(|m| GLYPHS[*m].to_string()).collect()))
                .chain(s.g2.iter().map(|(g, ms)| (group_name(true, *g), ms.iter().map(|m| GLYPHS[*m].to_string()).collect())))
                .collect(),
            glyph_order: Some(order.clone()),
            ..Default::default()
        };
        let participates = mi == 0 || !s.kerns.is_empty();
        info.push((s, nloc, participates, mi == 0));
        masters.push(m);
    }
    E2e { mixed, design: Design { family: family.into(), upem: 1000, axes, masters, ..Default::default() }, masters: info, nglyph }
}

fn run_e2e_case(e: &E2e, kind: &str, id: &mut usize, stats: &mut BTreeMap<String, u64>) {
    let dir = scratch_dir("c09");
    let path = e.design.write_designspace(dir.path());
    let input = json!({"masters": e.masters.iter().map(|(s, n, p, _)| json!({"location": n, "kerning_master": p, "source": src_json(std::slice::from_ref(s))[0]})).collect::<Vec<_>>()});
    let bytes = match compile_path(&path, None, None) {
        Outcome::Font(b) => b,
        Outcome::Error(msg) => {
            emit_violation("kern-compile-error", format!("valid kerning source does not compile: {msg}"), input);
            return;
        }
        Outcome::Panic(msg) => {
            let key = if msg.contains("conflicting variable kern values") { "kern-colliding-inserts-differ" } else { "kern-compile-panic" };
            emit_violation(key, format!("fontc panicked on a valid kerning source: {msg}"), input);
            return;
        }
    };
    if std::env::args().any(|a| a == "--dump") && kind.starts_with("corpus") {
        eprintln!("== {kind}");
        dump_gpos(&bytes);
    }
    let kern = match Kern::new(&bytes) {
        Ok(k) => k,
        Err(msg) => {
            emit_violation("kern-font-unreadable", msg, input);
            return;
        }
    };
    let ksrcs: Vec<&(Src, Vec<f64>, bool, bool)> = e.masters.iter().filter(|m| m.2).collect();
    let any_kern = ksrcs.iter().any(|m| (0..e.nglyph).any(|a| (0..e.nglyph).any(|b| ot_round(ufo_lookup(&m.0, a, b)) != 0.0)));
    let mut first_bad: BTreeMap<&'static str, String> = BTreeMap::new();
    let mut obs: Vec<(usize, usize, Vec<f64>)> = Vec::new();
    let mut inexact = 0u64;
    let mut evals = 0u64;
    // a shaper falls back to DFLT when the run's script has no record, so only the scripts that are
    // present are evaluated; with no script at all the font kerns nothing
    let mut avail: Vec<(String, Vec<u16>)> = Vec::new();
    for script in [b"DFLT", b"latn"] {
        match kern.kern_lookups(script) {
            Ok(Some(l)) => avail.push((String::from_utf8_lossy(script).into_owned(), l)),
            Ok(None) => {}
            Err(msg) => {
                first_bad.entry("kern-font-unreadable").or_insert(msg);
            }
        }
    }
    if avail.is_empty() {
        if any_kern {
            first_bad.entry("kern-feature-missing").or_insert("GPOS has neither a DFLT nor a latn script although the source kerns".into());
        }
        avail.push(("none".into(), Vec::new()));
    }
    for (sidx, (script, lookups)) in avail.iter().enumerate() {
        for a in 0..e.nglyph {
            for b in 0..e.nglyph {
                let (Some(ga), Some(gb)) = (kern.gids.get(GLYPHS[a]), kern.gids.get(GLYPHS[b])) else {
                    first_bad.entry("kern-font-unreadable").or_insert("glyph missing from post".into());
                    continue;
                };
                let mut row = Vec::new();
                for m in &ksrcs {
                    let want = ot_round(ufo_lookup(&m.0, a, b));
                    evals += 1;
                    match kern.pair_adjust(lookups, *ga, *gb, &m.1) {
                        Err(msg) => {
                            first_bad.entry("kern-font-unreadable").or_insert(msg);
                            row.push(f64::NAN);
                        }
                        Ok((strict, lenient)) => {
                            row.push(strict);
                            let tol = if m.3 { 0.0 } else { 0.5 };
                            let ok = |v: f64| (v - want).abs() <= tol;
                            if (strict - want).abs() > 0.0 && ok(strict) {
                                inexact += 1;
                            }
                            if !ok(strict) {
                                let key = if ok(lenient) { "kern-class-pair-shadowed-by-earlier-subtable" } else { "kern-value-differs-from-source-at-master" };
                                first_bad.entry(key).or_insert(format!(
                                    "script {}: glyphs ({}, {}) at master location {:?}: the font's kern feature moves by {} (skipping class-0 subtables: {}), that master's own kerning resolves to {} (rounded {})",
                                    script, GLYPHS[a], GLYPHS[b], m.1, strict, lenient, ufo_lookup(&m.0, a, b), want
                                ));
                            } else if !ok(lenient) {
                                first_bad.entry("kern-value-differs-when-class0-subtables-skipped").or_insert(format!(
                                    "script {}: glyphs ({}, {}) at master location {:?}: a shaper that skips format 2 subtables whose second class is 0 moves by {}, source says {}",
                                    script, GLYPHS[a], GLYPHS[b], m.1, lenient, want
                                ));
                            }
                        }
                    }
                }
                if sidx == 0 {
                    obs.push((a, b, row));
                }
            }
        }
    }
    for (key, msg) in &first_bad {
        emit_violation(key, msg.clone(), input.clone());
        *stats.entry(format!("e2e_violation_{key}")).or_default() += 1;
    }
    *stats.entry("e2e_pair_master_evaluations".into()).or_default() += evals;
    *stats.entry("e2e_values_within_half_but_inexact".into()).or_default() += inexact;
    *stats.entry(format!("e2e_kerning_masters_{}", ksrcs.len())).or_default() += 1;
    if e.mixed {
        *stats.entry("e2e_mixed_script_fonts".into()).or_default() += 1;
        return;
    }
    if obs.iter().any(|(_, _, r)| r.iter().any(|v| v.is_nan())) {
        return;
    }
    // model side: the font values the model predicts (PairPos model over the reconciled pairs), rounded,
    // within 1/2 (exact at the default master) of what the real font does
    let eps = coq_list(&ksrcs, |m| if m.3 { "0%Q".to_string() } else { "(1 # 2)%Q".to_string() });
    let srcs: Vec<Src> = ksrcs.iter().map(|m| m.0.clone()).collect();
    let coq = format!(
        "let srcs := {} in obs_all_ok srcs {} {}",
        coq_srcs(&srcs),
        eps,
        coq_list(&obs, |(a, b, r)| format!("(({}, {}), {})", coq_n(*a as u64), coq_n(*b as u64), coq_list(r, |v| coq_q(*v))))
    );
    emit_case(*id, kind, coq, None, any_kern, format!("e:{:?}", e.masters), json!({"masters": e.masters.len(), "kerning_masters": ksrcs.len(), "glyphs": e.nglyph}));
    *id += 1;
}

/// debugging aid (--dump): the PairPos subtables of the kern lookups, to stderr
fn dump_gpos(bytes: &[u8]) {
    let Ok(k) = Kern::new(bytes) else { return };
    let Ok(gpos) = k.font.gpos() else { return };
    let Ok(ll) = gpos.lookup_list() else { return };
    let names: BTreeMap<u16, String> = k.gids.iter().map(|(n, g)| (*g, n.clone())).collect();
    let nm = |g: u16| names.get(&g).cloned().unwrap_or_else(|| format!("gid{g}"));
    for (li, l) in ll.lookups().iter().enumerate() {
        let Ok(l) = l else { continue };
        let Ok(PositionSubtables::Pair(subs)) = l.subtables() else { continue };
        for (si, st) in subs.iter().enumerate() {
            match st {
                Ok(PairPos::Format1(t)) => {
                    let cov: Vec<String> = t.coverage().map(|c| c.iter().map(|g| nm(g.to_u16())).collect()).unwrap_or_default();
                    eprintln!("lookup {li} subtable {si}: format 1, first glyphs {:?}", cov);
                }
                Ok(PairPos::Format2(t)) => {
                    let cov: Vec<String> = t.coverage().map(|c| c.iter().map(|g| nm(g.to_u16())).collect()).unwrap_or_default();
                    let (Ok(c1), Ok(c2)) = (t.class_def1(), t.class_def2()) else { continue };
                    let cl = |cd: &write_fonts::read::tables::layout::ClassDef| -> Vec<(String, u16)> {
                        names.iter().map(|(g, n)| (n.clone(), cd.get(GlyphId16::new(*g)))).filter(|(_, c)| *c != 0).collect()
                    };
                    eprintln!("lookup {li} subtable {si}: format 2, coverage {:?}, class1 {:?}, class2 {:?}, {}x{} records", cov, cl(&c1), cl(&c2), t.class1_count(), t.class2_count());
                }
                Err(e) => eprintln!("lookup {li} subtable {si}: {e}"),
            }
        }
    }
}

/// fixed corpus: the fixtures of fontc's own tests and the minimal left-over-group source
fn corpus() -> Vec<(&'static str, Vec<Src>, usize)> {
    let mut out = Vec::new();
    // glyph indices: A0 B1 C2 D3 E4 F5 G6 H7 I8 J9 K10 L11
    // left-over group: A is in kern1.k00 {A,B} (kerned) at the default; the other master declares
    // kern1.k01 = {A} but never kerns it, while the default kerns kern1.k01 = {C}
    let mut s1 = Src { g1: vec![(0, vec![0, 1]), (1, vec![2])], g2: vec![(0, vec![3]), (1, vec![4])], ..Default::default() };
    s1.set((Sd::C(0), Sd::C(0)), -50.0);
    s1.set((Sd::C(0), Sd::C(1)), -70.0);
    s1.set((Sd::C(1), Sd::C(0)), -20.0);
    let mut s2 = Src { g1: vec![(1, vec![0])], g2: vec![(0, vec![3]), (1, vec![4])], ..Default::default() };
    s2.set((Sd::G(2), Sd::G(3)), -10.0);
    out.push(("corpus-leftover-group", vec![s1, s2], 5));
    // divergent groups, after fontc's divergent_kern_groups_resolved_against_each_master
    // A0 B1 C2 D3 E4 H5(F) T6(G) W7(H) X8(I) Y9(J) Z10(K)
    let mut r = Src { g1: vec![(0, vec![2, 3, 4])], g2: vec![(0, vec![7, 8, 9])], ..Default::default() };
    r.set((Sd::G(0), Sd::C(0)), 100.0);
    r.set((Sd::C(0), Sd::G(6)), 200.0);
    r.set((Sd::C(0), Sd::C(0)), 300.0);
    let mut b = Src { g1: vec![(0, vec![2, 3, 5]), (1, vec![4])], g2: vec![(0, vec![7, 8]), (1, vec![9]), (2, vec![10])], ..Default::default() };
    b.set((Sd::G(0), Sd::C(1)), -50.0);
    b.set((Sd::G(0), Sd::C(0)), 100.0);
    b.set((Sd::G(1), Sd::C(2)), -30.0);
    b.set((Sd::C(1), Sd::G(6)), -60.0);
    b.set((Sd::C(1), Sd::C(1)), -10.0);
    b.set((Sd::C(0), Sd::G(6)), 200.0);
    b.set((Sd::C(0), Sd::C(0)), 300.0);
    out.push(("corpus-divergent", vec![r, b], 11));
    out
}

fn main() {
    quiet_panics();
    let args: Vec<String> = std::env::args().collect();
    let args = &args[1..];
    let seed = arg_val(args, "--seed", 1);
    let n = arg_val(args, "--n", 400) as usize;
    let n_e2e = arg_val(args, "--e2e", 60) as usize;
    let mut rng = Rng::new(seed);
    let mut id = 0usize;
    let mut stats: BTreeMap<String, u64> = BTreeMap::new();

    // corpus first
    for (kind, srcs, nglyph) in corpus() {
        let e = gen_design(&mut rng, "C09Corpus", Some((srcs, nglyph)), false);
        run_e2e_case(&e, kind, &mut id, &mut stats);
    }
    run_lookup(&mut rng, &mut id, n / 2);
    run_build(&mut rng, &mut id, n, &mut stats);
    for k in 0..n_e2e {
        let mixed = k % 6 == 5;
        let e = gen_design(&mut rng, &format!("C09F{k}"), None, mixed);
        run_e2e_case(&e, if mixed { "e2e-mixed" } else { "e2e" }, &mut id, &mut stats);
    }
    let extra = stats.get("e2e_pair_master_evaluations").copied().unwrap_or(0);
    let mut v = json!({"extra_evaluations": extra});
    for (k, x) in &stats {
        v[k] = json!(x);
    }
    emit_stat(v);
}
