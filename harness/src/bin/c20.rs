//! C20: same design, same font through every entry point and container.
//!
//! Streams (all randomness from one seed; every design gets its own Rng derived from seed+index):
//!  P  Plist::parse on generated / mutated / corpus-snippet texts, compared with the Coq model
//!     (`agree_res (parse text) impl`) and, for two formattings of one document, with itself;
//!  G  every corpus / generated Glyphs design: file on disk vs same text in memory vs split
//!     .glyphspackage vs reformatted text (white space, key order, quoting), font bytes compared;
//!  X  the targeted `unicode = (a,b);` layout cases;
//!  C  the real CLI (rebuilt from the working tree) vs fontc::generate_font with the options the
//!     arguments mean; the Options the binary logs compared with the model's options_of_args;
//!  I  Input::new extension dispatch vs model;
//!  U  a lone UFO vs a designspace listing only that UFO (with / without the public.* lib keys).
use fontir::orchestration::Flags;
use glyphs_reader::Plist;
use serde_json::json;
use std::collections::BTreeSet;
use std::fs;
use std::path::{Path, PathBuf};
use std::process::{Command, Stdio};
use std::sync::Mutex;
use vh::srcgen::{self, Design, GlyphSrc, Outcome};
use vh::*;

// =============================================================== plist documents (harness side)
#[derive(Clone, Debug, PartialEq)]
struct KeyTok {
    text: String,
    quoted: bool,
}
#[derive(Clone, Debug, PartialEq)]
enum Node {
    Atom(String),
    Quoted(String),
    Data(Vec<u8>),
    Dict(Vec<(KeyTok, Node)>),
    Arr(Vec<Node>),
}

fn is_alnum(c: char) -> bool {
    c.is_ascii_alphanumeric() || matches!(c, '_' | '$' | '/' | ':' | '.' | '-')
}
fn is_ws(c: char) -> bool {
    matches!(c, ' ' | '\t' | '\r' | '\n')
}

/// transcription of numeric_ok + the two FromStr calls of Plist::parse_atom
fn atom_is_number(s: &str) -> bool {
    let b = s.as_bytes();
    if b.is_empty() {
        return false;
    }
    let hexu = |x: &u8| x.is_ascii_digit() || (b'A'..=b'F').contains(x);
    if b.iter().all(hexu) && !b.iter().all(|x| x.is_ascii_digit()) {
        return false;
    }
    if b.len() > 1 && b[0] == b'0' && b.iter().all(|x| x.is_ascii_digit()) {
        return false;
    }
    if s.eq_ignore_ascii_case("infinity") || s.eq_ignore_ascii_case("inf") || s.eq_ignore_ascii_case("nan") {
        return false;
    }
    s.parse::<i64>().is_ok() || s.parse::<f64>().is_ok()
}
fn bare_able(s: &str) -> bool {
    !s.is_empty() && s.chars().all(is_alnum)
}

struct Reader<'a> {
    s: &'a [char],
    i: usize,
}
impl<'a> Reader<'a> {
    fn ws(&mut self) {
        while self.i < self.s.len() && is_ws(self.s[self.i]) {
            self.i += 1;
        }
    }
    fn peek(&mut self) -> Option<char> {
        self.ws();
        self.s.get(self.i).copied()
    }
    fn hex4(&mut self) -> Result<u32, String> {
        let mut v = 0u32;
        let mut n = 0;
        while n < 4 && self.i < self.s.len() && self.s[self.i].is_ascii_hexdigit() {
            v = v * 16 + self.s[self.i].to_digit(16).unwrap();
            self.i += 1;
            n += 1;
        }
        if n == 0 { Err("hex".into()) } else { Ok(v) }
    }
    fn quoted(&mut self) -> Result<String, String> {
        // at the opening quote
        self.i += 1;
        let mut out = String::new();
        loop {
            let c = *self.s.get(self.i).ok_or("unclosed string")?;
            self.i += 1;
            match c {
                '"' => return Ok(out),
                '\\' => {
                    let e = *self.s.get(self.i).ok_or("unclosed string")?;
                    self.i += 1;
                    match e {
                        '"' | '\\' => out.push(e),
                        'n' => out.push('\n'),
                        'r' => out.push('\r'),
                        't' => out.push('\t'),
                        'U' => {
                            let v = self.hex4()?;
                            if (0xD800..0xE000).contains(&v) {
                                if self.s.get(self.i) == Some(&'\\') && self.s.get(self.i + 1) == Some(&'U') {
                                    self.i += 2;
                                    let v2 = self.hex4()?;
                                    let c = char::decode_utf16([v as u16, v2 as u16]).next().unwrap().map_err(|_| "surrogate")?;
                                    out.push(c);
                                } else {
                                    return Err("lone surrogate".into());
                                }
                            } else {
                                out.push(char::from_u32(v).ok_or("scalar")?);
                            }
                        }
                        '0'..='3' => {
                            let a = *self.s.get(self.i).ok_or("octal")?;
                            let b = *self.s.get(self.i + 1).ok_or("octal")?;
                            if !('0'..='7').contains(&a) || !('0'..='7').contains(&b) {
                                return Err("octal".into());
                            }
                            self.i += 2;
                            let v = (e as u32 - 48) * 64 + (a as u32 - 48) * 8 + (b as u32 - 48);
                            out.push(char::from_u32(v).unwrap());
                        }
                        _ => return Err("escape".into()),
                    }
                }
                c => out.push(c),
            }
        }
    }
    fn atom(&mut self) -> String {
        let st = self.i;
        while self.i < self.s.len() && is_alnum(self.s[self.i]) {
            self.i += 1;
        }
        self.s[st..self.i].iter().collect()
    }
    fn node(&mut self, depth: usize) -> Result<Node, String> {
        if depth > 200 {
            return Err("deep".into());
        }
        match self.peek().ok_or("eof")? {
            '{' => {
                self.i += 1;
                let mut es = Vec::new();
                loop {
                    match self.peek().ok_or("eof in dict")? {
                        '}' => {
                            self.i += 1;
                            return Ok(Node::Dict(es));
                        }
                        '"' => {
                            let k = self.quoted()?;
                            es.push((KeyTok { text: k, quoted: true }, Node::Atom(String::new())));
                        }
                        c if is_alnum(c) => {
                            let k = self.atom();
                            es.push((KeyTok { text: k, quoted: false }, Node::Atom(String::new())));
                        }
                        c => return Err(format!("key {c:?}")),
                    }
                    if self.peek() != Some('=') {
                        return Err("=".into());
                    }
                    self.i += 1;
                    let v = self.node(depth + 1)?;
                    es.last_mut().unwrap().1 = v;
                    if self.peek() != Some(';') {
                        return Err(";".into());
                    }
                    self.i += 1;
                }
            }
            '(' => {
                self.i += 1;
                let mut its = Vec::new();
                loop {
                    if self.peek() == Some(')') {
                        self.i += 1;
                        return Ok(Node::Arr(its));
                    }
                    its.push(self.node(depth + 1)?);
                    match self.peek() {
                        Some(')') => {
                            self.i += 1;
                            return Ok(Node::Arr(its));
                        }
                        Some(',') => self.i += 1,
                        _ => return Err(",".into()),
                    }
                }
            }
            '<' => {
                self.i += 1;
                let st = self.i;
                while self.i < self.s.len() && self.s[self.i] != '>' {
                    self.i += 1;
                }
                if self.i >= self.s.len() {
                    return Err("data".into());
                }
                let h: Vec<char> = self.s[st..self.i].to_vec();
                self.i += 1;
                if h.len() % 2 != 0 || !h.iter().all(|c| c.is_ascii_hexdigit()) {
                    return Err("data".into());
                }
                Ok(Node::Data(h.chunks(2).map(|p| (p[0].to_digit(16).unwrap() * 16 + p[1].to_digit(16).unwrap()) as u8).collect()))
            }
            '"' => Ok(Node::Quoted(self.quoted()?)),
            c if is_alnum(c) => Ok(Node::Atom(self.atom())),
            c => Err(format!("char {c:?}")),
        }
    }
}
fn read_doc(text: &str) -> Result<Node, String> {
    let cs: Vec<char> = text.chars().collect();
    Reader { s: &cs, i: 0 }.node(0)
}

/// Formatting choices. `level` 0 = canonical (Glyphs style), otherwise random.
struct Fmt<'r> {
    rng: &'r mut Rng,
    random: bool,
    ws: bool,
    requote: bool,
    escapes: bool,
    shuffle: bool,
    trailing: bool,
    protect_unicode: bool,
}
const WS_TABLE: &[&str] = &[" ", "\n", "\t", "  ", "\r\n", " \n\t", "\n\n", "\r", "    "];
impl<'r> Fmt<'r> {
    fn canonical(rng: &'r mut Rng) -> Self {
        Fmt { rng, random: false, ws: false, requote: false, escapes: false, shuffle: false, trailing: false, protect_unicode: true }
    }
    fn gap(&mut self, dflt: &str) -> String {
        if !self.random || !self.ws {
            return dflt.to_string();
        }
        match self.rng.below(4) {
            0 => String::new(),
            1 => dflt.to_string(),
            _ => (*self.rng.pick(WS_TABLE)).to_string(),
        }
    }
    fn quoted(&mut self, s: &str, out: &mut String) {
        out.push('"');
        for c in s.chars() {
            let fancy = self.random && self.escapes && self.rng.chance(1, 16);
            let cp = c as u32;
            if c == '"' || c == '\\' {
                if fancy && self.rng.chance(1, 2) {
                    out.push_str(&format!("\\{:03o}", cp));
                } else {
                    out.push('\\');
                    out.push(c);
                }
            } else if fancy {
                let up = self.rng.chance(1, 2);
                let hex = |v: u32| if up { format!("{:04X}", v) } else { format!("{:04x}", v) };
                match self.rng.below(3) {
                    0 if c == '\n' => out.push_str("\\n"),
                    0 if c == '\r' => out.push_str("\\r"),
                    0 if c == '\t' => out.push_str("\\t"),
                    1 if cp < 256 => out.push_str(&format!("\\{:03o}", cp)),
                    _ => {
                        if cp < 0x10000 {
                            out.push_str(&format!("\\U{}", hex(cp)));
                        } else {
                            let v = cp - 0x10000;
                            out.push_str(&format!("\\U{}\\U{}", hex(0xD800 + (v >> 10)), hex(0xDC00 + (v & 0x3ff))));
                        }
                    }
                }
            } else {
                out.push(c);
            }
        }
        out.push('"');
    }
    fn string(&mut self, s: &str, was_quoted: bool, is_key: bool, out: &mut String) {
        let can_bare = bare_able(s) && (is_key || !atom_is_number(s));
        let must_stay_bare = !was_quoted && !is_key && atom_is_number(s);
        let flip = self.random && self.requote && self.rng.chance(1, 3);
        let bare = if must_stay_bare { true } else if !can_bare { false } else { was_quoted == flip };
        if bare { out.push_str(s) } else { self.quoted(s, out) }
    }
    fn compact(&mut self, n: &Node, out: &mut String) {
        // `unicode` values: the one-line form the loader's regular expression expects
        match n {
            Node::Arr(a) => {
                out.push('(');
                for (i, x) in a.iter().enumerate() {
                    if i > 0 {
                        out.push(',');
                    }
                    self.compact(x, out);
                }
                out.push(')');
            }
            Node::Atom(s) => out.push_str(s),
            Node::Quoted(s) => self.quoted(s, out),
            other => self.node(other, out),
        }
    }
    fn node(&mut self, n: &Node, out: &mut String) {
        match n {
            Node::Atom(s) => self.string(s, false, false, out),
            Node::Quoted(s) => self.string(s, true, false, out),
            Node::Data(d) => {
                out.push('<');
                for b in d {
                    let up = self.random && self.rng.chance(1, 2);
                    out.push_str(&if up { format!("{:02X}", b) } else { format!("{:02x}", b) });
                }
                out.push('>');
            }
            Node::Dict(es) => {
                out.push('{');
                let mut order: Vec<usize> = (0..es.len()).collect();
                let keys: BTreeSet<&str> = es.iter().map(|e| e.0.text.as_str()).collect();
                if self.random && self.shuffle && keys.len() == es.len() {
                    self.rng.shuffle(&mut order);
                }
                for &i in &order {
                    let (k, v) = &es[i];
                    if self.protect_unicode && k.text == "unicode" {
                        out.push('\n');
                        if k.quoted { self.quoted(&k.text, out) } else { out.push_str(&k.text) }
                        out.push_str(" = ");
                        self.compact(v, out);
                        out.push_str(";\n");
                        continue;
                    }
                    out.push_str(&self.gap("\n"));
                    self.string(&k.text, k.quoted, true, out);
                    out.push_str(&self.gap(" "));
                    out.push('=');
                    out.push_str(&self.gap(" "));
                    self.node(v, out);
                    out.push_str(&self.gap(""));
                    out.push(';');
                }
                out.push_str(&self.gap("\n"));
                out.push('}');
            }
            Node::Arr(a) => {
                out.push('(');
                for (i, x) in a.iter().enumerate() {
                    if i > 0 {
                        out.push_str(&self.gap(""));
                        out.push(',');
                    }
                    out.push_str(&self.gap("\n"));
                    self.node(x, out);
                }
                if !a.is_empty() && self.random && self.trailing && self.rng.chance(1, 3) {
                    out.push_str(&self.gap(""));
                    out.push(',');
                }
                out.push_str(&self.gap("\n"));
                out.push(')');
            }
        }
    }
}
fn print_canonical(n: &Node) -> String {
    let mut rng = Rng::new(0);
    let mut s = String::new();
    Fmt::canonical(&mut rng).node(n, &mut s);
    s.push('\n');
    s
}
/// font-level oracle: white space, key order, quoting / escape style — what the property names
fn print_font_level(n: &Node, rng: &mut Rng, protect_unicode: bool) -> String {
    let mut s = String::new();
    let ws = rng.chance(3, 4);
    let requote = rng.chance(3, 4);
    let escapes = rng.chance(1, 2);
    let shuffle = rng.chance(3, 4);
    let lead = if rng.chance(1, 2) { "\n \t" } else { "" };
    s.push_str(lead);
    Fmt { rng, random: true, ws, requote, escapes, shuffle, trailing: false, protect_unicode }.node(n, &mut s);
    s.push('\n');
    s
}
/// reader-level oracle: everything Plist::parse accepts
fn print_reader_level(n: &Node, rng: &mut Rng) -> String {
    let mut s = String::new();
    Fmt { rng, random: true, ws: true, requote: true, escapes: true, shuffle: true, trailing: true, protect_unicode: false }.node(n, &mut s);
    s
}

// =============================================================== Gallina printers
fn coq_chars(s: &str) -> String {
    format!("[{}]", s.chars().map(|c| (c as u32).to_string()).collect::<Vec<_>>().join(";"))
}
fn coq_f64(x: f64) -> String {
    if x.is_nan() {
        return "RNan".into();
    }
    if x.is_infinite() {
        return format!("(RInf {})", coq_bool(x < 0.0));
    }
    let bits = x.to_bits();
    let neg = bits >> 63 == 1;
    let exp = ((bits >> 52) & 0x7ff) as i64;
    let frac = bits & ((1u64 << 52) - 1);
    let (m, e) = if exp == 0 { (frac, -1074i64) } else { (frac | (1u64 << 52), exp - 1075) };
    let sm = if neg { format!("(-{})", m) } else { format!("{}", m) };
    if e >= 0 {
        format!("(RFin (Qmake ({} * 2 ^ {})%Z 1))", sm, e)
    } else {
        format!("(RFin (Qmake ({})%Z (2 ^ {})%positive))", sm, -e)
    }
}
fn coq_plist(p: &Plist) -> String {
    match p {
        Plist::Dictionary(d) => format!("(RDict [{}])", d.iter().map(|(k, v)| format!("({}, {})", coq_chars(k), coq_plist(v))).collect::<Vec<_>>().join("; ")),
        Plist::Array(a) => format!("(RArr [{}])", a.iter().map(coq_plist).collect::<Vec<_>>().join("; ")),
        Plist::String(s) => format!("(RStr {})", coq_chars(s)),
        Plist::Integer(i) => format!("(RInt ({})%Z)", i),
        Plist::Float(f) => format!("(RFloat {})", coq_f64(f.into_inner())),
        Plist::Data(b) => format!("(RData [{}])", b.iter().map(|x| x.to_string()).collect::<Vec<_>>().join(";")),
    }
}
fn impl_parse(text: &str) -> Result<Option<Plist>, String> {
    let t = text.to_string();
    match std::panic::catch_unwind(move || Plist::parse(&t)) {
        Ok(Ok(p)) => Ok(Some(p)),
        Ok(Err(_)) => Ok(None),
        Err(_) => Err("panic".into()),
    }
}


// =============================================================== generators
const ATOMS: &[&str] = &[
    "1", "-1", "0", "00", "007", "-007", "1.5", "-1.5", "1.", ".5", ".", "-", "-.", "1e5", "1E5", "1e-5", "1e", "e5", "1.5e3",
    "inf", "-inf", "nan", "-nan", "NaN", "infinity", "-Infinity", "Inf", "0x10", "1e400", "1e-400", "-1e400",
    "9223372036854775807", "9223372036854775808", "-9223372036854775808", "-9223372036854775809", "18446744073709551616",
    "ABCDEF", "ABC1", "1A", "A1", "DEAD", "dead", "12AB", "0.5", "00.5", "0.", "-0", "--1", "1-2", "1.2.3", "1..2", "-.5e-3",
    "$", "_", "/", ":", "a.b-c", "m01", "Regular", "wght", "../x/y.ufo", "a", "abc", "E09E0C54-128D", "1_000", "0e0", "0E0", "5e", "1e5.",
    "123456789012345678901234567890", "0.1", "3.14159", "2.5e-3", "400", "700", "-42",
];
const STRS: &[&str] = &[
    "", " ", "a b", "x\"y", "back\\slash", "line\nbreak", "tab\there", "cr\rx", "é", "中文", "😀 ok", "a😀", "\u{7f}", "\u{1}", "ÿ", "semi;colon",
    "{brace}", "(paren)", "=", ",", "<d>", "1 2", "-", "unicode = 12;", "\u{ffff}", "\u{e000}", "\u{d7ff}", "\u{10000}", "\u{10ffff}", "quote\"\"",
];

fn gen_scalar(rng: &mut Rng) -> Node {
    match rng.below(10) {
        0..=3 => Node::Atom((*rng.pick(ATOMS)).to_string()),
        4 => {
            // random atom over the atom alphabet, biased to number-like
            let alpha: Vec<char> = "0123456789.-eEabcABCDEF_$/:infINF".chars().collect();
            let n = rng.range(1, 8) as usize;
            Node::Atom((0..n).map(|_| *rng.pick(&alpha)).collect())
        }
        5..=6 => Node::Quoted((*rng.pick(STRS)).to_string()),
        7 => Node::Quoted((*rng.pick(ATOMS)).to_string()),
        8 => {
            let n = rng.range(0, 6) as usize;
            let pool: Vec<char> = "ab \"\\\n\t;é😀{}()=,<>1".chars().collect();
            Node::Quoted((0..n).map(|_| *rng.pick(&pool)).collect())
        }
        _ => {
            let n = rng.range(0, 5) as usize;
            Node::Data((0..n).map(|_| *rng.pick(&[0u8, 1, 9, 10, 15, 16, 0x7f, 0x80, 0xa5, 0xff])).collect())
        }
    }
}
fn gen_key(rng: &mut Rng) -> KeyTok {
    match rng.below(6) {
        0 => KeyTok { text: (*rng.pick(&["a", "b", "c", "name", "value", "unicode", "1", "0.5", "m01"])).to_string(), quoted: false },
        1 => KeyTok { text: (*rng.pick(ATOMS)).to_string(), quoted: false },
        2 => KeyTok { text: (*rng.pick(STRS)).to_string(), quoted: true },
        3 => KeyTok { text: (*rng.pick(&["a", "b", "aa", "ab", "B", "é", ""])).to_string(), quoted: true },
        _ => {
            let n = rng.range(1, 4) as usize;
            KeyTok { text: (0..n).map(|_| *rng.pick(&['a', 'b', 'Z', '0', '.', '_'])).collect(), quoted: false }
        }
    }
}
fn gen_node(rng: &mut Rng, depth: usize) -> Node {
    if depth == 0 || rng.chance(2, 5) {
        return gen_scalar(rng);
    }
    if rng.chance(1, 2) {
        let n = rng.range(0, 4) as usize;
        Node::Dict((0..n).map(|_| (gen_key(rng), gen_node(rng, depth - 1))).collect())
    } else {
        let n = rng.range(0, 4) as usize;
        Node::Arr((0..n).map(|_| gen_node(rng, depth - 1)).collect())
    }
}
fn has_dup_keys(n: &Node) -> bool {
    match n {
        Node::Dict(es) => {
            let ks: BTreeSet<&str> = es.iter().map(|e| e.0.text.as_str()).collect();
            ks.len() != es.len() || es.iter().any(|e| has_dup_keys(&e.1))
        }
        Node::Arr(a) => a.iter().any(has_dup_keys),
        _ => false,
    }
}
/// hand-written edge texts for the lexer: escapes, data blocks, delimiters
const EDGE_TEXTS: &[&str] = &[
    "\"\\U41\"", "\"\\U0041z\"", "\"\\U41g\"", "\"\\UD83D\"", "\"\\UD83D\\UDE00\"", "\"\\UDE00\"", "\"\\UD83Dx\"", "\"\\UD83D\\U0041\"",
    "\"\\UD83D\\UD83D\"", "\"\\0\"", "\"\\01\"", "\"\\012\"", "\"\\400\"", "\"\\377\"", "\"\\378\"", "\"\\x\"", "\"abc\\", "\"abc\\\"", "\"\\U\"",
    "\"\\U00e9z\"", "\"\\UFFFF\"", "\"\\U\"x", "\"\\1é\"", "\"\\Ué\"", "<0g>", "<012>", "<>", "< 01>", "<01 >", "<AbCd>", "<é>", "<0", "(", "{", "", "   ", ")", "}", ";",
    "(,)", "(1,,2)", "(1 2)", "{a=1}", "{a 1;}", "{=1;}", "{a=;}", "{(=1;}", "{<00>=1;}", "{\"\"=\"\";}", "(1,)", "(1,2,)", "( )", "{ }", "{a=1;;}", "a b", "1 }", "\"x\" y",
    "{a = {b = {c = (1, (2, (3)));};};}", "'x'", "/* c */ 1", "// c\n1", "+1", "(+1)", "é", "(é)", "\u{a0}1", "\u{b}1", "\u{c}1", "{a=1;a=2;}", "{a=1;\"a\"=2;}", "{b=1;a=2;B=3;}",
];

fn mutate_text(rng: &mut Rng, text: &str) -> String {
    let mut cs: Vec<char> = text.chars().collect();
    let k = rng.range(1, 2);
    for _ in 0..k {
        let n = cs.len();
        match rng.below(5) {
            0 if n > 0 => {
                cs.remove(rng.below(n as u64) as usize);
            }
            1 => {
                let c = *rng.pick(&['"', '\\', '{', '}', '(', ')', ';', ',', '=', '<', '>', ' ', 'U', '0', 'é', '\n']);
                cs.insert(rng.below(n as u64 + 1) as usize, c);
            }
            2 if n > 0 => cs.truncate(rng.below(n as u64) as usize),
            3 if n > 1 => {
                let i = rng.below(n as u64 - 1) as usize;
                cs.swap(i, i + 1);
            }
            _ if n > 0 => {
                let i = rng.below(n as u64) as usize;
                cs[i] = *rng.pick(&['"', '\\', ';', ')', '}', 'x', '1']);
            }
            _ => {}
        }
    }
    cs.into_iter().collect()
}

/// A generated Glyphs 3 source exercising what the CLI flags act on: nested and transformed
/// components, mixed glyphs, anchors, kerning, features, production names, a unicode list.
fn gen_glyphs_source(rng: &mut Rng, with_include: bool) -> String {
    let two = rng.chance(2, 3);
    let masters: Vec<(&str, i64)> = if two { vec![("m01", 400), ("m02", 700)] } else { vec![("m01", 400)] };
    let mut s = String::from("{\n.appVersion = \"3219\";\n.formatVersion = 3;\n");
    if two {
        s.push_str("axes = (\n{\nname = Weight;\ntag = wght;\n}\n);\n");
    }
    if rng.chance(1, 2) {
        s.push_str("customParameters = (\n{\nname = \"Use Typo Metrics\";\nvalue = 1;\n},\n{\nname = fsType;\nvalue = (\n);\n}\n);\n");
    }
    s.push_str(&format!("familyName = \"Gen {}\";\n", rng.below(1000)));
    if with_include {
        s.push_str("featurePrefixes = (\n{\ncode = \"include(c20inc.fea);\n\";\nname = Prefix;\n}\n);\n");
    }
    if rng.chance(2, 3) {
        s.push_str("features = (\n{\ncode = \"sub a by b;\n\";\ntag = ss01;\n},\n{\ncode = \"sub f i by f_i;\n\";\ntag = liga;\n}\n);\n");
    }
    s.push_str("fontMaster = (\n");
    for (i, (id, w)) in masters.iter().enumerate() {
        if i > 0 {
            s.push_str(",\n");
        }
        s.push_str("{\n");
        if two {
            s.push_str(&format!("axesValues = (\n{}\n);\n", w));
        }
        s.push_str(&format!("id = {};\nmetricValues = (\n{{\npos = {};\n}},\n{{\n}},\n{{\npos = -{};\n}},\n{{\npos = 700;\n}},\n{{\npos = 500;\n}}\n);\nname = {};\n}}", id, 780 + rng.range(0, 40), 180 + rng.range(0, 40), if i == 0 { "Regular" } else { "Bold" }));
    }
    s.push_str("\n);\nglyphs = (\n");
    let layer = |rng: &mut Rng, body: &dyn Fn(&mut Rng, i64) -> String, masters: &[(&str, i64)], width: i64| -> String {
        let mut l = String::from("layers = (\n");
        for (i, (id, _)) in masters.iter().enumerate() {
            if i > 0 {
                l.push_str(",\n");
            }
            let d = i as i64 * 20;
            l.push_str(&format!("{{\nlayerId = {};\n{}width = {};\n}}", id, body(rng, d), width + d));
        }
        l.push_str("\n);\n");
        l
    };
    let rect = |x0: i64, y0: i64, x1: i64, y1: i64| format!("{{\nclosed = 1;\nnodes = (\n({x0},{y0},l),\n({x1},{y0},l),\n({x1},{y1},l),\n({x0},{y1},l)\n);\n}}");
    let a0 = rng.range(20, 80);
    let b0 = rng.range(20, 80);
    let sc = *rng.pick(&["(1.5,1.5)", "(0.5,1)", "(-1,1)", "(1.25,0.75)"]);
    let dx = rng.range(-50, 50);
    let mut glyphs: Vec<String> = Vec::new();
    glyphs.push(format!("{{\nglyphname = space;\n{}unicode = 32;\n}}", layer(rng, &|_, _| String::new(), &masters, 250)));
    glyphs.push(format!(
        "{{\nglyphname = a;\n{}unicode = (97,65);\n}}",
        layer(rng, &|_, d| format!("anchors = (\n{{\nname = top;\npos = ({},{});\n}}\n);\nshapes = (\n{}\n);\n", 300 + d, 520, rect(a0, 0, 500 + d, 500)), &masters, 600)
    ));
    glyphs.push(format!("{{\nglyphname = b;\n{}unicode = 98;\n}}", layer(rng, &|_, d| format!("shapes = (\n{},\n{}\n);\n", rect(b0, 0, 300 + d, 700), rect(b0 + 300, 0, 520 + d, 300)), &masters, 640)));
    glyphs.push(format!("{{\nglyphname = c;\n{}unicode = 99;\n}}", layer(rng, &|_, d| format!("shapes = (\n{{\npos = ({},{});\nref = a;\n}}\n);\n", dx + d, 10), &masters, 600)));
    glyphs.push(format!("{{\nglyphname = d;\n{}unicode = 100;\n}}", layer(rng, &|_, d| format!("shapes = (\n{{\nref = c;\n}},\n{{\npos = ({},0);\nref = b;\nscale = {};\n}}\n);\n", 600 + d, sc), &masters, 1300)));
    glyphs.push(format!("{{\nglyphname = e;\n{}unicode = 101;\n}}", layer(rng, &|_, d| format!("shapes = (\n{},\n{{\npos = (0,{});\nref = a;\n}}\n);\n", rect(10, -200, 90 + d, -20), 100), &masters, 620)));
    glyphs.push(format!("{{\nglyphname = f;\n{}unicode = 102;\n}}", layer(rng, &|_, d| format!("shapes = (\n{}\n);\n", rect(40, 0, 200 + d, 720)), &masters, 300)));
    glyphs.push(format!("{{\nglyphname = i;\n{}unicode = 105;\n}}", layer(rng, &|_, d| format!("shapes = (\n{}\n);\n", rect(60, 0, 180 + d, 500)), &masters, 240)));
    glyphs.push(format!("{{\nglyphname = f_i;\n{}}}", layer(rng, &|_, _| "shapes = (\n{\nref = f;\n},\n{\npos = (300,0);\nref = i;\n}\n);\n".to_string(), &masters, 540)));
    glyphs.push(format!(
        "{{\nglyphname = acutecomb;\n{}unicode = 769;\n}}",
        layer(rng, &|_, d| format!("anchors = (\n{{\nname = _top;\npos = ({},520);\n}}\n);\nshapes = (\n{}\n);\n", 100 + d, rect(60, 560, 140 + d, 700)), &masters, 0)
    ));
    glyphs.push(format!("{{\nglyphname = aacute;\n{}unicode = 225;\n}}", layer(rng, &|_, _| "shapes = (\n{\nref = a;\n},\n{\npos = (200,0);\nref = acutecomb;\n}\n);\n".to_string(), &masters, 600)));
    if rng.chance(1, 2) {
        glyphs.push(format!("{{\nexport = 0;\nglyphname = _part;\n{}}}", layer(rng, &|_, d| format!("shapes = (\n{}\n);\n", rect(0, 0, 100 + d, 100)), &masters, 200)));
    }
    s.push_str(&glyphs.join(",\n"));
    s.push_str("\n);\n");
    if rng.chance(2, 3) {
        s.push_str("kerningLTR = {\n");
        for (id, _) in &masters {
            s.push_str(&format!("{} = {{\na = {{\nb = {};\n}};\nf = {{\ni = {};\n}};\n}};\n", id, rng.range(-80, -10), rng.range(-30, 30)));
        }
        s.push_str("};\n");
    }
    s.push_str("metrics = (\n{\ntype = ascender;\n},\n{\ntype = baseline;\n},\n{\ntype = descender;\n},\n{\ntype = \"cap height\";\n},\n{\ntype = \"x-height\";\n}\n);\n");
    s.push_str("unitsPerEm = 1000;\nversionMajor = 1;\nversionMinor = 0;\n}\n");
    s
}

/// Two masters; `peso` has `[150]` bracket layers, `yen` is a component of `peso` and has none (the loader
/// must synthesize them), `won` is a component of `yen`: what Font::preprocess / align_bracket_layers acts on.
fn gen_bracket_source(rng: &mut Rng) -> String {
    let (w0, w1) = (40 + rng.range(0, 20), 200 + rng.range(0, 40));
    let cut = rng.range(120, 170);
    let rect = |x0: i64, y0: i64, x1: i64, y1: i64| format!("{{\nclosed = 1;\nnodes = (\n({x0},{y0},l),\n({x1},{y0},l),\n({x1},{y1},l),\n({x0},{y1},l)\n);\n}}");
    let mut s = String::from("{\n.appVersion = \"3343\";\n.formatVersion = 3;\naxes = (\n{\nname = Weight;\ntag = wght;\n}\n);\n");
    s.push_str(&format!("familyName = \"Bracket {}\";\nfontMaster = (\n", rng.below(1000)));
    for (i, (id, w, name)) in [("m01", w0, "Thin"), ("m02", w1, "Bold")].iter().enumerate() {
        if i > 0 {
            s.push_str(",\n");
        }
        s.push_str(&format!("{{\naxesValues = (\n{w}\n);\nid = {id};\nmetricValues = (\n{{\npos = 800;\n}},\n{{\n}},\n{{\npos = -200;\n}},\n{{\npos = 700;\n}},\n{{\npos = 500;\n}}\n);\nname = {name};\n}}"));
    }
    s.push_str("\n);\nglyphs = (\n");
    let a = rng.range(20, 60);
    let bar = rng.range(300, 420);
    // peso: plain layers, then bracket layers that add a bar
    s.push_str("{\nglyphname = peso;\nlayers = (\n");
    s.push_str(&format!("{{\nlayerId = m01;\nshapes = (\n{}\n);\nwidth = 600;\n}},\n", rect(a, 0, 400, 700)));
    s.push_str(&format!("{{\nlayerId = m02;\nshapes = (\n{}\n);\nwidth = 640;\n}},\n", rect(a, 0, 460, 700)));
    s.push_str(&format!(
        "{{\nassociatedMasterId = m01;\nattr = {{\naxisRules = (\n{{\nmin = {cut};\n}}\n);\n}};\nlayerId = \"B1-{cut}\";\nname = \"Thin [{cut}]\";\nshapes = (\n{},\n{}\n);\nwidth = 600;\n}},\n",
        rect(a, 0, 400, 700), rect(0, bar, 520, bar + 40)
    ));
    s.push_str(&format!(
        "{{\nassociatedMasterId = m02;\nattr = {{\naxisRules = (\n{{\nmin = {cut};\n}}\n);\n}};\nlayerId = \"B2-{cut}\";\nname = \"Bold [{cut}]\";\nshapes = (\n{},\n{}\n);\nwidth = 640;\n}}\n);\nunicode = 8369;\n}},\n",
        rect(a, 0, 460, 700), rect(0, bar, 580, bar + 80)
    ));
    let dx = rng.range(0, 40);
    s.push_str(&format!("{{\nglyphname = yen;\nlayers = (\n{{\nlayerId = m01;\nshapes = (\n{{\npos = ({dx},0);\nref = peso;\n}}\n);\nwidth = 600;\n}},\n{{\nlayerId = m02;\nshapes = (\n{{\npos = ({dx},0);\nref = peso;\n}}\n);\nwidth = 640;\n}}\n);\nunicode = 165;\n}},\n"));
    s.push_str("{\nglyphname = won;\nlayers = (\n{\nlayerId = m01;\nshapes = (\n{\nref = yen;\n}\n);\nwidth = 600;\n},\n{\nlayerId = m02;\nshapes = (\n{\nref = yen;\n}\n);\nwidth = 640;\n}\n);\nunicode = 8361;\n},\n");
    s.push_str("{\nglyphname = space;\nlayers = (\n{\nlayerId = m01;\nwidth = 200;\n},\n{\nlayerId = m02;\nwidth = 220;\n}\n);\nunicode = 32;\n}\n);\n");
    s.push_str("metrics = (\n{\ntype = ascender;\n},\n{\ntype = baseline;\n},\n{\ntype = descender;\n},\n{\ntype = \"cap height\";\n},\n{\ntype = \"x-height\";\n}\n);\nunitsPerEm = 1000;\nversionMajor = 1;\nversionMinor = 0;\n}\n");
    s
}

// =============================================================== routes
fn repo_root() -> PathBuf {
    // the harness depends on the fontc crate by path: the CLI is built from the same tree
    let manifest = concat!(env!("CARGO_MANIFEST_DIR"), "/Cargo.toml");
    if let Ok(t) = fs::read_to_string(manifest) {
        for line in t.lines() {
            if line.trim_start().starts_with("fontc ") || line.trim_start().starts_with("fontc=") {
                if let Some(i) = line.find("path") {
                    let rest = &line[i..];
                    let parts: Vec<&str> = rest.split('"').collect();
                    if parts.len() >= 2 {
                        if let Some(p) = Path::new(parts[1]).parent() {
                            return p.to_path_buf();
                        }
                    }
                }
            }
        }
    }
    PathBuf::from("/repo")
}
fn target_dir(repo: &Path) -> PathBuf {
    if repo == Path::new("/repo") {
        PathBuf::from("/verif/work/repo-target")
    } else {
        PathBuf::from(std::env::var("VERIF_WORK").unwrap_or_else(|_| "/tmp/vh-seed-work".into())).join("repo-target")
    }
}

fn compile_source(make: impl FnOnce() -> Result<Box<dyn fontir::source::Source>, String> + std::panic::UnwindSafe, options: fontc::Options) -> Outcome {
    let r = std::panic::catch_unwind(move || {
        let source = make()?;
        fontc::generate_font(source, options).map_err(|e| e.to_string())
    });
    match r {
        Ok(Ok(b)) => Outcome::Font(b),
        Ok(Err(e)) => Outcome::Error(e),
        Err(p) => Outcome::Panic(p.downcast_ref::<String>().cloned().or_else(|| p.downcast_ref::<&str>().map(|s| s.to_string())).unwrap_or_else(|| "panic".into())),
    }
}
fn compile_file(path: &Path, options: fontc::Options) -> Outcome {
    let p = path.to_path_buf();
    compile_source(move || fontc::Input::new(&p).map_err(|e| e.to_string())?.create_source().map_err(|e| e.to_string()), options)
}
fn compile_memory(text: &str, options: fontc::Options) -> Outcome {
    let t = text.to_string();
    compile_source(move || fontc::Input::from_glyphs(t).create_source().map_err(|e| e.to_string()), options)
}
fn class(o: &Outcome) -> &'static str {
    match o {
        Outcome::Font(_) => "font",
        Outcome::Error(_) => "error",
        Outcome::Panic(_) => "panic",
    }
}
fn brief(o: &Outcome) -> String {
    match o {
        Outcome::Font(b) => format!("font {} bytes fnv {:016x}", b.len(), fnv(b)),
        Outcome::Error(e) => format!("error: {}", e.chars().take(200).collect::<String>()),
        Outcome::Panic(e) => format!("panic: {}", e.chars().take(200).collect::<String>()),
    }
}
fn fnv(b: &[u8]) -> u64 {
    b.iter().fold(0xcbf29ce484222325u64, |h, x| (h ^ *x as u64).wrapping_mul(0x100000001b3))
}
/// same observable result? fonts byte for byte; two reported errors count as the same result
/// (messages name the path of the container)
fn same(a: &Outcome, b: &Outcome) -> bool {
    match (a, b) {
        (Outcome::Font(x), Outcome::Font(y)) => x == y,
        (Outcome::Error(_), Outcome::Error(_)) => true,
        (Outcome::Panic(_), Outcome::Panic(_)) => true,
        _ => false,
    }
}
/// tables whose bytes differ, for the description
fn diff_tables(a: &[u8], b: &[u8]) -> String {
    match (vh::sfnt::directory(a), vh::sfnt::directory(b)) {
        (Some((_, da)), Some((_, db))) => {
            let mut out = Vec::new();
            for r in &da {
                if vh::sfnt::table(a, &r.tag) != vh::sfnt::table(b, &r.tag) {
                    out.push(vh::sfnt::tag_str(&r.tag));
                }
            }
            for r in &db {
                if vh::sfnt::table(a, &r.tag).is_none() {
                    out.push(format!("+{}", vh::sfnt::tag_str(&r.tag)));
                }
            }
            format!("tables differing: {:?}", out)
        }
        _ => "unparseable sfnt".into(),
    }
}
fn describe_diff(a: &Outcome, b: &Outcome) -> String {
    match (a, b) {
        (Outcome::Font(x), Outcome::Font(y)) => diff_tables(x, y),
        _ => format!("{} / {}", brief(a), brief(b)),
    }
}
fn num_glyphs(font: &[u8]) -> Option<u32> {
    vh::sfnt::be16(vh::sfnt::table(font, b"maxp")?, 4)
}

/// Split a Glyphs source (its document) into a .glyphspackage directory next to `dir`.
fn write_package(doc: &Node, dir: &Path, name: &str, rng: &mut Rng) -> Result<PathBuf, String> {
    let Node::Dict(top) = doc else { return Err("top level is not a dictionary".into()) };
    let pkg = dir.join(format!("{name}.glyphspackage"));
    let _ = fs::remove_dir_all(&pkg);
    fs::create_dir_all(pkg.join("glyphs")).map_err(|e| e.to_string())?;
    let mut info = Vec::new();
    let mut glyphs: Vec<Node> = Vec::new();
    let mut ui = Vec::new();
    for (k, v) in top {
        if k.text == "glyphs" {
            match v {
                Node::Arr(a) => glyphs = a.clone(),
                _ => return Err("glyphs is not an array".into()),
            }
        } else if k.text == "DisplayStrings" {
            ui.push((KeyTok { text: "displayStrings".into(), quoted: false }, v.clone()));
        } else {
            info.push((k.clone(), v.clone()));
        }
    }
    fs::write(pkg.join("fontinfo.plist"), print_canonical(&Node::Dict(info))).map_err(|e| e.to_string())?;
    fs::write(pkg.join("UIState.plist"), print_canonical(&Node::Dict(ui))).map_err(|e| e.to_string())?;
    let mut order = Vec::new();
    let mut seen = BTreeSet::new();
    for (i, g) in glyphs.iter().enumerate() {
        let Node::Dict(es) = g else { return Err("glyph is not a dictionary".into()) };
        let name = es.iter().rev().find(|e| e.0.text == "glyphname").map(|e| match &e.1 {
            Node::Atom(s) | Node::Quoted(s) => s.clone(),
            _ => String::new(),
        });
        let Some(gname) = name else { return Err("glyph without glyphname".into()) };
        if gname.is_empty() || !seen.insert(gname.clone()) {
            return Err("empty or repeated glyph name".into());
        }
        order.push(Node::Quoted(gname.clone()));
        // file names unrelated to glyph order, so the directory listing is not the glyph order
        let fname = format!("{:08x}_{}.glyph", rng.next() as u32, i);
        fs::write(pkg.join("glyphs").join(fname), print_canonical(g)).map_err(|e| e.to_string())?;
    }
    fs::write(pkg.join("order.plist"), print_canonical(&Node::Arr(order))).map_err(|e| e.to_string())?;
    Ok(pkg)
}

// ---- command line
#[derive(Clone, Debug, Default)]
struct CliArgs {
    prefer_simple_glyphs: bool,
    flatten_components: Option<bool>,
    erase_open_corners: Option<bool>,
    propagate_anchors: Option<bool>,
    decompose_transformed_components: bool,
    decompose_components: bool,
    keep_direction: bool,
    no_production_names: bool,
    skip_features: bool,
    emit_lookup_debug_info: bool,
    explicit_output: bool,
    deprecated_source_flag: bool,
    emit_ir: bool,
}
fn gen_cli_args(rng: &mut Rng) -> CliArgs {
    let tri = |rng: &mut Rng| match rng.below(4) {
        0 => Some(true),
        1 => Some(false),
        _ => None,
    };
    CliArgs {
        prefer_simple_glyphs: !rng.chance(1, 4),
        flatten_components: tri(rng),
        erase_open_corners: tri(rng),
        propagate_anchors: tri(rng),
        decompose_transformed_components: rng.chance(1, 4),
        decompose_components: rng.chance(1, 6),
        keep_direction: rng.chance(1, 4),
        no_production_names: rng.chance(1, 4),
        skip_features: rng.chance(1, 5),
        emit_lookup_debug_info: rng.chance(1, 8),
        explicit_output: !rng.chance(1, 4),
        deprecated_source_flag: rng.chance(1, 5),
        emit_ir: rng.chance(1, 8),
    }
}
const FLAG_NAMES: [(&str, fn() -> Flags); 8] = [
    ("PREFER_SIMPLE_GLYPHS", || Flags::PREFER_SIMPLE_GLYPHS),
    ("FLATTEN_COMPONENTS", || Flags::FLATTEN_COMPONENTS),
    ("ERASE_OPEN_CORNERS", || Flags::ERASE_OPEN_CORNERS),
    ("PROPAGATE_ANCHORS", || Flags::PROPAGATE_ANCHORS),
    ("DECOMPOSE_TRANSFORMED_COMPONENTS", || Flags::DECOMPOSE_TRANSFORMED_COMPONENTS),
    ("DECOMPOSE_COMPONENTS", || Flags::DECOMPOSE_COMPONENTS),
    ("KEEP_DIRECTION", || Flags::KEEP_DIRECTION),
    ("PRODUCTION_NAMES", || Flags::PRODUCTION_NAMES),
];
/// what the arguments mean, said independently of args.rs: the library call to compare with
fn lib_options(a: &CliArgs) -> fontc::Options {
    let mut flags = Flags::empty();
    let mut disable = Flags::empty();
    flags.set(Flags::PREFER_SIMPLE_GLYPHS, a.prefer_simple_glyphs);
    for (o, f) in [(a.flatten_components, Flags::FLATTEN_COMPONENTS), (a.erase_open_corners, Flags::ERASE_OPEN_CORNERS), (a.propagate_anchors, Flags::PROPAGATE_ANCHORS)] {
        match o {
            Some(true) => flags.set(f, true),
            Some(false) => disable.set(f, true),
            None => {}
        }
    }
    flags.set(Flags::DECOMPOSE_TRANSFORMED_COMPONENTS, a.decompose_transformed_components);
    flags.set(Flags::DECOMPOSE_COMPONENTS, a.decompose_components);
    flags.set(Flags::KEEP_DIRECTION, a.keep_direction);
    flags.set(Flags::PRODUCTION_NAMES, !a.no_production_names);
    fontc::Options { flags, flags_to_disable: disable.into(), skip_features: a.skip_features, compile_debg: a.emit_lookup_debug_info, ..Default::default() }
}
fn cli_argv(a: &CliArgs, src: &Path, out: &Path, build: &Path) -> Vec<String> {
    let mut v: Vec<String> = Vec::new();
    if a.deprecated_source_flag {
        v.push("--source".into());
    }
    v.push(src.to_string_lossy().into_owned());
    if a.explicit_output {
        v.push("-o".into());
        v.push(out.to_string_lossy().into_owned());
    }
    v.push("--build-dir".into());
    v.push(build.to_string_lossy().into_owned());
    if !a.prefer_simple_glyphs {
        v.push("--prefer-simple-glyphs".into());
        v.push("false".into());
    }
    for (o, n) in [(a.flatten_components, "--flatten-components"), (a.erase_open_corners, "--erase-open-corners"), (a.propagate_anchors, "--propagate-anchors")] {
        match o {
            Some(true) => v.push(if n.len() % 2 == 0 { n.to_string() } else { format!("{n}=true") }),
            Some(false) => v.push(format!("{n}=false")),
            None => {}
        }
    }
    for (b, n) in [
        (a.decompose_transformed_components, "--decompose-transformed-components"),
        (a.decompose_components, "--decompose-components"),
        (a.keep_direction, "--keep-direction"),
        (a.no_production_names, "--no-production-names"),
        (a.skip_features, "--skip-features"),
        (a.emit_lookup_debug_info, "--emit-lookup-debug-info"),
        (a.emit_ir, "--emit-ir"),
    ] {
        if b {
            v.push(n.into());
        }
    }
    v.push("--log".into());
    v.push("fontc=debug".into());
    v
}
struct CliRun {
    outcome: Outcome,
    logged: Option<(Vec<bool>, Vec<bool>, bool, bool, Option<String>)>,
    status: String,
}
fn section<'a>(log: &'a str, start: &str, end: &str) -> Option<&'a str> {
    let i = log.find(start)?;
    let rest = &log[i + start.len()..];
    let j = rest.find(end)?;
    Some(&rest[..j])
}
fn run_cli(fontc_bin: &Path, argv: &[String], expect_out: &Path) -> CliRun {
    let out = Command::new("timeout").arg("300").arg(fontc_bin).args(argv).stdin(Stdio::null()).stdout(Stdio::null()).stderr(Stdio::piped()).output();
    let Ok(out) = out else {
        return CliRun { outcome: Outcome::Panic("cannot run the binary".into()), logged: None, status: "spawn".into() };
    };
    let log = String::from_utf8_lossy(&out.stderr).into_owned();
    let logged = (|| {
        let opts = section(&log, "Running with options Options {", "\n}")?;
        let fl = section(opts, "flags: Flags(", "flags_to_disable")?;
        let dis = section(opts, "flags_to_disable:", "skip_features")?;
        let bits = |s: &str| FLAG_NAMES.iter().map(|(n, _)| s.split(|c: char| !(c.is_ascii_alphanumeric() || c == '_')).any(|w| w == *n)).collect::<Vec<bool>>();
        let skip = section(opts, "skip_features: ", ",")?.trim() == "true";
        let debg = section(opts, "compile_debg: ", ",")?.trim() == "true";
        let of = section(opts, "output_file: ", "timing_file")?;
        let outp = if of.trim_start().starts_with("None") { None } else { Some(of.split('"').nth(1)?.to_string()) };
        Some((bits(fl), bits(dis), skip, debg, outp))
    })();
    let status = format!("{:?}", out.status.code());
    let outcome = if out.status.success() {
        match fs::read(expect_out) {
            Ok(b) => Outcome::Font(b),
            Err(e) => Outcome::Panic(format!("exit 0 but no output file {}: {e}", expect_out.display())),
        }
    } else if out.status.code() == Some(1) {
        let msg = log.lines().rev().find(|l| l.contains("ERROR")).unwrap_or("").to_string();
        Outcome::Error(msg)
    } else {
        Outcome::Panic(format!("exit status {:?}: {}", out.status, log.lines().rev().take(3).collect::<Vec<_>>().join(" | ")))
    };
    CliRun { outcome, logged, status }
}
fn coq_flags(bits: &[bool]) -> String {
    format!("(Build_flags {})", bits.iter().map(|b| coq_bool(*b)).collect::<Vec<_>>().join(" "))
}
fn coq_opt_bool(o: Option<bool>) -> String {
    match o {
        None => "None".into(),
        Some(b) => format!("(Some {})", coq_bool(b)),
    }
}
fn coq_args(a: &CliArgs, out: Option<&str>, build: &str) -> String {
    format!(
        "(Build_args {} {} {} {} {} {} {} {} {} {} {} {})",
        coq_bool(a.prefer_simple_glyphs),
        coq_opt_bool(a.flatten_components),
        coq_opt_bool(a.erase_open_corners),
        coq_opt_bool(a.propagate_anchors),
        coq_bool(a.decompose_transformed_components),
        coq_bool(a.decompose_components),
        coq_bool(a.keep_direction),
        coq_bool(a.no_production_names),
        coq_bool(a.skip_features),
        coq_bool(a.emit_lookup_debug_info),
        match out {
            Some(o) => format!("(Some {})", coq_chars(o)),
            None => "None".into(),
        },
        coq_chars(build)
    )
}

// =============================================================== per-design check
/// keep `unicode = (..);` entries in their one-line layout when reformatting whole sources; switched off
/// by the probe in main() once the loader reads that entry from tokens
static PROTECT_UNICODE: std::sync::atomic::AtomicBool = std::sync::atomic::AtomicBool::new(true);
struct Viol {
    key: &'static str,
    desc: String,
    extra: serde_json::Value,
}
#[derive(Default)]
struct DesignReport {
    name: String,
    viols: Vec<Viol>,
    compiles: usize,
    classes: Vec<(String, &'static str)>,
    reader_failed: bool,
    reformats: usize,
    unicode_list: bool,
    x_cases: usize,
    x_failures: usize,
}

fn find_unicode_lists(n: &Node) -> bool {
    match n {
        Node::Dict(es) => es.iter().any(|(k, v)| (k.text == "unicode" && matches!(v, Node::Arr(_))) || find_unicode_lists(v)),
        Node::Arr(a) => a.iter().any(find_unicode_lists),
        _ => false,
    }
}

/// variants of the canonical text in which only the layout of `unicode = (..);` lines changes
fn unicode_layout_variants(canon: &str) -> Vec<(&'static str, String)> {
    let lines: Vec<&str> = canon.split('\n').collect();
    let mut out = Vec::new();
    let variants: [&'static str; 4] = ["space-after-comma", "one-element-per-line", "after-previous-entry-on-one-line", "quoted-key"];
    for v in variants {
        let mut t = String::new();
        let mut changed = false;
        for (i, l) in lines.iter().enumerate() {
            let is_list = l.starts_with("unicode = (");
            let piece = if is_list {
                changed = true;
                match v {
                    "space-after-comma" => l.replace(',', ", "),
                    "one-element-per-line" => l.replace('(', "(\n").replace(',', ",\n").replace(')', "\n)"),
                    "quoted-key" => l.replacen("unicode", "\"unicode\"", 1),
                    _ => l.to_string(),
                }
            } else {
                l.to_string()
            };
            let next_is_list = lines.get(i + 1).map(|x| x.starts_with("unicode = (")).unwrap_or(false);
            t.push_str(&piece);
            if i + 1 < lines.len() {
                if v == "after-previous-entry-on-one-line" && next_is_list && !l.is_empty() {
                    t.push(' ');
                } else {
                    t.push('\n');
                }
            }
        }
        if changed {
            out.push((v, t));
        }
    }
    out
}

fn check_design(name: &str, text: &str, disk_path: &Path, has_include: bool, reformat_rounds: usize, rng: &mut Rng, scratch: &Path) -> DesignReport {
    let mut rep = DesignReport { name: name.to_string(), ..Default::default() };
    let opts = fontc::Options::default;
    let r_file = compile_file(disk_path, opts());
    let r_mem = compile_memory(text, opts());
    rep.compiles += 2;
    rep.classes.push(("file".into(), class(&r_file)));
    rep.classes.push(("memory".into(), class(&r_mem)));
    if matches!(r_file, Outcome::Panic(_)) || matches!(r_mem, Outcome::Panic(_)) {
        // crashes are C15's subject; a crash on one route only is still a difference below
    }
    if !has_include && !same(&r_file, &r_mem) {
        rep.viols.push(Viol {
            key: "glyphs-file-vs-memory-font-differs",
            desc: format!("{name}: compiling the .glyphs file and compiling the same text from memory differ: {}", describe_diff(&r_file, &r_mem)),
            extra: json!({"design": name, "path": disk_path, "file": brief(&r_file), "memory": brief(&r_mem), "text": text.chars().take(12000).collect::<String>()}),
        });
    }
    let doc = match read_doc(text) {
        Ok(d) => d,
        Err(e) => {
            rep.reader_failed = true;
            if matches!(r_mem, Outcome::Font(_)) {
                rep.viols.push(Viol {
                    key: "harness-reader-rejects-compilable-source",
                    desc: format!("{name}: the harness's plist reader rejects ({e}) a source fontc compiles; reformatting not exercised"),
                    extra: json!({"design": name}),
                });
            }
            return rep;
        }
    };
    // the harness's own reading and canonical re-printing must be invisible
    let canon = print_canonical(&doc);
    let r_canon = compile_memory(&canon, opts());
    rep.compiles += 1;
    if !same(&r_mem, &r_canon) {
        rep.viols.push(Viol {
            key: "glyphs-reformatted-text-changes-font",
            desc: format!("{name}: re-printing the source in the Glyphs layout (one entry per line) changes the result: {}", describe_diff(&r_mem, &r_canon)),
            extra: json!({"design": name, "memory": brief(&r_mem), "reformatted": brief(&r_canon), "text": canon.chars().take(4000).collect::<String>()}),
        });
    }
    // package
    let pkg_dir = scratch.join(format!("pkg_{}", name.replace(['/', '.', ' '], "_")));
    let _ = fs::create_dir_all(&pkg_dir);
    if has_include {
        let _ = fs::write(pkg_dir.join("c20inc.fea"), "@c20 = [a b];\n");
    }
    match write_package(&doc, &pkg_dir, "split", rng) {
        Ok(pkg) => {
            let r_pkg = compile_file(&pkg, opts());
            rep.compiles += 1;
            rep.classes.push(("package".into(), class(&r_pkg)));
            if !same(&r_file, &r_pkg) {
                rep.viols.push(Viol {
                    key: "glyphs-file-vs-package-font-differs",
                    desc: format!("{name}: the .glyphs file and the same content split into a .glyphspackage differ: {}", describe_diff(&r_file, &r_pkg)),
                    extra: json!({"design": name, "file": brief(&r_file), "package": brief(&r_pkg)}),
                });
            }
        }
        Err(e) => rep.classes.push((format!("package-not-split: {e}"), "skipped")),
    }
    let _ = fs::remove_dir_all(&pkg_dir);
    // reformatted text
    for k in 0..reformat_rounds {
        let t = print_font_level(&doc, rng, PROTECT_UNICODE.load(std::sync::atomic::Ordering::SeqCst));
        let r = compile_memory(&t, opts());
        rep.compiles += 1;
        rep.reformats += 1;
        if !same(&r_mem, &r) {
            rep.viols.push(Viol {
                key: "glyphs-reformatted-text-changes-font",
                desc: format!("{name}: the same source with different white space / key order / quoting (round {k}) changes the result: {}", describe_diff(&r_mem, &r)),
                extra: json!({"design": name, "memory": brief(&r_mem), "reformatted": brief(&r), "text": t.chars().take(6000).collect::<String>()}),
            });
            break;
        }
    }
    // Windows line ends: white space only
    {
        let t = canon.replace('\n', "\r\n");
        let r = compile_memory(&t, opts());
        rep.compiles += 1;
        if !same(&r_canon, &r) {
            rep.viols.push(Viol {
                key: "glyphs-reformatted-text-changes-font",
                desc: format!("{name}: CR LF line ends instead of LF change the result: {}", describe_diff(&r_canon, &r)),
                extra: json!({"design": name, "canonical": brief(&r_canon), "crlf": brief(&r)}),
            });
        }
    }
    // the unicode list
    if find_unicode_lists(&doc) {
        rep.unicode_list = true;
        for (v, t) in unicode_layout_variants(&canon) {
            let r = compile_memory(&t, opts());
            rep.compiles += 1;
            rep.x_cases += 1;
            if !same(&r_canon, &r) {
                rep.x_failures += 1;
                let line = t.split('\n').enumerate().find(|(_, l)| l.contains("unicode")).map(|(i, _)| i).unwrap_or(0);
                let ctx: String = t.split('\n').skip(line.saturating_sub(1)).take(6).collect::<Vec<_>>().join("\\n");
                rep.viols.push(Viol {
                    key: "glyphs-unicode-list-layout-changes-result",
                    desc: format!(
                        "{name}: writing a glyph's `unicode = (a,b);` entry as {v} (same plist value) changes the result: {} ; text near the entry: {}",
                        describe_diff(&r_canon, &r), ctx
                    ),
                    extra: json!({"design": name, "variant": v, "canonical": brief(&r_canon), "variant_result": brief(&r), "text": t.chars().take(6000).collect::<String>()}),
                });
            }
        }
    }
    rep
}

// =============================================================== main
fn list_corpus(repo: &Path) -> Vec<PathBuf> {
    let mut v = Vec::new();
    for d in ["glyphs2", "glyphs3"] {
        if let Ok(rd) = fs::read_dir(repo.join("resources/testdata").join(d)) {
            for e in rd.flatten() {
                let p = e.path();
                if p.extension().and_then(|x| x.to_str()) == Some("glyphs") && p.is_file() {
                    v.push(p);
                }
            }
        }
    }
    v.sort();
    v
}

fn emit_plist_case(id: &mut usize, kind: &str, text: &str, nontrivial: bool, stats: &mut (usize, usize, usize)) {
    match impl_parse(text) {
        Err(_) => {
            emit_violation("plist-parse-panic", format!("Plist::parse panicked on {:?}", text.chars().take(300).collect::<String>()), json!({"text": text}));
        }
        Ok(r) => {
            if r.is_some() { stats.0 += 1 } else { stats.1 += 1 }
            stats.2 = stats.2.max(text.chars().count());
            let coq = format!("agree_res (parse {}) {}", coq_chars(text), match &r {
                Some(p) => format!("(Some {})", coq_plist(p)),
                None => "None".into(),
            });
            let show = format!("parse {}", coq_chars(text));
            emit_case(*id, kind, coq, Some(show), nontrivial, format!("p:{}", text), json!({"text": text.chars().take(400).collect::<String>(), "impl_ok": r.is_some()}));
            *id += 1;
        }
    }
}

fn subnodes<'a>(n: &'a Node, out: &mut Vec<&'a Node>) {
    match n {
        Node::Dict(es) => {
            out.push(n);
            for e in es {
                subnodes(&e.1, out);
            }
        }
        Node::Arr(a) => {
            out.push(n);
            for x in a {
                subnodes(x, out);
            }
        }
        _ => {}
    }
}

fn main() {
    let args: Vec<String> = std::env::args().collect();
    let args = &args[1..];
    let seed = arg_val(args, "--seed", 1);
    let n = arg_val(args, "--n", 400) as usize;
    let thorough = n >= 2000;
    srcgen::quiet_panics();
    if std::env::var("SOURCE_DATE_EPOCH").is_err() {
        // SAFETY: single-threaded at this point
        unsafe { std::env::set_var("SOURCE_DATE_EPOCH", "1700000000") };
    }
    let repo = repo_root();
    let tdir = target_dir(&repo);
    let fontc_bin = tdir.join("debug/fontc");
    let t0 = std::time::Instant::now();

    // ---- 0. rebuild the CLI from the working tree (in the background while P / G run)
    let build = Command::new("timeout")
        .args(["3000", "cargo", "build", "--offline", "--manifest-path"])
        .arg(repo.join("Cargo.toml"))
        .args(["-p", "fontc", "--target-dir"])
        .arg(&tdir)
        .env("CARGO_NET_OFFLINE", "true")
        .env_remove("RUSTFLAGS")
        .env_remove("CARGO_ENCODED_RUSTFLAGS")
        .env_remove("CARGO_BUILD_RUSTFLAGS")
        .current_dir("/verif")
        .stdin(Stdio::null())
        .stdout(Stdio::null())
        .stderr(Stdio::piped())
        .spawn();

    let mut rng = Rng::new(seed);
    let mut id = 0usize;
    let scratch = srcgen::scratch_dir("c20");
    let corpus = list_corpus(&repo);
    {
        // probe: does the layout of a unicode list still matter? if not, reformat those entries too
        let a = "{\n.formatVersion = 3;\nfontMaster = (\n{\nid = m01;\nname = Regular;\n}\n);\nglyphs = (\n{\nglyphname = a;\nlayers = (\n{\nlayerId = m01;\nwidth = 600;\n}\n);\nunicode = (97,65);\n}\n);\nunitsPerEm = 1000;\n}\n";
        let b = a.replace("(97,65)", "(\n97 , 65\n)");
        let (ra, rb) = (compile_memory(a, fontc::Options::default()), compile_memory(&b, fontc::Options::default()));
        if matches!(ra, Outcome::Font(_)) && same(&ra, &rb) {
            PROTECT_UNICODE.store(false, std::sync::atomic::Ordering::SeqCst);
        }
    }

    // ---- P. Plist::parse against the model
    let mut pstats = (0usize, 0usize, 0usize);
    let mut p_pairs = 0usize;
    for t in EDGE_TEXTS {
        emit_plist_case(&mut id, "edge", t, true, &mut pstats);
    }
    for _ in 0..n {
        let doc = gen_node(&mut rng, 3);
        let ta = print_reader_level(&doc, &mut rng);
        let tb = print_reader_level(&doc, &mut rng);
        let tc = print_canonical(&doc);
        // the property predicate on the implementation: all formattings of a document read alike
        if let (Ok(a), Ok(b), Ok(c)) = (impl_parse(&ta), impl_parse(&tb), impl_parse(&tc)) {
            p_pairs += 1;
            if a.is_none() || b.is_none() || c.is_none() {
                emit_violation("plist-valid-document-rejected", format!("a well-formed document is rejected in one formatting: {:?} / {:?} / {:?}", ta, tb, tc), json!({"texts": [ta, tb, tc]}));
            } else if a != b || a != c {
                emit_violation(
                    "plist-formatting-changes-value",
                    format!("two formattings of one document (white space, quoting, escapes, key order, trailing comma) are read as different values: {:?} vs {:?} vs {:?}", ta, tb, tc),
                    json!({"texts": [ta, tb, tc], "duplicate_keys": has_dup_keys(&doc)}),
                );
            }
        }
        emit_plist_case(&mut id, "generated", &ta, !matches!(doc, Node::Atom(_)), &mut pstats);
        let base = if rng.chance(1, 2) { &ta } else { &tc };
        let tm = mutate_text(&mut rng, base);
        emit_plist_case(&mut id, "mutated", &tm, true, &mut pstats);
    }
    // corpus snippets (reader-level formatting of real sub-documents) and small whole files
    let mut snippets = 0usize;
    for p in corpus.iter() {
        if snippets >= n / 6 + 20 {
            break;
        }
        let Ok(text) = fs::read_to_string(p) else { continue };
        if text.chars().count() <= 2500 && rng.chance(1, 2) {
            emit_plist_case(&mut id, "corpus-file", &text, true, &mut pstats);
            snippets += 1;
        }
        if let Ok(doc) = read_doc(&text) {
            let mut subs = Vec::new();
            subnodes(&doc, &mut subs);
            for _ in 0..2 {
                let s = *rng.pick(&subs);
                let t = print_reader_level(s, &mut rng);
                if t.chars().count() <= 2500 {
                    let c = print_canonical(s);
                    if let (Ok(a), Ok(b)) = (impl_parse(&t), impl_parse(&c)) {
                        p_pairs += 1;
                        if a != b || a.is_none() {
                            emit_violation("plist-formatting-changes-value", format!("a sub-document of {} is read differently when reformatted: {:?}", p.display(), t.chars().take(300).collect::<String>()), json!({"texts": [t, c]}));
                        }
                    }
                    emit_plist_case(&mut id, "corpus-snippet", &t, true, &mut pstats);
                    snippets += 1;
                }
            }
        }
    }

    let t_p = t0.elapsed().as_secs_f64();
    // ---- G / X. designs through every container and formatting
    struct Job {
        name: String,
        text: String,
        path: PathBuf,
        include: bool,
        seed: u64,
    }
    let mut jobs: Vec<Job> = Vec::new();
    let want = if thorough { corpus.len() } else { (n / 8).max(12).min(corpus.len()) };
    let mut picks: Vec<usize> = (0..corpus.len()).collect();
    rng.shuffle(&mut picks);
    // always keep the sources with a unicode list and the package twins
    // fixed, never sampled: sources with a unicode list, the package twins, and everything the loader's
    // preprocessing pass acts on (bracket layers reached through components, smart components, corner
    // components), so that every container is compared on sources whose Font is rewritten after reading
    let must = |p: &Path| {
        let s = p.to_string_lossy();
        ["Unicode-", "infinity", "racket", "Smart", "Corner", "AxisRules", "Brace", "IntermediateLayer", "AlumniSans-wononly"].iter().any(|k| s.contains(k))
            || s.ends_with("glyphs3/WghtVar.glyphs")
            || s.ends_with("glyphs2/WghtVar.glyphs")
    };
    let n_must = corpus.iter().filter(|p| must(p)).count();
    let want = want.max(n_must + 8).min(corpus.len());
    picks.sort_by_key(|&i| if must(&corpus[i]) { 0 } else { 1 });
    for &i in picks.iter().take(want) {
        let p = &corpus[i];
        let Ok(text) = fs::read_to_string(p) else { continue };
        let name = format!("{}/{}", p.parent().and_then(|d| d.file_name()).map(|s| s.to_string_lossy().into_owned()).unwrap_or_default(), p.file_name().unwrap().to_string_lossy());
        jobs.push(Job { name, text, path: p.clone(), include: false, seed: rng.next() });
    }
    let n_gen = if thorough { 40 } else { 6 };
    let gen_dir = scratch.path().join("gen");
    fs::create_dir_all(&gen_dir).unwrap();
    fs::write(gen_dir.join("c20inc.fea"), "@c20 = [a b];\n").unwrap();
    let mut gen_paths = Vec::new();
    for k in 0..n_gen {
        let include = k % 3 == 2;
        let text = gen_glyphs_source(&mut rng, include);
        let path = gen_dir.join(format!("gen{k}.glyphs"));
        fs::write(&path, &text).unwrap();
        gen_paths.push(path.clone());
        jobs.push(Job { name: format!("generated/gen{k}.glyphs"), text, path, include, seed: rng.next() });
    }
    let n_br = if thorough { 8 } else { 2 };
    for k in 0..n_br {
        let text = gen_bracket_source(&mut rng);
        let path = gen_dir.join(format!("bracket{k}.glyphs"));
        fs::write(&path, &text).unwrap();
        gen_paths.push(path.clone());
        jobs.push(Job { name: format!("generated/bracket{k}.glyphs"), text, path, include: false, seed: rng.next() });
    }
    let rounds = if thorough { 3 } else { 1 };
    let reports: Mutex<Vec<(usize, DesignReport)>> = Mutex::new(Vec::new());
    let next = std::sync::atomic::AtomicUsize::new(0);
    let workers = std::thread::available_parallelism().map(|x| x.get()).unwrap_or(4).min(8);
    std::thread::scope(|sc| {
        for _ in 0..workers {
            sc.spawn(|| loop {
                let i = next.fetch_add(1, std::sync::atomic::Ordering::SeqCst);
                if i >= jobs.len() {
                    break;
                }
                let j = &jobs[i];
                let mut r = Rng::new(j.seed);
                let rep = check_design(&j.name, &j.text, &j.path, j.include, rounds, &mut r, scratch.path());
                reports.lock().unwrap().push((i, rep));
            });
        }
    });
    let mut reports = reports.into_inner().unwrap();
    reports.sort_by_key(|r| r.0);
    let mut g_compiles = 0usize;
    let mut g_fonts = 0usize;
    let mut g_errors = 0usize;
    let mut g_reformats = 0usize;
    let mut x_cases = 0usize;
    let mut x_fail = 0usize;
    let mut reader_failed = Vec::new();
    let mut not_split = Vec::new();
    for (_, rep) in &reports {
        g_compiles += rep.compiles;
        g_reformats += rep.reformats;
        x_cases += rep.x_cases;
        x_fail += rep.x_failures;
        if rep.reader_failed {
            reader_failed.push(rep.name.clone());
        }
        for (k, c) in &rep.classes {
            if k == "memory" {
                if *c == "font" { g_fonts += 1 } else { g_errors += 1 }
            }
            if k.starts_with("package-not-split") {
                not_split.push(format!("{}: {}", rep.name, k));
            }
        }
        for v in &rep.viols {
            emit_violation(v.key, v.desc.clone(), v.extra.clone());
        }
    }

    let t_g = t0.elapsed().as_secs_f64();
    // ---- wait for the CLI build
    let build_ok = match build {
        Ok(child) => match child.wait_with_output() {
            Ok(o) if o.status.success() && fontc_bin.exists() => true,
            Ok(o) => {
                let log = String::from_utf8_lossy(&o.stderr).into_owned();
                let tail: String = log.chars().rev().take(1500).collect::<Vec<_>>().into_iter().rev().collect();
                emit(json!({"type": "violation", "key": "fontc-cli-build", "found_input": false,
                            "desc": format!("the fontc CLI does not build from the working tree; CLI routes were not run: {}", tail), "correspondence": "C20 CLI runs"}));
                false
            }
            Err(e) => {
                emit(json!({"type": "violation", "key": "fontc-cli-build", "found_input": false, "desc": format!("cargo: {e}"), "correspondence": "C20 CLI runs"}));
                false
            }
        },
        Err(e) => {
            emit(json!({"type": "violation", "key": "fontc-cli-build", "found_input": false, "desc": format!("cannot run cargo: {e}"), "correspondence": "C20 CLI runs"}));
            false
        }
    };

    let t_b = t0.elapsed().as_secs_f64();
    // ---- C. CLI vs library
    let mut c_runs = 0usize;
    let mut c_logged = 0usize;
    if build_ok {
        let td = repo.join("resources/testdata");
        let mut srcs: Vec<PathBuf> = gen_paths.iter().filter(|p| !p.to_string_lossy().contains("gen2.") && !p.to_string_lossy().contains("gen5.")).cloned().collect();
        for s in ["glyphs3/WghtVar.glyphs", "glyphs3/WghtVar.glyphspackage", "glyphs2/WghtVar.glyphspackage", "glyphs3/NestedComponent.glyphs", "glyphs3/PropagateAnchorsTest.glyphs",
                  "glyphs3/CornerComponents.glyphs", "glyphs3/SmartComponents.glyphs", "glyphs3/glyph-with-bracket-component.glyphs", "glyphs2/SmartComponent.glyphs", "glyphs3/ProductionNames.glyphs", "glyphs2/Component.glyphs", "wght_var.designspace", "WghtVar-Regular.ufo", "static.designspace"] {
            let p = td.join(s);
            if p.exists() {
                srcs.push(p);
            }
        }
        let c_n = if thorough { 240 } else { (n / 14).max(12) };
        struct CJob {
            src: PathBuf,
            args: CliArgs,
            k: usize,
        }
        let cjobs: Vec<CJob> = (0..c_n).map(|k| CJob { src: srcs[k % srcs.len()].clone(), args: gen_cli_args(&mut rng), k }).collect();
        struct CRes {
            k: usize,
            cli: CliRun,
            lib: Outcome,
            argv: Vec<String>,
            out: PathBuf,
            build: PathBuf,
        }
        let cres: Mutex<Vec<CRes>> = Mutex::new(Vec::new());
        let next = std::sync::atomic::AtomicUsize::new(0);
        std::thread::scope(|sc| {
            for _ in 0..workers {
                sc.spawn(|| loop {
                    let i = next.fetch_add(1, std::sync::atomic::Ordering::SeqCst);
                    if i >= cjobs.len() {
                        break;
                    }
                    let j = &cjobs[i];
                    let d = scratch.path().join(format!("cli{}", j.k));
                    fs::create_dir_all(&d).unwrap();
                    let out = d.join("o/out.ttf");
                    let build = d.join("b");
                    let argv = cli_argv(&j.args, &j.src, &out, &build);
                    let expect = if j.args.explicit_output { out.clone() } else { build.join("font.ttf") };
                    let cli = run_cli(&fontc_bin, &argv, &expect);
                    let mut o = lib_options(&j.args);
                    if j.args.emit_ir {
                        o.ir_dir = Some(d.join("libir"));
                    }
                    let lib = compile_file(&j.src, o);
                    cres.lock().unwrap().push(CRes { k: j.k, cli, lib, argv, out, build });
                });
            }
        });
        let mut cres = cres.into_inner().unwrap();
        cres.sort_by_key(|r| r.k);
        for r in &cres {
            c_runs += 1;
            let j = &cjobs[r.k];
            if !same(&r.cli.outcome, &r.lib) {
                emit_violation(
                    "cli-vs-library-font-differs",
                    format!("fontc {} (status {}) and fontc::generate_font with the options those arguments mean differ: {}", r.argv.join(" "), r.cli.status, describe_diff(&r.cli.outcome, &r.lib)),
                    json!({"argv": r.argv, "cli": brief(&r.cli.outcome), "library": brief(&r.lib), "source": j.src}),
                );
            }
            if let Some((fl, dis, skip, debg, outp)) = &r.cli.logged {
                c_logged += 1;
                let out_s = r.out.to_string_lossy().into_owned();
                let build_s = r.build.to_string_lossy().into_owned();
                let coq = format!(
                    "options_agree (options_of_args {}) {} {} {} {} {}",
                    coq_args(&j.args, if j.args.explicit_output { Some(&out_s) } else { None }, &build_s),
                    coq_flags(fl), coq_flags(dis), coq_bool(*skip), coq_bool(*debg),
                    match outp { Some(o) => format!("(Some {})", coq_chars(o)), None => "None".into() }
                );
                emit_case(id, "cli-options", coq, None, true, format!("c:{:?}", j.args), json!({"argv": r.argv, "logged_flags": fl, "logged_disable": dis, "logged_out": outp}));
                id += 1;
            } else if matches!(r.cli.outcome, Outcome::Font(_)) {
                emit_violation("cli-options-not-logged", format!("the binary did not log its Options with --log fontc=debug: {}", r.argv.join(" ")), json!({"argv": r.argv}));
            }
        }
    }

    let t_c = t0.elapsed().as_secs_f64();
    // ---- I. Input::new
    let idir = scratch.path().join("inputs");
    fs::create_dir_all(&idir).unwrap();
    let mut i_cases = 0usize;
    for (fname, is_dir) in [("x.glyphs", false), ("x.GLYPHS", false), ("x.Glyphs", false), ("x.ufo", true), ("x.designspace", false), ("x.glyphspackage", true), ("x.fontra", true), ("x.txt", false),
                            ("noext", false), ("x.glyphs.bak", false), ("x.", false), ("x.ufo.glyphs", false), ("x.glyph", false), ("x.designspace ", false), (".glyphs", false), ("x.UFO", true), ("x.ttf", false)] {
        let p = idir.join(fname);
        if is_dir { fs::create_dir_all(&p).unwrap() } else { fs::write(&p, "").unwrap() }
        let code = match fontc::Input::new(&p) {
            Ok(fontc::Input::DesignSpacePath(_)) => 1,
            Ok(fontc::Input::GlyphsPath(_)) => 2,
            Ok(fontc::Input::FontraPath(_)) => 3,
            Ok(fontc::Input::GlyphsMemory(_)) => 4,
            Err(_) => 0,
        };
        let ext = p.extension().and_then(|e| e.to_str()).unwrap_or("").to_string();
        let has_ext = p.extension().is_some();
        let coq = format!("N.eqb (input_code {}) {}", if has_ext { format!("(input_new {})", coq_chars(&ext)) } else { "None".into() }, code);
        emit_case(id, "input-new", coq, None, true, format!("i:{fname}"), json!({"file": fname, "impl_code": code}));
        id += 1;
        i_cases += 1;
    }

    // ---- U. lone UFO vs one-source designspace
    let u_n = if thorough { 150 } else { (n / 16).max(10) };
    let mut u_cases = 0usize;
    let mut u_skip = 0usize;
    for k in 0..u_n {
        let d = scratch.path().join(format!("ufo{k}"));
        let w = rng.range(400, 700) as f64;
        let mut glyphs = vec![
            GlyphSrc::new("a", w).uni(0x61).rect(50.0, 0.0, 450.0, 500.0).anchor("top", 250.0, 520.0),
            GlyphSrc::new("b", w + 20.0).uni(0x62).rect(60.0, 0.0, 300.0, 700.0),
            GlyphSrc::new("c", w).uni(0x63).comp("a", [1.0, 0.0, 0.0, 1.0, rng.range(-40, 40) as f64, 0.0]),
            GlyphSrc::new("d", 2.0 * w).uni(0x64).comp("c", [1.0, 0.0, 0.0, 1.0, 0.0, 0.0]).comp("b", [1.5, 0.0, 0.0, 1.5, w, 0.0]),
            GlyphSrc::new("space", 250.0).uni(0x20),
        ];
        if rng.chance(1, 2) {
            glyphs.push(GlyphSrc::new("e.alt", w).rect(0.0, 0.0, 100.0, 100.0));
        }
        let mut names: Vec<String> = glyphs.iter().map(|g| g.name.clone()).collect();
        let mut design = Design::single(&format!("U{k}"), glyphs);
        let m = &mut design.masters[0];
        let mut public_xml = String::new();
        if rng.chance(2, 3) {
            rng.shuffle(&mut names);
            m.glyph_order = Some(names.clone());
            public_xml.push_str(&format!("<key>public.glyphOrder</key>{}", srcgen::plist_str_array(&names)));
        }
        let skip = rng.chance(1, 2);
        if skip {
            m.skip_export = vec!["b".into()];
            public_xml.push_str(&format!("<key>public.skipExportGlyphs</key>{}", srcgen::plist_str_array(&m.skip_export)));
            u_skip += 1;
        }
        if rng.chance(1, 3) {
            let v = "<dict><key>a</key><string>uni0061</string><key>c</key><string>cee</string></dict>";
            m.lib.push(("public.postscriptNames".into(), v.into()));
            public_xml.push_str(&format!("<key>public.postscriptNames</key>{v}"));
        }
        if rng.chance(1, 4) {
            let v = "<dict><key>a</key><string>base</string><key>b</key><string>base</string></dict>";
            m.lib.push(("public.openTypeCategories".into(), v.into()));
            public_xml.push_str(&format!("<key>public.openTypeCategories</key>{v}"));
        }
        if rng.chance(1, 3) {
            let f = *rng.pick(&["flattenComponents", "decomposeTransformedComponents", "propagateAnchors"]);
            m.lib.push(("com.github.googlei18n.ufo2ft.filters".into(), format!("<array><dict><key>name</key><string>{f}</string><key>pre</key><true/></dict></array>")));
        }
        if rng.chance(1, 3) {
            m.kerning = vec![("a".into(), "b".into(), -30.0)];
        }
        if rng.chance(1, 3) {
            m.features = Some("feature liga { sub a b by c; } liga;\n".into());
        }
        let ufo = design.write(&d);
        let ufo_name = ufo.file_name().unwrap().to_string_lossy().into_owned();
        let attrs = if rng.chance(1, 2) { String::new() } else { format!(" name=\"master.{k}\" familyname=\"Other Family\" stylename=\"Other\"") };
        // norad cannot read a <source> without a <dimension>: one axis with minimum = default = maximum
        let ds = |lib: &str| format!("<?xml version='1.0' encoding='UTF-8'?>\n<designspace format=\"4.1\">\n  <axes>\n    <axis tag=\"wght\" name=\"Weight\" minimum=\"400\" maximum=\"400\" default=\"400\"/>\n  </axes>\n  <sources>\n    <source filename=\"{ufo_name}\"{attrs}>\n      <location><dimension name=\"Weight\" xvalue=\"400\"/></location>\n    </source>\n  </sources>\n{lib}</designspace>\n");
        let ds_bare = d.join("bare.designspace");
        let ds_lib = d.join("withlib.designspace");
        fs::write(&ds_bare, ds("")).unwrap();
        fs::write(&ds_lib, ds(&if public_xml.is_empty() { String::new() } else { format!("  <lib><dict>{public_xml}</dict></lib>\n") })).unwrap();
        let r_ufo = compile_file(&ufo, fontc::Options::default());
        let r_bare = compile_file(&ds_bare, fontc::Options::default());
        let r_lib = compile_file(&ds_lib, fontc::Options::default());
        u_cases += 1;
        let info = json!({"case": k, "skip_export": skip, "source_attrs": attrs, "designspace_lib": public_xml, "ufo": brief(&r_ufo), "designspace_bare": brief(&r_bare), "designspace_with_public_keys": brief(&r_lib),
                          "ufo_lib_keys": design.masters[0].lib.iter().map(|x| x.0.clone()).collect::<Vec<_>>()});
        if !same(&r_ufo, &r_lib) {
            emit_violation("ufo-vs-designspace-font-differs", format!("a lone UFO and a designspace listing only that UFO (carrying the UFO's public.* lib keys) differ: {}", describe_diff(&r_ufo, &r_lib)), info.clone());
        }
        if !skip && !same(&r_ufo, &r_bare) {
            emit_violation("ufo-vs-designspace-font-differs", format!("a lone UFO without public.skipExportGlyphs and a bare designspace listing only that UFO differ: {}", describe_diff(&r_ufo, &r_bare)), info.clone());
        }
        // tie of merge_lib: is public.skipExportGlyphs seen on each route?
        if let (Outcome::Font(fu), Outcome::Font(fb), Outcome::Font(fl)) = (&r_ufo, &r_bare, &r_lib) {
            let total = design.masters[0].glyphs.len() as u32;
            // .notdef is added when missing
            let seen = |f: &[u8]| num_glyphs(f).map(|g| g < total + 1);
            if let (Some(su), Some(sb), Some(sl)) = (seen(fu), seen(fb), seen(fl)) {
                let key = coq_chars("public.skipExportGlyphs");
                let ufo_lib = format!("[{}]", {
                    let mut ks: Vec<String> = Vec::new();
                    if design.masters[0].glyph_order.is_some() { ks.push("public.glyphOrder".into()) }
                    if skip { ks.push("public.skipExportGlyphs".into()) }
                    for (k2, _) in &design.masters[0].lib { ks.push(k2.clone()) }
                    ks.iter().map(|k2| format!("({}, PArr [])", coq_chars(k2))).collect::<Vec<_>>().join("; ")
                });
                let ds_lib_coq = format!("[{}]", {
                    let mut ks: Vec<String> = Vec::new();
                    if design.masters[0].glyph_order.is_some() { ks.push("public.glyphOrder".into()) }
                    if skip { ks.push("public.skipExportGlyphs".into()) }
                    for (k2, _) in &design.masters[0].lib { if k2.starts_with("public.") { ks.push(k2.clone()) } }
                    ks.iter().map(|k2| format!("({}, PArr [])", coq_chars(k2))).collect::<Vec<_>>().join("; ")
                });
                let is_some = |l: &str, sk: bool| format!("match lib_get {key} (merge_lib {l} {ufo_lib} {}) with Some _ => true | None => false end", coq_bool(sk));
                let coq = format!("Bool.eqb ({}) {} && Bool.eqb ({}) {} && Bool.eqb ({}) {}", is_some("[]", false), coq_bool(su), is_some("[]", true), coq_bool(sb), is_some(&ds_lib_coq, true), coq_bool(sl));
                emit_case(id, "ufo-lib-merge", coq, None, skip, format!("u:{k}:{skip}"), json!({"case": k, "skip_export": skip, "seen_ufo": su, "seen_bare": sb, "seen_withlib": sl}));
                id += 1;
            }
        }
    }

    emit_stat(json!({
        "plist_texts_ok": pstats.0, "plist_texts_rejected": pstats.1, "plist_longest_text": pstats.2, "plist_formatting_pairs": p_pairs,
        "designs": reports.len(), "corpus_available": corpus.len(), "design_compiles": g_compiles, "designs_font": g_fonts, "designs_error": g_errors,
        "reformat_rounds": g_reformats, "unicode_layout_cases": x_cases, "unicode_layout_failures": x_fail,
        "harness_reader_failed": reader_failed, "package_not_split": not_split,
        "designs_not_compiling": reports.iter().filter(|r| r.1.classes.iter().any(|(k, c)| k == "memory" && *c != "font")).map(|r| r.1.name.clone()).collect::<Vec<_>>(),
        "designs_fixed_preprocess_sensitive": reports.iter().filter(|r| ["racket", "Smart", "Corner", "AxisRules", "Brace"].iter().any(|k| r.1.name.contains(k))).count(),
        "cli_runs": c_runs, "cli_options_logged": c_logged, "input_new_cases": i_cases, "ufo_cases": u_cases, "ufo_with_skip_export": u_skip,
        "unicode_entries_protected": PROTECT_UNICODE.load(std::sync::atomic::Ordering::SeqCst), "cli_built": build_ok, "wall_s": t0.elapsed().as_secs(), "t_plist_s": t_p, "t_designs_s": t_g - t_p, "t_wait_build_s": t_b - t_g, "t_cli_s": t_c - t_b, "t_ufo_s": t0.elapsed().as_secs_f64() - t_c,
        "extra_evaluations": g_compiles + c_runs * 2 + u_cases * 3 + p_pairs,
    }));
}
