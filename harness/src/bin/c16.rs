//! C16: conditional substitutions (designspace <rules> -> GSUB FeatureVariations).
//!
//! Stage A drives the real `fontir::feature_variations::overlay_feature_variations` on generated
//! rule lists; stage E compiles generated designspaces with `<rules>` through `fontc::generate_font`
//! and decodes GSUB with read-fonts.  In both stages the property predicate (substitutions applied
//! at a location == substitutions of the rules firing there, in rule order) is evaluated directly
//! on what the implementation returned, at the centres of all cells induced by the box edges, at
//! every edge, and one step inside and outside of every edge.  Per case a Gallina term compares
//! the model (FV.C16.Model) with the implementation's output exactly.
use fontdrasil::coords::NormalizedCoord;
use fontdrasil::types::GlyphName;
use fontir::feature_variations::{overlay_feature_variations, NBox, Region};
use serde_json::json;
use std::collections::{BTreeMap, BTreeSet};
use vh::srcgen::*;
use vh::*;
use write_fonts::read::tables::gsub::{SingleSubst, SubstitutionSubtables};
use write_fonts::read::tables::layout::Condition;
use write_fonts::read::{FontRef, TableProvider};
use write_fonts::types::{GlyphId16, Tag};

/// axis tags in tag order; the model's axis id is the position + 1
const TAGS: [&str; 3] = ["opsz", "wdth", "wght"];
const AXNAMES: [&str; 3] = ["Optical", "Width", "Weight"];

/// (axis, min, max) with the bounds in 1/U units, before NBox::insert clamps them
type Cond = (usize, Option<i64>, Option<i64>);
type SubMap = Vec<(usize, usize)>; // sorted by key, keys unique (a BTreeMap)
type BoxN = Vec<(usize, i64, i64)>; // an NBox as returned: sorted by axis

#[derive(Clone, Debug)]
struct RuleN {
    boxes: Vec<Vec<Cond>>,
    subs: SubMap,
}

fn gname(id: usize) -> String {
    if id % 2 == 0 { format!("g{:02}", id / 2) } else { format!("g{:02}.alt", id / 2) }
}
fn gid_of(name: &str) -> Option<usize> {
    let b = name.strip_prefix('g')?;
    let (num, alt) = match b.strip_suffix(".alt") {
        Some(n) => (n, 1),
        None => (b, 0),
    };
    if num.len() != 2 {
        return None;
    }
    Some(num.parse::<usize>().ok()? * 2 + alt)
}

fn clamp_lo(v: Option<i64>, u: i64) -> i64 {
    v.unwrap_or(-u).max(-u)
}
fn clamp_hi(v: Option<i64>, u: i64) -> i64 {
    v.unwrap_or(u).min(u)
}

// ---- the real overlay ---------------------------------------------------------------------
type Items = Vec<(BoxN, Vec<SubMap>)>;

fn run_overlay(rules: &[RuleN], u: i64) -> Result<Items, String> {
    let input: Vec<(Region, BTreeMap<GlyphName, GlyphName>)> = rules
        .iter()
        .map(|r| {
            let mut region = Region::default();
            for b in &r.boxes {
                let mut nb = NBox::default();
                for (a, mn, mx) in b {
                    let tag: Tag = TAGS[*a].parse().unwrap();
                    nb.insert(tag, mn.map(|v| NormalizedCoord::new(v as f64 / u as f64)), mx.map(|v| NormalizedCoord::new(v as f64 / u as f64)));
                }
                region.push(nb);
            }
            let subs = r.subs.iter().map(|(a, b)| (GlyphName::new(gname(*a)), GlyphName::new(gname(*b)))).collect();
            (region, subs)
        })
        .collect();
    let out = std::panic::catch_unwind(move || overlay_feature_variations(input)).map_err(|p| {
        p.downcast_ref::<String>().cloned().or_else(|| p.downcast_ref::<&str>().map(|s| s.to_string())).unwrap_or_else(|| "panic".into())
    })?;
    Ok(out
        .into_iter()
        .map(|(nb, maps)| {
            let b: BoxN = nb
                .iter()
                .map(|(t, (mn, mx))| {
                    let a = TAGS.iter().position(|x| x.parse::<Tag>().unwrap() == t).unwrap();
                    (a, (mn.to_f64() * u as f64).round() as i64, (mx.to_f64() * u as f64).round() as i64)
                })
                .collect();
            let ms = maps
                .into_iter()
                .map(|m| m.into_iter().map(|(k, v)| (gid_of(k.as_str()).unwrap(), gid_of(v.as_str()).unwrap())).collect())
                .collect();
            (b, ms)
        })
        .collect())
}

// ---- semantics ----------------------------------------------------------------------------
fn cond_holds(p: &[i64], c: &Cond, u: i64) -> bool {
    clamp_lo(c.1, u) <= p[c.0] && p[c.0] <= clamp_hi(c.2, u)
}
fn rule_active(p: &[i64], r: &RuleN, u: i64) -> bool {
    r.boxes.iter().any(|b| b.iter().all(|c| cond_holds(p, c, u)))
}
fn in_box(p: &[i64], b: &BoxN) -> bool {
    b.iter().all(|(a, mn, mx)| *mn <= p[*a] && p[*a] <= *mx)
}
fn sub_apply(m: &SubMap, g: usize) -> usize {
    m.iter().find(|(k, _)| *k == g).map(|(_, v)| *v).unwrap_or(g)
}
fn apply_seq(ms: &[&SubMap], g: usize) -> usize {
    ms.iter().fold(g, |g, m| sub_apply(m, g))
}

#[derive(PartialEq, Clone, Copy, Debug)]
enum Interf {
    None,
    Conflict,
    Chain,
}
/// do the maps of the firing rules interfere (so that the order of application matters)?
fn interference(ms: &[&SubMap]) -> Interf {
    let mut r = Interf::None;
    for i in 0..ms.len() {
        for j in 0..ms.len() {
            if i == j {
                continue;
            }
            for (g, x) in ms[i] {
                if let Some((_, y)) = ms[j].iter().find(|(k, _)| k == g) {
                    if y != x {
                        return Interf::Conflict;
                    }
                }
                if x != g && ms[j].iter().any(|(k, _)| k == x) {
                    r = Interf::Chain;
                }
            }
        }
    }
    r
}

/// the location lies on a lower edge of one condition and on an upper edge of another, on one axis
fn touching(p: &[i64], rules: &[RuleN], u: i64) -> bool {
    (0..p.len()).any(|a| {
        let mut lo = false;
        let mut hi = false;
        for r in rules {
            for b in &r.boxes {
                for c in b {
                    if c.0 == a && !(clamp_lo(c.1, u) == -u && clamp_hi(c.2, u) == u) {
                        lo |= clamp_lo(c.1, u) == p[a];
                        hi |= clamp_hi(c.2, u) == p[a];
                    }
                }
            }
        }
        lo && hi
    })
}

/// candidate coordinates on one axis: domain ends, every (clamped) edge, one step either side
fn axis_coords(rules: &[RuleN], a: usize, lo: i64, hi: i64, u: i64, step: i64) -> Vec<i64> {
    let mut s: BTreeSet<i64> = BTreeSet::new();
    let mut ambiguous: BTreeSet<i64> = BTreeSet::new();
    s.insert(lo);
    s.insert(hi);
    if lo <= 0 && 0 <= hi {
        s.insert(0);
    }
    for r in rules {
        for b in &r.boxes {
            for c in b {
                if c.0 == a {
                    for e in [clamp_lo(c.1, u), clamp_hi(c.2, u)] {
                        // an edge between two grid points: the nearest grid point is ambiguous (the font
                        // stores the rounded edge), its two neighbours are not
                        let on_grid = e.rem_euclid(step) == 0;
                        let q = if e >= 0 { (2 * e + step) / (2 * step) * step } else { -((-2 * e + step) / (2 * step)) * step };
                        let cand = if on_grid { vec![e - step, e, e + step] } else { vec![q - step, q + step] };
                        if !on_grid {
                            ambiguous.insert(q);
                        }
                        for v in cand {
                            if lo <= v && v <= hi {
                                s.insert(v);
                            }
                        }
                    }
                }
            }
        }
    }
    // cell centres (rounded to the grid) between consecutive candidates
    let v: Vec<i64> = s.iter().copied().collect();
    for w in v.windows(2) {
        if w[1] - w[0] >= 2 * step {
            s.insert(w[0] + (w[1] - w[0]) / (2 * step) * step);
        }
    }
    s.into_iter().filter(|v| !ambiguous.contains(v)).collect()
}

fn points(rng: &mut Rng, rules: &[RuleN], doms: &[(i64, i64)], u: i64, step: i64, cap: usize) -> Vec<Vec<i64>> {
    let per: Vec<Vec<i64>> = (0..doms.len()).map(|a| axis_coords(rules, a, doms[a].0, doms[a].1, u, step)).collect();
    let total: usize = per.iter().map(|v| v.len()).product();
    let mut out = Vec::new();
    if total <= cap {
        let mut idx = vec![0usize; per.len()];
        loop {
            out.push(idx.iter().enumerate().map(|(a, i)| per[a][*i]).collect());
            let mut k = 0;
            loop {
                if k == per.len() {
                    return out;
                }
                idx[k] += 1;
                if idx[k] < per[k].len() {
                    break;
                }
                idx[k] = 0;
                k += 1;
            }
        }
    }
    for _ in 0..cap {
        out.push(per.iter().map(|v| *rng.pick(v)).collect());
    }
    out
}

/// what "the same region" means in the source: the same condition sets, whatever their order, and
/// whatever conditions covering a whole axis they carry.  Computed from the (intersected) source
/// conditions only.
fn canon_region(r: &RuleN, u: i64) -> Vec<BoxN> {
    let mut boxes: Vec<BoxN> = r
        .boxes
        .iter()
        .map(|b| {
            let mut e: BoxN = b.iter().map(|(a, mn, mx)| (*a, clamp_lo(*mn, u), clamp_hi(*mx, u))).filter(|(_, lo, hi)| !(*lo == -u && *hi == u)).collect();
            e.sort();
            e
        })
        .collect();
    boxes.sort();
    boxes
}

/// The firing rules, with those of one and the same region folded into one map in which the EARLIER
/// rule's replacement of a glyph stands (a rule whose map also occurs elsewhere in the list is left
/// alone: its region is joined with that of its twin first).  Returns the folded maps, whether a
/// chain inside a group makes the order matter, and for every glyph that members of one group
/// replace differently the replacements of the later members.
fn fold_same_region(rules_t: &[RuleN], canon: &[Vec<BoxN>], unique_map: &[bool], act: &[usize]) -> (Vec<SubMap>, bool, Vec<(usize, Vec<usize>)>) {
    let mut groups: Vec<Vec<usize>> = Vec::new();
    for &i in act {
        let pos = if unique_map[i] { groups.iter().position(|g| unique_map[g[0]] && canon[g[0]] == canon[i]) } else { None };
        match pos {
            Some(k) => groups[k].push(i),
            None => groups.push(vec![i]),
        }
    }
    let mut maps = Vec::new();
    let mut chain = false;
    let mut later: Vec<(usize, Vec<usize>)> = Vec::new();
    for g in &groups {
        let mut m: BTreeMap<usize, usize> = BTreeMap::new();
        for &i in g {
            for (a, b) in &rules_t[i].subs {
                match m.get(a) {
                    None => {
                        m.insert(*a, *b);
                    }
                    Some(first) if first != b => match later.iter_mut().find(|(k, _)| k == a) {
                        Some((_, v)) => v.push(*b),
                        None => later.push((*a, vec![*b])),
                    },
                    _ => {}
                }
                if g.iter().any(|&j| j != i && a != b && rules_t[j].subs.iter().any(|(k, _)| k == b)) {
                    chain = true;
                }
            }
        }
        maps.push(m.into_iter().collect());
    }
    (maps, chain, later)
}

struct Tally {
    emitted: BTreeMap<String, usize>,
    points: usize,
    kinds: BTreeMap<String, usize>,
    mism: BTreeMap<String, usize>,
    order_dependent_skipped: usize,
    same_region_conflict_points: usize,
}
impl Tally {
    fn viol(&mut self, key: &str, desc: String, extra: serde_json::Value) {
        *self.mism.entry(key.to_string()).or_insert(0) += 1;
        let stage = extra.get("stage").and_then(|s| s.as_str()).unwrap_or("").to_string();
        let n = self.emitted.entry(format!("{key}@{stage}")).or_insert(0);
        *n += 1;
        if *n <= 2 {
            emit_violation(key, desc, extra);
        }
    }
}

fn rules_json(rules: &[RuleN], u: i64) -> serde_json::Value {
    json!(rules
        .iter()
        .map(|r| json!({
            "condition_sets": r.boxes.iter().map(|b| b.iter().map(|(a, mn, mx)| json!({"axis": TAGS[*a], "min": mn.map(|v| v as f64 / u as f64), "max": mx.map(|v| v as f64 / u as f64)})).collect::<Vec<_>>()).collect::<Vec<_>>(),
            "subs": r.subs.iter().map(|(a, b)| json!([gname(*a), gname(*b)])).collect::<Vec<_>>()
        }))
        .collect::<Vec<_>>())
}

/// Evaluate the property at the test points.  `font` gives, for a location, the substitution maps
/// the implementation applies there, in application order (None: nothing applies).
fn check_points(
    t: &mut Tally, stage: &str, rules: &[RuleN], pts: &[Vec<i64>], u: i64, nglyphs: usize,
    font: &dyn Fn(&[i64]) -> Option<Vec<SubMap>>, collision_at: &dyn Fn(&[i64]) -> Option<&'static str>, input: &serde_json::Value,
    order_is_final: bool, show_axes: &[usize],
) -> usize {
    let mut bad = 0;
    let rules_t = intersected(rules);
    let has_empty_region = rules.iter().any(|r| r.boxes.is_empty());
    let has_axis_twice = rules.iter().any(|r| r.boxes.iter().any(|b| (0..b.len()).any(|i| (0..i).any(|j| b[i].0 == b[j].0))));
    let canon: Vec<Vec<BoxN>> = rules_t.iter().map(|r| canon_region(r, u)).collect();
    let unique_map: Vec<bool> = (0..rules.len()).map(|i| (0..rules.len()).all(|j| j == i || rules[j].subs != rules[i].subs)).collect();
    for p in pts {
        t.points += 1;
        let act: Vec<usize> = (0..rules.len()).filter(|i| rule_active(p, &rules[*i], u)).collect();
        // what the source says: the firing rules one after the other, in rule order
        let spec_maps: Vec<&SubMap> = act.iter().map(|i| &rules[*i].subs).collect();
        // does the order of application matter?  Rules of one and the same region are one unit (the
        // earlier rule's replacement stands, whatever else happens); between units it is the known
        // finding that the order is by content
        let (folded, chain_in_group, later_of) = fold_same_region(&rules_t, &canon, &unique_map, &act);
        let folded_refs: Vec<&SubMap> = folded.iter().collect();
        let inter = if chain_in_group { Interf::Chain } else { interference(&folded_refs) };
        if !order_is_final && inter != Interf::None {
            // the order in which the maps are applied is only decided when the lookups are built:
            // such locations are judged on the compiled font (stage E)
            t.order_dependent_skipped += 1;
            continue;
        }
        if !later_of.is_empty() {
            t.same_region_conflict_points += 1;
        }
        let got = font(p).unwrap_or_default();
        let got_refs: Vec<&SubMap> = got.iter().collect();
        let mut diff = None;
        let mut later_won = None;
        for g in 0..nglyphs {
            let (s, f) = (apply_seq(&spec_maps, g), apply_seq(&got_refs, g));
            if s != f {
                if diff.is_none() {
                    diff = Some((g, s, f));
                }
                if later_won.is_none() && later_of.iter().any(|(k, v)| *k == g && v.contains(&f)) {
                    later_won = Some((g, s, f));
                }
            }
        }
        let Some((g, s, f)) = later_won.or(diff) else { continue };
        bad += 1;
        // rules of one region: the earliest must win, independently of everything else; then the four
        // situations that are known findings (they can occur in any input), then the repaired classes
        // by what distinguishes their inputs, so that they are reported under their own key should
        // they ever return
        let key = if later_won.is_some() && inter == Interf::None {
            "same-region-rules-later-rule-wins"
        } else if inter == Interf::Conflict {
            "later-rule-wins-conflicting-subs"
        } else if inter == Interf::Chain {
            "chained-subs-not-applied-in-rule-order"
        } else if touching(p, &rules_t, u) {
            "touching-edges-location-loses-rule"
        } else if let Some(k) = collision_at(p) {
            k
        } else if rules.len() >= 65 {
            "overlay-wrong-result-ge-65-rules"
        } else if has_axis_twice {
            "two-conditions-on-one-axis-only-last-kept"
        } else if has_empty_region {
            "rule-without-condition-set-erases-earlier-rules"
        } else {
            "wrong-substitutions-at-location"
        };
        let loc: Vec<(String, f64)> = show_axes.iter().map(|a| (TAGS[*a].to_string(), p[*a] as f64 / u as f64)).collect();
        t.viol(
            key,
            format!(
                "{stage}: at normalized location {:?} glyph {} becomes {} but the rules firing there (rules {:?}, in order) give {}",
                loc, gname(g), gname(f), act, gname(s)
            ),
            json!({"stage": stage, "location": loc, "glyph": gname(g), "font_gives": gname(f), "rules_give": gname(s), "firing_rules": act,
                   "applied_maps": got.iter().map(|m| m.iter().map(|(a, b)| json!([gname(*a), gname(*b)])).collect::<Vec<_>>()).collect::<Vec<_>>(),
                   "input": input}),
        );
    }
    bad
}

// ---- Gallina printers ----------------------------------------------------------------------
fn coq_oz(v: &Option<i64>) -> String {
    coq_opt(v, |x| coq_z(*x))
}
fn coq_submap(m: &SubMap) -> String {
    coq_list(m, |(a, b)| format!("({}, {})", coq_n(*a as u64), coq_n(*b as u64)))
}
fn coq_rules(rules: &[RuleN], u: i64) -> String {
    coq_rules_with(rules, u, "mk_box")
}
/// `ctor` is the model function that turns a list of conditions into an NBox: `mk_box` (NBox::insert
/// one after the other, the public API) or `box_of_conditions` (what the fontbe provider does)
fn coq_rules_with(rules: &[RuleN], u: i64, ctor: &str) -> String {
    coq_list(rules, |r| {
        format!(
            "({}, {})",
            coq_list(&r.boxes, |b| format!("{ctor} {} {}", coq_z(u), coq_list(b, |(a, mn, mx)| format!("({}, ({}, {}))", coq_n(*a as u64 + 1), coq_oz(mn), coq_oz(mx))))),
            coq_submap(&r.subs)
        )
    })
}
fn coq_items(items: &Items) -> String {
    coq_list(items, |(b, ms)| {
        format!("({}, {})", coq_list(b, |(a, mn, mx)| format!("({}, ({}, {}))", coq_n(*a as u64 + 1), coq_z(*mn), coq_z(*mx))), coq_list(ms, coq_submap))
    })
}

// ---- generators -----------------------------------------------------------------------------
struct GenCfg {
    naxes: usize,
    u: i64,
    step: i64, // edges are multiples of 2*step; test points multiples of step
}

fn gen_bound(rng: &mut Rng, pool: &[i64], u: i64) -> Option<i64> {
    match rng.below(20) {
        0..=3 => None,
        4 => Some(if rng.chance(1, 2) { -u - 2 * rng.range(1, 4) } else { u + 2 * rng.range(1, 4) }),
        _ => Some(*rng.pick(pool)),
    }
}

fn gen_box(rng: &mut Rng, cfg: &GenCfg, pools: &[Vec<i64>]) -> Vec<Cond> {
    let mut b = Vec::new();
    for a in 0..cfg.naxes {
        if !rng.chance(3, 5) {
            continue;
        }
        let (mut mn, mut mx) = (gen_bound(rng, &pools[a], cfg.u), gen_bound(rng, &pools[a], cfg.u));
        if let (Some(x), Some(y)) = (mn, mx) {
            // mostly proper ranges; degenerate 1/12, inverted 1/30
            if x > y && !rng.chance(1, 30) {
                mn = Some(y);
                mx = Some(x);
            }
            if x == y && !rng.chance(1, 12) {
                mx = Some((x + 2 * cfg.step * rng.range(1, 3)).min(cfg.u));
            }
        }
        b.push((a, mn, mx));
    }
    b
}

fn gen_rules(rng: &mut Rng, cfg: &GenCfg, n: usize, messy: bool, allow_empty_region: bool) -> Vec<RuleN> {
    let grid = 2 * cfg.step;
    let pools: Vec<Vec<i64>> = (0..cfg.naxes)
        .map(|_| {
            let k = rng.range(2, 6) as usize;
            let mut v: Vec<i64> = (0..k).map(|_| rng.range(-cfg.u / grid, cfg.u / grid) * grid).collect();
            for e in [-cfg.u, 0, cfg.u] {
                if rng.chance(1, 3) {
                    v.push(e);
                }
            }
            v
        })
        .collect();
    let mut rules: Vec<RuleN> = Vec::new();
    for i in 0..n {
        // region
        let boxes = if i > 0 && rng.chance(1, 7) {
            // same region as an earlier rule (merge_same_region_rules), maybe written differently
            let mut b = rules[rng.below(i as u64) as usize].boxes.clone();
            if rng.chance(1, 2) {
                rng.shuffle(&mut b);
            }
            if rng.chance(1, 3) {
                for bx in b.iter_mut() {
                    if let Some(a) = (0..cfg.naxes).find(|a| bx.iter().all(|c| c.0 != *a)) {
                        bx.push((a, Some(-cfg.u), None)); // explicit full range: removed by cleanup
                        bx.sort_by_key(|c| c.0);
                    }
                }
            }
            b
        } else if allow_empty_region && rng.chance(1, 40) {
            Vec::new()
        } else {
            let k = match rng.below(10) {
                0..=5 => 1,
                6..=8 => 2,
                _ => 3,
            };
            (0..k).map(|_| gen_box(rng, cfg, &pools)).collect()
        };
        // substitutions
        let subs: SubMap = if i > 0 && rng.chance(1, 8) {
            rules[rng.below(i as u64) as usize].subs.clone() // merge_same_sub_rules
        } else if messy {
            let k = rng.range(1, 2) as usize;
            let mut m = BTreeMap::new();
            let ng = 2 * n.max(3);
            for _ in 0..k {
                let a = rng.below(ng as u64) as usize;
                let mut b = rng.below(ng as u64) as usize;
                if b == a {
                    b = (a + 1) % ng;
                }
                m.insert(a, b);
            }
            m.into_iter().collect()
        } else {
            // rule i swaps its own base glyph, sometimes one more of a rule nobody else uses
            let mut m = vec![(2 * i, 2 * i + 1)];
            if n <= 20 && rng.chance(1, 4) {
                m.push((2 * (n + i), 2 * (n + i) + 1));
            }
            m
        };
        rules.push(RuleN { boxes, subs });
    }
    rules
}

/// the condition sets with every axis mentioned once: the ranges of a repeated axis intersected
/// (all conditions of a set must hold)
fn intersected(rules: &[RuleN]) -> Vec<RuleN> {
    rules
        .iter()
        .map(|r| RuleN {
            boxes: r
                .boxes
                .iter()
                .map(|b| {
                    let mut m: BTreeMap<usize, (Option<i64>, Option<i64>)> = BTreeMap::new();
                    for (a, mn, mx) in b {
                        let e = m.entry(*a).or_insert((*mn, *mx));
                        e.0 = match (e.0, *mn) { (Some(x), Some(y)) => Some(x.max(y)), (x, y) => x.or(y) };
                        e.1 = match (e.1, *mx) { (Some(x), Some(y)) => Some(x.min(y)), (x, y) => x.or(y) };
                    }
                    m.into_iter().map(|(a, (mn, mx))| (a, mn, mx)).collect()
                })
                .collect(),
            subs: r.subs.clone(),
        })
        .collect()
}

/// ordinary rules, and among them 2-3 rules that have one and the same region (written identically,
/// with the condition sets in another order, or with a redundant full-range condition) and replace
/// one glyph differently
fn gen_same_region_rules(rng: &mut Rng, cfg: &GenCfg, n: usize) -> Vec<RuleN> {
    let n = n.max(3);
    let mut rules = gen_rules(rng, cfg, n, false, false);
    let mut region: Vec<Vec<Cond>> = Vec::new();
    while region.is_empty() || region.iter().all(|b| b.is_empty()) {
        region = rules[rng.below(n as u64) as usize].boxes.clone();
        if rng.chance(1, 2) {
            let extra = rules[rng.below(n as u64) as usize].boxes.clone();
            region.extend(extra);
        }
        if region.iter().all(|b| b.is_empty()) {
            region = vec![vec![(0, Some(-cfg.u / 2), Some(cfg.u / 2))]];
        }
    }
    let k = rng.range(2, 3) as usize;
    let mut pos: Vec<usize> = (0..n).collect();
    rng.shuffle(&mut pos);
    let mut twins: Vec<usize> = pos[..k].to_vec();
    twins.sort();
    let g = 2 * twins[0];
    for (j, &t) in twins.iter().enumerate() {
        let mut b = region.clone();
        match rng.below(3) {
            0 => {}
            1 => rng.shuffle(&mut b),
            _ => {
                for bx in b.iter_mut() {
                    if let Some(a) = (0..cfg.naxes).find(|a| bx.iter().all(|c| c.0 != *a)) {
                        bx.push((a, if rng.chance(1, 2) { None } else { Some(-cfg.u - 2) }, Some(cfg.u)));
                        bx.sort_by_key(|c| c.0);
                    }
                }
            }
        }
        let mut m = vec![(g, 2 * t + 1)];
        if j > 0 && rng.chance(1, 2) {
            m.push((2 * t, 2 * t + 1)); // a glyph only this rule replaces
        }
        m.sort();
        m.dedup();
        rules[t] = RuleN { boxes: b, subs: m };
    }
    rules
}

fn overlaps_somewhere(rules: &[RuleN], pts: &[Vec<i64>], u: i64) -> bool {
    pts.iter().any(|p| rules.iter().filter(|r| rule_active(p, r, u)).count() >= 2)
}

fn stage_a_case(rng: &mut Rng, t: &mut Tally, id: &mut usize, kind: &str, cfg: &GenCfg, rules: Vec<RuleN>, cap: usize) {
    let u = cfg.u;
    let doms: Vec<(i64, i64)> = (0..cfg.naxes).map(|_| (-u, u)).collect();
    let pts = points(rng, &rules, &doms, u, cfg.step, cap);
    let input = json!({"unit": u, "axes": &TAGS[..cfg.naxes], "rules": rules_json(&rules, u)});
    let nglyphs = rules.iter().flat_map(|r| r.subs.iter().flat_map(|(a, b)| [*a, *b])).max().map(|m| m + 1).unwrap_or(0);
    let res = run_overlay(&rules, u);
    let expect = match &res {
        Ok(items) => {
            let font = |p: &[i64]| items.iter().find(|(b, _)| in_box(p, b)).map(|(_, ms)| ms.clone());
            check_points(t, "overlay", &rules, &pts, u, nglyphs, &font, &|_| None, &input, false, &(0..cfg.naxes).collect::<Vec<_>>());
            format!("(Some {})", coq_items(items))
        }
        Err(msg) => {
            let key = if rules.len() >= 65 { "overlay-panic-ge-65-rules" } else { "overlay-panic" };
            t.viol(key, format!("overlay_feature_variations panicked on {} rules: {}", rules.len(), msg), json!({"stage": "overlay", "panic": msg, "input": input}));
            "None".to_string()
        }
    };
    let coq = format!("overlay_res_eqb (overlay_feature_variations {} {}) {}", coq_z(u), coq_rules(&rules, u), expect);
    let show = format!("overlay_feature_variations {} {}", coq_z(u), coq_rules(&rules, u));
    let nontrivial = rules.len() >= 2 && overlaps_somewhere(&rules, &pts, u);
    *t.kinds.entry(kind.to_string()).or_insert(0) += 1;
    emit_case(*id, kind, coq, Some(show), nontrivial, format!("{:?}", rules), json!({"rules": rules.len(), "points": pts.len(), "impl_ok": res.is_ok()}));
    *id += 1;
}

/// 65 rules: 64 disjoint intervals and one rule whose two boxes split the interval of rule 1
fn crafted_65() -> Vec<RuleN> {
    let mut rules: Vec<RuleN> = (0..64).map(|k| RuleN { boxes: vec![vec![(2, Some(-1000 + 20 * k), Some(-1000 + 20 * k + 12))]], subs: vec![(2 * k as usize, 2 * k as usize + 1)] }).collect();
    rules.push(RuleN { boxes: vec![vec![(2, Some(-980), Some(-974))], vec![(2, Some(-974), Some(-968))]], subs: vec![(128, 129)] });
    rules
}

/// 65 rules that do not panic: rule 0 covers a wide interval, rule 64 an interval inside it, the
/// other 63 are disjoint from both.  The box of {0, 64} has a two-word rank.
fn crafted_65b() -> Vec<RuleN> {
    let mut rules: Vec<RuleN> = vec![RuleN { boxes: vec![vec![(2, Some(-1000), Some(-400))]], subs: vec![(0, 1)] }];
    for k in 1..64i64 {
        rules.push(RuleN { boxes: vec![vec![(2, Some(-360 + 20 * k), Some(-360 + 20 * k + 12))]], subs: vec![(2 * k as usize, 2 * k as usize + 1)] });
    }
    rules.push(RuleN { boxes: vec![vec![(2, Some(-800), Some(-600))]], subs: vec![(128, 129)] });
    rules
}

// ---- stage E: through the compiler ------------------------------------------------------------
/// stage E works in units of 1/(16384 * 1000): every normalized value of the generated axes
/// (0..1024 or 0..1000, default at an end or in the middle) is an integer then, F2Dot14 grid points
/// are the multiples of KQ, and the model's to_f2dot14 rounding is exercised on the 0..1000 axes
const KQ: i64 = 1000;
const UE: i64 = 16384 * KQ;

/// F2Dot14::from_f64 on a value given in 1/UE units: round half away from zero
fn q14(z: i64) -> i64 {
    let q = if z >= 0 { (2 * z + KQ) / (2 * KQ) } else { -((-2 * z + KQ) / (2 * KQ)) };
    q.clamp(-32768, 32767)
}

#[derive(Clone, Debug)]
struct AxisE {
    tag: usize,   // index into TAGS
    dflt: i64,    // 0, max/2 or max on an axis 0..max
    max: i64,     // 1024 or 1000
}
impl AxisE {
    fn dom(&self) -> (i64, i64) {
        (if self.dflt == 0 { 0 } else { -UE }, if self.dflt == self.max { 0 } else { UE })
    }
    /// design -> normalized, in 1/UE units, as DesignCoord::to_normalized computes it
    /// (linear inside the axis range, offset by the end point outside of it)
    fn norm(&self, v: i64) -> i64 {
        let (lo_n, hi_n) = self.dom();
        if v < 0 {
            v * UE + lo_n
        } else if v > self.max {
            (v - self.max) * UE + hi_n
        } else if v <= self.dflt {
            if self.dflt == 0 { 0 } else { (v - self.dflt) * (UE / self.dflt) }
        } else {
            (v - self.dflt) * (UE / (self.max - self.dflt))
        }
    }
}

#[derive(Clone, Debug)]
struct RuleD {
    /// (axis position in the design, min, max) in design units
    condsets: Vec<Vec<(usize, Option<i64>, Option<i64>)>>,
    subs: SubMap,
}

struct CaseE {
    axes: Vec<AxisE>,
    rules: Vec<RuleD>,
    last: bool,
    nglyphs: usize,
}

fn gen_case_e(rng: &mut Rng, nrules: usize, messy: bool) -> CaseE {
    let naxes = rng.range(1, 3) as usize;
    let mut tags: Vec<usize> = vec![0, 1, 2];
    rng.shuffle(&mut tags);
    let axes: Vec<AxisE> = tags[..naxes]
        .iter()
        .map(|t| {
            let max = if rng.chance(1, 3) { 1000 } else { 1024 };
            AxisE { tag: *t, dflt: *rng.pick(&[0, 0, max / 2, max / 2, max]), max }
        })
        .collect();
    let pools: Vec<Vec<i64>> = axes
        .iter()
        .map(|ax| {
            let k = rng.range(2, 4) as usize;
            // on a 0..1000 axis the edges do not fall on the F2Dot14 grid
            let mut v: Vec<i64> = (0..k).map(|_| if ax.max == 1000 { rng.range(1, 999) } else { rng.range(1, 15) * 64 }).collect();
            v.push(0);
            v.push(ax.max);
            if rng.chance(1, 2) {
                v.push(ax.max / 2);
            }
            v
        })
        .collect();
    let bound = |rng: &mut Rng, a: usize| -> Option<i64> {
        match rng.below(16) {
            0..=3 => None,
            4 => Some(if rng.chance(1, 2) { -64 } else { 1088 }),
            _ => Some(*rng.pick(&pools[a])),
        }
    };
    let mut rules: Vec<RuleD> = Vec::new();
    for i in 0..nrules {
        let condsets = if i > 0 && rng.chance(1, 8) {
            rules[rng.below(i as u64) as usize].condsets.clone()
        } else if rng.chance(1, 40) {
            Vec::new()
        } else {
            let k = match rng.below(10) {
                0..=6 => 1,
                7..=8 => 2,
                _ => 3,
            };
            (0..k)
                .map(|_| {
                    let mut cs = Vec::new();
                    for a in 0..naxes {
                        if !rng.chance(3, 5) {
                            continue;
                        }
                        let (mut mn, mut mx) = (bound(rng, a), bound(rng, a));
                        if mn.is_none() && mx.is_none() {
                            mn = Some(*rng.pick(&pools[a])); // the front end rejects a condition without bounds
                        }
                        if let (Some(x), Some(y)) = (mn, mx) {
                            if x > y && !rng.chance(1, 30) {
                                mn = Some(y);
                                mx = Some(x);
                            }
                            if x == y && !rng.chance(1, 12) {
                                mx = Some(x + 64);
                            }
                        }
                        if mn.is_some() && mx.is_some() && rng.chance(1, 25) {
                            // the same range written as two conditions on the axis
                            cs.push((a, mn, None));
                            cs.push((a, None, mx));
                        } else {
                            cs.push((a, mn, mx));
                        }
                    }
                    cs
                })
                .collect()
        };
        let subs: SubMap = if i > 0 && rng.chance(1, 8) {
            rules[rng.below(i as u64) as usize].subs.clone()
        } else if messy {
            let ng = 2 * nrules.max(3);
            let mut m = BTreeMap::new();
            for _ in 0..rng.range(1, 2) {
                let a = rng.below(ng as u64) as usize;
                let mut b = rng.below(ng as u64) as usize;
                if b == a {
                    b = (a + 1) % ng;
                }
                m.insert(a, b);
            }
            m.into_iter().collect()
        } else {
            vec![(2 * i, 2 * i + 1)]
        };
        rules.push(RuleD { condsets, subs });
    }
    CaseE { axes, rules, last: rng.chance(1, 3), nglyphs: 2 * nrules.max(3) }
}

/// turn 2-3 rules of a generated design into rules of one and the same region (written identically,
/// with the condition sets in another order, or with a redundant condition covering a whole axis)
/// that replace one glyph differently
fn make_same_region(rng: &mut Rng, c: &mut CaseE) {
    let n = c.rules.len();
    if n < 2 {
        return;
    }
    // ordinary, pairwise different maps first
    for (i, r) in c.rules.iter_mut().enumerate() {
        r.subs = vec![(2 * i, 2 * i + 1)];
    }
    let mut region = c.rules.iter().map(|r| r.condsets.clone()).find(|cs| cs.iter().any(|b| !b.is_empty())).unwrap_or_else(|| vec![vec![(0, Some(256), Some(768))]]);
    if rng.chance(1, 2) {
        let extra = c.rules[rng.below(n as u64) as usize].condsets.clone();
        region.extend(extra);
    }
    let k = (rng.range(2, 3) as usize).min(n);
    let mut pos: Vec<usize> = (0..n).collect();
    rng.shuffle(&mut pos);
    let mut twins: Vec<usize> = pos[..k].to_vec();
    twins.sort();
    let g = 2 * twins[0];
    for (j, &t) in twins.iter().enumerate() {
        let mut b = region.clone();
        match rng.below(3) {
            0 => {}
            1 => rng.shuffle(&mut b),
            _ => {
                for cs in b.iter_mut() {
                    if let Some(a) = (0..c.axes.len()).find(|a| cs.iter().all(|x| x.0 != *a)) {
                        cs.push((a, Some(-64), Some(c.axes[a].max + 64)));
                    }
                }
            }
        }
        let mut m = vec![(g, 2 * t + 1)];
        if j > 0 && rng.chance(1, 2) {
            m.push((2 * t, 2 * t + 1));
        }
        m.sort();
        m.dedup();
        c.rules[t] = RuleD { condsets: b, subs: m };
    }
}

impl CaseE {
    /// the rules as the back end sees them: normalized boxes keyed by tag
    fn normalized(&self) -> Vec<RuleN> {
        self.rules
            .iter()
            .map(|r| RuleN {
                boxes: r
                    .condsets
                    .iter()
                    .map(|cs| {
                        // the IR ConditionSet sorts its conditions by (axis tag, min, max), None first; the
                        // back end then inserts them into an NBox one by one (a later one for the same axis
                        // replaces the earlier)
                        let mut cs: Vec<(usize, Option<i64>, Option<i64>)> = cs.clone();
                        cs.sort_by_key(|(a, mn, mx)| (self.axes[*a].tag, *mn, *mx));
                        cs.iter().map(|(a, mn, mx)| (self.axes[*a].tag, mn.map(|v| self.axes[*a].norm(v)), mx.map(|v| self.axes[*a].norm(v)))).collect()
                    })
                    .collect(),
                subs: r.subs.clone(),
            })
            .collect()
    }
    fn design(&self, idx: usize) -> Design {
        let mut d = Design { family: format!("C16F{idx}"), upem: 1000, ..Default::default() };
        for ax in &self.axes {
            d.axes.push(AxisSrc { name: AXNAMES[ax.tag].into(), tag: TAGS[ax.tag].into(), min: 0.0, default: ax.dflt as f64, max: ax.max as f64, map: vec![], hidden: false });
        }
        let glyphs = |w: f64| -> Vec<GlyphSrc> {
            let mut v = vec![GlyphSrc::new(".notdef", 500.0).rect(50.0, 0.0, 450.0, 700.0)];
            for g in 0..self.nglyphs {
                let mut gs = GlyphSrc::new(&gname(g), 400.0 + w + g as f64).rect(40.0, 0.0, 300.0 + w + 3.0 * g as f64, 500.0 + (g % 2) as f64 * 100.0);
                if g % 2 == 0 && g / 2 < 26 {
                    gs = gs.uni(0x61 + (g / 2) as u32);
                }
                v.push(gs);
            }
            v
        };
        let order: Vec<String> = std::iter::once(".notdef".to_string()).chain((0..self.nglyphs).map(gname)).collect();
        let defloc: Vec<(String, f64)> = self.axes.iter().map(|a| (AXNAMES[a.tag].to_string(), a.dflt as f64)).collect();
        d.masters.push(Master { name: "M0".into(), style: "Regular".into(), location: defloc.clone(), glyphs: glyphs(0.0), glyph_order: Some(order.clone()), ..Default::default() });
        let mut k = 1;
        for (i, a) in self.axes.iter().enumerate() {
            for end in [0i64, a.max] {
                if end == a.dflt {
                    continue;
                }
                let mut loc = defloc.clone();
                loc[i].1 = end as f64;
                d.masters.push(Master { name: format!("M{k}"), style: format!("S{k}"), location: loc, glyphs: glyphs(20.0 * k as f64), glyph_order: Some(order.clone()), ..Default::default() });
                k += 1;
            }
        }
        d.rules_processing_last = self.last;
        for (i, r) in self.rules.iter().enumerate() {
            d.rules.push(RuleSrc {
                name: format!("r{i}"),
                condsets: r.condsets.iter().map(|cs| cs.iter().map(|(a, mn, mx)| (AXNAMES[self.axes[*a].tag].to_string(), mn.map(|v| v as f64), mx.map(|v| v as f64))).collect()).collect(),
                subs: r.subs.iter().map(|(a, b)| (gname(*a), gname(*b))).collect(),
            });
        }
        d
    }
}

/// the part of GSUB the property is about
struct FontFv {
    lookups: Vec<SubMap>,
    /// per FeatureVariationRecord: conditions (axis index, min bits, max bits), lookup indices of the alternate feature
    records: Vec<(Vec<(u16, i64, i64)>, Vec<u16>)>,
}

fn decode(bytes: &[u8], feature: &[u8; 4]) -> Result<FontFv, String> {
    let font = FontRef::new(bytes).map_err(|e| format!("font unreadable: {e}"))?;
    let post = font.post().map_err(|e| format!("post: {e}"))?;
    let name_of = |g: GlyphId16| -> Result<usize, String> {
        let n = post.glyph_name(g).ok_or_else(|| format!("no post name for gid {}", g.to_u16()))?;
        gid_of(n).ok_or_else(|| format!("unexpected glyph {n} in a substitution"))
    };
    let gsub = match font.gsub() {
        Ok(g) => g,
        Err(_) => return Ok(FontFv { lookups: vec![], records: vec![] }),
    };
    let mut lookups = Vec::new();
    let ll = gsub.lookup_list().map_err(|e| e.to_string())?;
    for lk in ll.lookups().iter() {
        let lk = lk.map_err(|e| e.to_string())?;
        let SubstitutionSubtables::Single(subs) = lk.subtables().map_err(|e| e.to_string())? else {
            return Err("GSUB lookup that is not a single substitution".into());
        };
        let mut m: BTreeMap<usize, usize> = BTreeMap::new();
        for st in subs.iter() {
            match st.map_err(|e| e.to_string())? {
                SingleSubst::Format1(f) => {
                    let d = f.delta_glyph_id() as i32;
                    for g in f.coverage().map_err(|e| e.to_string())?.iter() {
                        let to = GlyphId16::new(((g.to_u16() as i32 + d) & 0xffff) as u16);
                        m.entry(name_of(g)?).or_insert(name_of(to)?);
                    }
                }
                SingleSubst::Format2(f) => {
                    for (g, to) in f.coverage().map_err(|e| e.to_string())?.iter().zip(f.substitute_glyph_ids()) {
                        m.entry(name_of(g)?).or_insert(name_of(to.get())?);
                    }
                }
            }
        }
        lookups.push(m.into_iter().collect());
    }
    let fl = gsub.feature_list().map_err(|e| e.to_string())?;
    let mut feat_idx = Vec::new();
    for (i, fr) in fl.feature_records().iter().enumerate() {
        if fr.feature_tag() == Tag::new(feature) {
            feat_idx.push(i as u16);
            let f = fr.feature(fl.offset_data()).map_err(|e| e.to_string())?;
            if !f.lookup_list_indices().is_empty() {
                return Err("the default feature table already has lookups".into());
            }
        }
    }
    let mut records = Vec::new();
    if let Some(fv) = gsub.feature_variations() {
        let fv = fv.map_err(|e| e.to_string())?;
        for rec in fv.feature_variation_records() {
            let mut conds = Vec::new();
            if let Some(cs) = rec.condition_set(fv.offset_data()) {
                let cs = cs.map_err(|e| e.to_string())?;
                for c in cs.conditions().iter() {
                    match c.map_err(|e| e.to_string())? {
                        Condition::Format1AxisRange(c) => conds.push((c.axis_index(), c.filter_range_min_value().to_bits() as i64, c.filter_range_max_value().to_bits() as i64)),
                        _ => return Err("condition that is not an axis range".into()),
                    }
                }
            }
            let fts = rec.feature_table_substitution(fv.offset_data()).ok_or("record without substitution table")?.map_err(|e| e.to_string())?;
            let mut per_feature: Vec<(u16, Vec<u16>)> = Vec::new();
            for s in fts.substitutions() {
                let alt = s.alternate_feature(fts.offset_data()).map_err(|e| e.to_string())?;
                per_feature.push((s.feature_index(), alt.lookup_list_indices().iter().map(|x| x.get()).collect()));
            }
            let mut idx: Vec<u16> = per_feature.iter().map(|x| x.0).collect();
            idx.sort();
            if idx != feat_idx {
                return Err(format!("record substitutes features {idx:?} but the {} features are {feat_idx:?}", String::from_utf8_lossy(feature)));
            }
            if per_feature.windows(2).any(|w| w[0].1 != w[1].1) {
                return Err("alternate features of one record differ".into());
            }
            records.push((conds, per_feature.first().map(|x| x.1.clone()).unwrap_or_default()));
        }
    }
    Ok(FontFv { lookups, records })
}

fn stage_e_case(rng: &mut Rng, t: &mut Tally, id: &mut usize, idx: usize, kind: &str, c: &CaseE, cap: usize) {
    let rules = c.normalized();
    let d = c.design(idx);
    let dir = scratch_dir("c16");
    let path = d.write_designspace(dir.path());
    let out = compile_path(&path, None, None);
    let input = json!({"designspace": d.designspace_xml(), "normalized_rules": rules_json(&rules, UE)});
    // points live in the space of all three tags; axes the design does not have stay at 0
    let mut doms = vec![(0i64, 0i64); 3];
    for a in &c.axes {
        doms[a.tag] = a.dom();
    }
    let pts = points(rng, &rules, &doms, UE, KQ, cap);
    let env = coq_list(&c.axes.iter().enumerate().collect::<Vec<_>>(), |(i, a)| {
        format!("({}, {{| ax_index := {}; ax_minq := {}; ax_maxq := {} |}})", coq_n(a.tag as u64 + 1), coq_n(*i as u64), coq_z(a.dom().0 / KQ), coq_z(a.dom().1 / KQ))
    });
    let model = format!("compile_rules {} {} {}", coq_z(UE), env, coq_rules_with(&rules, UE, "box_of_conditions"));
    *t.kinds.entry(kind.to_string()).or_insert(0) += 1;
    let nontrivial = rules.len() >= 2 && overlaps_somewhere(&rules, &pts, UE);
    let mut finish = |expect: String, extra: serde_json::Value| {
        emit_case(*id, kind, format!("gsub_res_eqb ({model}) {expect}"), Some(model.clone()), nontrivial, format!("{:?}{:?}", c.axes, c.rules), extra);
        *id += 1;
    };
    let bytes = match out {
        Outcome::Font(b) => b,
        Outcome::Error(e) | Outcome::Panic(e) => {
            if e.contains("panick") || e.contains("index out of bounds") {
                let key = if rules.len() >= 65 { "overlay-panic-ge-65-rules" } else { "compile-panic" };
                t.viol(key, format!("fontc fails on a designspace with {} rules: {}", rules.len(), e), json!({"stage": "compile", "error": e, "input": input}));
                finish("None".into(), json!({"rules": rules.len(), "impl": "panic"}));
            } else {
                t.viol("compile-error-on-valid-rules", format!("fontc rejects a valid designspace with rules: {e}"), json!({"stage": "compile", "error": e, "input": input}));
            }
            return;
        }
    };
    let fv = match decode(&bytes, if c.last { b"rclt" } else { b"rvrn" }) {
        Ok(f) => f,
        Err(e) => {
            t.viol("gsub-feature-variations-malformed", e.clone(), json!({"stage": "compile", "error": e, "input": input}));
            return;
        }
    };
    // the real overlay on the same rules, to recognise ConditionSet collisions
    let rules_i = intersected(&rules);
    let items = run_overlay(&rules_i, UE).unwrap_or_default();
    let dropped = |a: usize, mn: i64, mx: i64| c.axes.iter().any(|ax| ax.tag == a && (q14(ax.dom().0), q14(ax.dom().1)) == (q14(mn), q14(mx)));
    let cs_of = |b: &BoxN| -> Vec<(usize, i64, i64)> { b.iter().filter(|(a, mn, mx)| !dropped(*a, *mn, *mx)).map(|(a, mn, mx)| (*a, q14(*mn), q14(*mx))).collect() };
    let collision_at = |p: &[i64]| -> Option<&'static str> {
        let i = items.iter().position(|(b, _)| in_box(p, b))?;
        let cs = cs_of(&items[i].0);
        items.iter().enumerate().any(|(j, (b, _))| j != i && cs_of(b) == cs).then_some("condset-collision-fullrange")
    };
    let font = |p: &[i64]| -> Option<Vec<SubMap>> {
        let rec = fv.records.iter().find(|(conds, _)| conds.iter().all(|(ai, mn, mx)| {
            let v = c.axes.get(*ai as usize).map(|a| p[a.tag] / KQ).unwrap_or(0);
            *mn <= v && v <= *mx
        }))?;
        let mut idx = rec.1.clone();
        idx.sort();
        idx.dedup();
        Some(idx.iter().filter_map(|i| fv.lookups.get(*i as usize).cloned()).collect())
    };
    check_points(t, "font", &rules, &pts, UE, c.nglyphs, &font, &collision_at, &input, true, &c.axes.iter().map(|a| a.tag).collect::<Vec<_>>());
    let expect = format!(
        "(Some ({}, {}))",
        coq_list(&fv.lookups, coq_submap),
        coq_list(&fv.records, |(conds, idx)| format!(
            "({}, {})",
            coq_list(conds, |(ai, mn, mx)| format!("({}, ({}, {}))", coq_n(*ai as u64), coq_z(*mn), coq_z(*mx))),
            coq_list(idx, |i| coq_n(*i as u64))
        ))
    );
    finish(expect, json!({"rules": rules.len(), "points": pts.len(), "records": fv.records.len(), "lookups": fv.lookups.len()}));
}

fn main() {
    let args: Vec<String> = std::env::args().collect();
    let args = &args[1..];
    let seed = arg_val(args, "--seed", 1);
    let n = arg_val(args, "--n", 300) as usize;
    let ne = arg_val(args, "--e2e", 40) as usize;
    let nbig = arg_val(args, "--big", 2) as usize;
    quiet_panics();
    let mut rng = Rng::new(seed);
    let mut t = Tally { emitted: BTreeMap::new(), points: 0, kinds: BTreeMap::new(), mism: BTreeMap::new(), order_dependent_skipped: 0, same_region_conflict_points: 0 };
    let mut id = 0usize;

    // ---- stage E: designspace <rules> through the compiler ----
    // the three situations of DESIGN.md 6.4 first, then generated designs
    let fixed: Vec<(&str, CaseE)> = vec![
        (
            "font-fullrange-condition",
            CaseE {
                axes: vec![AxisE { tag: 2, dflt: 0, max: 1024 }, AxisE { tag: 1, dflt: 512, max: 1024 }],
                rules: vec![
                    RuleD { condsets: vec![vec![(1, Some(896), None)]], subs: vec![(0, 1)] },
                    RuleD { condsets: vec![vec![(0, Some(0), Some(1024)), (1, Some(896), None)]], subs: vec![(2, 3)] },
                ],
                last: false,
                nglyphs: 6,
            },
        ),
        (
            "font-conflicting-subs",
            CaseE {
                axes: vec![AxisE { tag: 2, dflt: 0, max: 1024 }, AxisE { tag: 1, dflt: 512, max: 1024 }],
                rules: vec![
                    RuleD { condsets: vec![vec![(1, Some(896), None)]], subs: vec![(0, 2)] },
                    RuleD { condsets: vec![vec![(0, Some(512), None)]], subs: vec![(0, 1)] },
                ],
                last: false,
                nglyphs: 6,
            },
        ),
    ];
    let one_axis = |rules: Vec<RuleD>| CaseE { axes: vec![AxisE { tag: 2, dflt: 0, max: 1024 }], rules, last: false, nglyphs: 6 };
    let mut fixed = fixed;
    // wght <= 512 and wght >= 512 both hold at 512
    fixed.push(("font-touching-edges", one_axis(vec![
        RuleD { condsets: vec![vec![(0, None, Some(512))]], subs: vec![(0, 1)] },
        RuleD { condsets: vec![vec![(0, Some(512), None)]], subs: vec![(2, 3)] },
    ])));
    // a rule without any condition set never fires; the rules around it must be unaffected
    fixed.push(("font-rule-without-conditionset", one_axis(vec![
        RuleD { condsets: vec![vec![(0, Some(512), None)]], subs: vec![(0, 1)] },
        RuleD { condsets: vec![], subs: vec![(2, 3)] },
        RuleD { condsets: vec![vec![(0, None, Some(256))]], subs: vec![(4, 5)] },
    ])));
    // rule 0: g01 -> g02, rule 1: g00 -> g01 (in rule order g00 ends as g01)
    fixed.push(("font-chained-subs", one_axis(vec![
        RuleD { condsets: vec![vec![(0, Some(512), None)]], subs: vec![(2, 4)] },
        RuleD { condsets: vec![vec![(0, Some(256), None)]], subs: vec![(0, 2)] },
    ])));
    // two rules on one region replace g00 differently; a third, elsewhere, in between
    fixed.push(("font-same-region-conflict", CaseE {
        axes: vec![AxisE { tag: 2, dflt: 0, max: 1024 }, AxisE { tag: 1, dflt: 512, max: 1024 }],
        rules: vec![
            RuleD { condsets: vec![vec![(0, Some(512), Some(768))], vec![(1, Some(896), None)]], subs: vec![(0, 1)] },
            RuleD { condsets: vec![vec![(0, None, Some(256))]], subs: vec![(4, 5)] },
            RuleD { condsets: vec![vec![(1, Some(896), Some(1088))], vec![(0, Some(512), Some(768)), (1, Some(-64), Some(1088))]], subs: vec![(0, 3), (2, 3)] },
        ],
        last: false,
        nglyphs: 6,
    }));
    // a range written as two conditions: wght >= 256 and wght <= 768
    fixed.push(("font-two-conditions-on-one-axis", one_axis(vec![
        RuleD { condsets: vec![vec![(0, Some(256), None), (0, None, Some(768))]], subs: vec![(0, 1)] },
    ])));
    for (i, (kind, c)) in fixed.iter().enumerate() {
        stage_e_case(&mut rng, &mut t, &mut id, 9000 + i, kind, c, 800);
    }
    for k in 0..ne {
        let nr = match rng.below(10) {
            0 => 1,
            1..=7 => rng.range(2, 5) as usize,
            _ => rng.range(6, 9) as usize,
        };
        let messy = k % 5 == 4;
        let same_region = k % 5 == 2;
        let mut c = gen_case_e(&mut rng, if same_region { nr.max(3) } else { nr }, messy);
        if same_region {
            make_same_region(&mut rng, &mut c);
        }
        stage_e_case(&mut rng, &mut t, &mut id, k, if same_region { "font-same-region-conflict" } else if messy { "font-messy-subs" } else { "font" }, &c, 800);
    }
    if nbig > 0 {
        // 65 rules through the compiler: the crafted list on the Weight axis
        let rules: Vec<RuleD> = crafted_65()
            .into_iter()
            .map(|r| RuleD { condsets: r.boxes.iter().map(|b| b.iter().map(|(_, mn, mx)| (0usize, mn.map(|v| (v + 1000) / 2), mx.map(|v| (v + 1000) / 2))).collect()).collect(), subs: r.subs })
            .collect();
        let c = CaseE { axes: vec![AxisE { tag: 2, dflt: 0, max: 1024 }], rules, last: false, nglyphs: 130 };
        stage_e_case(&mut rng, &mut t, &mut id, 9100, "font-ge-65-rules", &c, 800);
        let rules: Vec<RuleD> = crafted_65b()
            .into_iter()
            .map(|r| RuleD { condsets: r.boxes.iter().map(|b| b.iter().map(|(_, mn, mx)| (0usize, mn.map(|v| (v + 1000) / 2), mx.map(|v| (v + 1000) / 2))).collect()).collect(), subs: r.subs })
            .collect();
        let c = CaseE { axes: vec![AxisE { tag: 2, dflt: 0, max: 1024 }], rules, last: false, nglyphs: 130 };
        stage_e_case(&mut rng, &mut t, &mut id, 9101, "font-ge-65-rules", &c, 800);
    }
    // ---- stage A: overlay_feature_variations directly ----
    for k in 0..n {
        let naxes = rng.range(1, 3) as usize;
        let (u, step) = *rng.pick(&[(16i64, 1i64), (64, 1), (64, 4), (16384, 512)]);
        let cfg = GenCfg { naxes, u, step };
        let nr = match rng.below(10) {
            0 => 1,
            1..=6 => rng.range(2, 5) as usize,
            7..=8 => rng.range(6, 8) as usize,
            _ => rng.range(9, 12) as usize,
        };
        let messy = k % 4 == 3;
        let same_region = k % 6 == 5;
        let rules = if same_region { gen_same_region_rules(&mut rng, &cfg, nr) } else { gen_rules(&mut rng, &cfg, nr, messy, true) };
        let kind = if same_region { "overlay-same-region-conflict" } else if messy { "overlay-messy-subs" } else { "overlay" };
        stage_a_case(&mut rng, &mut t, &mut id, kind, &cfg, rules, 1500);
    }
    // 63 / 64 rules: the last sizes one machine word holds
    for nr in [63usize, 64] {
        let cfg = GenCfg { naxes: 1, u: 1024, step: 1 };
        let rules = gen_rules(&mut rng, &cfg, nr, false, false);
        stage_a_case(&mut rng, &mut t, &mut id, "overlay-63-64-rules", &cfg, rules, 1500);
    }
    // >= 65 rules
    {
        let cfg = GenCfg { naxes: 3, u: 1024, step: 1 };
        stage_a_case(&mut rng, &mut t, &mut id, "overlay-ge-65-rules", &cfg, crafted_65(), 1500);
        stage_a_case(&mut rng, &mut t, &mut id, "overlay-ge-65-rules", &cfg, crafted_65b(), 1500);
    }
    for _ in 0..nbig {
        let cfg = GenCfg { naxes: 1, u: 1024, step: 1 };
        let nr = rng.range(65, 70) as usize;
        let rules = gen_rules(&mut rng, &cfg, nr, false, false);
        stage_a_case(&mut rng, &mut t, &mut id, "overlay-ge-65-rules", &cfg, rules, 1500);
    }

    emit_stat(json!({"locations_checked": t.points, "extra_evaluations": t.points, "case_kinds": t.kinds, "predicate_failures_by_key": t.mism,
        "overlay_stage_locations_with_order_dependent_rules_left_to_font_stage": t.order_dependent_skipped,
        "locations_inside_a_region_shared_by_conflicting_rules_judged": t.same_region_conflict_points}));
}
