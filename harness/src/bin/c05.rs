//! C05: every emitted font is a well-formed, internally consistent OpenType file.
//!
//! Streams (all randomness from one Rng):
//!  T  every compilable source under /repo/resources/testdata
//!  L  fixed limit cases (0/1/many glyphs, deep nesting, shared DAGs, empty glyphs, wide composites)
//!  G  generated sources over the table mixes (static/variable, kerning, marks, GSUB features with
//!     names, FEA tables, vertical metrics, rules, avar maps, MVAR) and option sets
//!  P  probes for tables that fail to serialise (bytes_for -> None) and for post strings
//!  M  mutants of emitted fonts / decoded fonts (checker must reject; not fontc outputs)
//! Every emitted font is checked by a Rust predicate written here (directory by hand, tables through
//! read-fonts) and by the Coq checkers on the same data; the container is also rebuilt by the Coq
//! model of FontBuilder and compared word for word.
use serde_json::json;
use std::collections::{BTreeMap, BTreeSet};
use vh::sfnt::{self, be16, be32};
use vh::srcgen::*;
use vh::*;
use write_fonts::read::tables::glyf::Glyph as RGlyph;
use write_fonts::read::tables::layout::{Condition, FeatureList, FeatureParams, FeatureVariations, ScriptList};
use write_fonts::read::traversal::{FieldType, SomeTable};
use write_fonts::read::{FontRef, TableProvider};
use write_fonts::types::GlyphId;

// ---------------------------------------------------------------------------------------------
// decoded font (mirror of FV.C05.Model.font_abs)

#[derive(Clone, Debug, Default)]
struct Store {
    axes: u64,
    regions: u64,
    data: Vec<(u64, Vec<u64>)>,
}
#[derive(Clone, Debug, Default)]
struct Lookup {
    glyphs: Vec<u64>,
    nested: Vec<u64>,
    markset: Option<u64>,
    varidx: Vec<(u64, u64)>,
}
#[derive(Clone, Debug, Default)]
struct FvRec {
    axes: Vec<u64>,
    subst: Vec<(u64, Vec<u64>)>,
}
#[derive(Clone, Debug, Default)]
struct Layout {
    langsys: Vec<(Option<u64>, Vec<u64>)>,
    features: Vec<Vec<u64>>,
    lookups: Vec<Lookup>,
    fvars: Vec<FvRec>,
}
#[derive(Clone, Debug, Default)]
struct Gdef {
    glyphs: Vec<u64>,
    marksets: u64,
    store: Option<Store>,
    varidx: Vec<(u64, u64)>,
}
#[derive(Clone, Debug)]
enum Glyph {
    Empty,
    Simple(u64, u64),
    Composite(Vec<u64>),
}
#[derive(Clone, Debug, Default)]
struct Maxp {
    glyphs: u64,
    pts: u64,
    ctrs: u64,
    cpts: u64,
    cctrs: u64,
    elems: u64,
    depth: u64,
}
type MetricVar = (Store, Option<Vec<(u64, u64)>>);
#[derive(Clone, Debug, Default)]
struct Abs {
    maxp: Maxp,
    glyphs: Vec<Glyph>,
    hmtx: (u64, u64),
    vmtx: Option<(u64, u64)>,
    post: Option<(Vec<u64>, u64)>,
    cmap: Vec<u64>,
    name_ids: Vec<u64>,
    name_refs: Vec<u64>,
    fvar: Option<u64>,
    avar: Option<u64>,
    gvar: Option<(u64, u64)>,
    hvar: Option<MetricVar>,
    vvar: Option<MetricVar>,
    mvar: Option<(Store, Vec<(u64, u64)>)>,
    stat: Option<(u64, Vec<u64>)>,
    gdef: Option<Gdef>,
    gsub: Option<Layout>,
    gpos: Option<Layout>,
}

fn dedup(mut v: Vec<u64>) -> Vec<u64> {
    v.sort_unstable();
    v.dedup();
    v
}
fn dedup2(mut v: Vec<(u64, u64)>) -> Vec<(u64, u64)> {
    v.sort_unstable();
    v.dedup();
    v
}

// ---------------------------------------------------------------------------------------------
// generic walk over a parsed table (read-fonts traversal): every offset must resolve; collects
// glyph ids, nested lookup indices, VariationIndex pairs, name ids, mark filtering sets

#[derive(Default)]
struct Walk {
    glyphs: Vec<u64>,
    nested: Vec<u64>,
    varidx: Vec<(u64, u64)>,
    name_ids: Vec<u64>,
    marksets: Vec<u64>,
    errors: Vec<String>,
    nodes: usize,
    expand_ranges: bool,
    in_pairset: usize,
    path: Vec<String>,
}

fn fields<'a>(t: &(dyn SomeTable<'a> + 'a)) -> Vec<(&'static str, FieldType<'a>)> {
    let mut v = Vec::new();
    let mut i = 0;
    while let Some(f) = t.get_field(i) {
        v.push((f.name, f.value));
        i += 1;
        if i > 100_000 {
            break;
        }
    }
    v
}

fn scalar(v: &FieldType) -> Option<i64> {
    Some(match v {
        FieldType::I8(x) => *x as i64,
        FieldType::U8(x) => *x as i64,
        FieldType::I16(x) => *x as i64,
        FieldType::U16(x) => *x as i64,
        FieldType::I32(x) => *x as i64,
        FieldType::U32(x) => *x as i64,
        FieldType::GlyphId16(g) => g.to_u16() as i64,
        FieldType::NameId(n) => n.to_u16() as i64,
        _ => return None,
    })
}

fn walk_table<'a>(t: &(dyn SomeTable<'a> + 'a), w: &mut Walk, depth: usize) {
    w.nodes += 1;
    if depth > 64 || w.nodes > 4_000_000 {
        if w.errors.len() < 5 {
            w.errors.push("table graph too deep or too large".into());
        }
        return;
    }
    let tn = t.type_name().to_string();
    let fs = fields(t);
    let get = |n: &str| fs.iter().find(|(k, _)| *k == n).and_then(|(_, v)| scalar(v));
    match tn.as_str() {
        "VariationIndex" => {
            if let (Some(o), Some(i)) = (get("delta_set_outer_index"), get("delta_set_inner_index")) {
                w.varidx.push((o as u64, i as u64));
            }
        }
        "ClassDefFormat1" => {
            // glyph ids start .. start + count - 1
            let count = fs.iter().find(|(k, _)| *k == "class_value_array").map(|(_, v)| match v {
                FieldType::Array(a) => a.len(),
                _ => 0,
            });
            if let (Some(s), Some(c)) = (get("start_glyph_id"), count) {
                if c > 0 {
                    w.glyphs.push(s as u64 + c as u64 - 1);
                }
            }
        }
        "RangeRecord" if w.expand_ranges => {
            if let (Some(s), Some(e)) = (get("start_glyph_id"), get("end_glyph_id")) {
                for g in s..=e {
                    w.glyphs.push(g as u64);
                }
            }
        }
        "SingleSubstFormat1" => {
            // substitutes are (covered glyph + delta) mod 65536
            let delta = get("delta_glyph_id").unwrap_or(0);
            let mut cw = Walk { expand_ranges: true, ..Default::default() };
            for (n, v) in fields(t) {
                if n == "coverage_offset" {
                    walk_value(n, v, &tn, &mut cw, depth + 1);
                }
            }
            for g in cw.glyphs {
                w.glyphs.push(((g as i64 + delta).rem_euclid(65536)) as u64);
            }
        }
        _ => {}
    }
    // read-fonts' traversal resolves the device offsets of a PairSet's value records against the
    // wrong base (they are relative to the PairSet); those are read by hand in value_devices
    if tn == "PairSet" {
        w.in_pairset += 1;
    }
    w.path.push(tn.clone());
    for (n, v) in fs {
        walk_value(n, v, &tn, w, depth);
    }
    w.path.pop();
    if tn == "PairSet" {
        w.in_pairset -= 1;
    }
}

/// VariationIndex tables reached from GPOS value records (SinglePos, PairPos), per lookup.
/// read-fonts' generic traversal resolves these device offsets against the wrong base for
/// records nested in records, so they are read by hand: relative to the subtable, except in a
/// PairPosFormat1 where they are relative to the PairSet.
fn value_devices(g: &[u8]) -> Result<Vec<(usize, (u64, u64))>, String> {
    let e = || "GPOS value records truncated".to_string();
    let mut out = Vec::new();
    let size = |vf: u32| 2 * vf.count_ones() as usize;
    // reads one value record at q, devices relative to base
    let rec = |q: &mut usize, vf: u32, base: usize, k: usize, out: &mut Vec<(usize, (u64, u64))>| -> Result<(), String> {
        for bit in 0..8 {
            if vf & (1 << bit) == 0 {
                continue;
            }
            let v = be16(g, *q).ok_or_else(e)? as usize;
            *q += 2;
            if bit >= 4 && v != 0 {
                let d = base + v;
                let fmt = be16(g, d + 4).ok_or("value record device offset outside GPOS")?;
                if fmt == 0x8000 {
                    out.push((k, (be16(g, d).ok_or_else(e)? as u64, be16(g, d + 2).ok_or_else(e)? as u64)));
                } else if !(1..=3).contains(&fmt) {
                    return Err(format!("value record device table with format {fmt:#x}"));
                }
            }
        }
        Ok(())
    };
    let ll = be16(g, 8).ok_or_else(e)? as usize;
    let nl = be16(g, ll).ok_or_else(e)? as usize;
    for k in 0..nl {
        let lo = ll + be16(g, ll + 2 + 2 * k).ok_or_else(e)? as usize;
        let ty = be16(g, lo).ok_or_else(e)?;
        let ns = be16(g, lo + 4).ok_or_else(e)? as usize;
        for s in 0..ns {
            let mut so = lo + be16(g, lo + 6 + 2 * s).ok_or_else(e)? as usize;
            let mut t = ty;
            if t == 9 {
                t = be16(g, so + 2).ok_or_else(e)?;
                so += be32(g, so + 4).ok_or_else(e)? as usize;
            }
            let fmt = be16(g, so).ok_or_else(e)?;
            match (t, fmt) {
                (1, 1) => {
                    let vf = be16(g, so + 4).ok_or_else(e)?;
                    let mut q = so + 6;
                    rec(&mut q, vf, so, k, &mut out)?;
                }
                (1, 2) => {
                    let vf = be16(g, so + 4).ok_or_else(e)?;
                    let n = be16(g, so + 6).ok_or_else(e)? as usize;
                    let mut q = so + 8;
                    for _ in 0..n {
                        rec(&mut q, vf, so, k, &mut out)?;
                    }
                }
                (2, 1) => {
                    let (vf1, vf2) = (be16(g, so + 4).ok_or_else(e)?, be16(g, so + 6).ok_or_else(e)?);
                    let np = be16(g, so + 8).ok_or_else(e)? as usize;
                    for p in 0..np {
                        let ps = so + be16(g, so + 10 + 2 * p).ok_or_else(e)? as usize;
                        let cnt = be16(g, ps).ok_or_else(e)? as usize;
                        let rl = 2 + size(vf1) + size(vf2);
                        for r in 0..cnt {
                            let mut q = ps + 2 + r * rl + 2;
                            rec(&mut q, vf1, ps, k, &mut out)?;
                            rec(&mut q, vf2, ps, k, &mut out)?;
                        }
                    }
                }
                (2, 2) => {
                    let (vf1, vf2) = (be16(g, so + 4).ok_or_else(e)?, be16(g, so + 6).ok_or_else(e)?);
                    let (c1, c2) = (be16(g, so + 12).ok_or_else(e)? as usize, be16(g, so + 14).ok_or_else(e)? as usize);
                    let mut q = so + 16;
                    for _ in 0..c1 * c2 {
                        rec(&mut q, vf1, so, k, &mut out)?;
                        rec(&mut q, vf2, so, k, &mut out)?;
                    }
                }
                _ => {}
            }
        }
    }
    Ok(out)
}

fn walk_value<'a>(name: &'static str, v: FieldType<'a>, parent: &str, w: &mut Walk, depth: usize) {
    match v {
        FieldType::GlyphId16(g) => w.glyphs.push(g.to_u16() as u64),
        FieldType::NameId(n) => w.name_ids.push(n.to_u16() as u64),
        FieldType::U16(x) if name == "lookup_list_index" => w.nested.push(x as u64),
        FieldType::U16(x) if name == "mark_filtering_set" => w.marksets.push(x as u64),
        FieldType::ResolvedOffset(_) if parent == "ValueRecord" => {}
        FieldType::BareOffset(_) if parent == "ValueRecord" => {}
        FieldType::ResolvedOffset(r) => match r.target {
            Ok(t) => walk_table(&*t, w, depth + 1),
            Err(e) => {
                if w.errors.len() < 5 {
                    w.errors.push(format!("{}.{name}: {e}", w.path.join("/")))
                }
            }
        },
        FieldType::ArrayOffset(a) => match a.target {
            Ok(arr) => {
                let n = arr.len();
                for i in 0..n {
                    if let Some(x) = arr.get(i) {
                        walk_value(name, x, parent, w, depth + 1);
                    }
                }
            }
            Err(e) => {
                if w.errors.len() < 5 {
                    w.errors.push(format!("{parent}.{name}: {e}"))
                }
            }
        },
        FieldType::StringOffset(s) => {
            if let Err(e) = s.target {
                if w.errors.len() < 5 {
                    w.errors.push(format!("{parent}.{name}: {e}"))
                }
            }
        }
        FieldType::Record(r) => walk_table(&r, w, depth + 1),
        FieldType::Array(arr) => {
            let n = arr.len();
            for i in 0..n {
                if let Some(x) = arr.get(i) {
                    walk_value(name, x, parent, w, depth);
                }
            }
        }
        _ => {}
    }
}

// ---------------------------------------------------------------------------------------------
// hand-written readers for the small variation structures

fn read_store(t: &[u8], off: usize) -> Result<Store, String> {
    let e = || "ItemVariationStore truncated".to_string();
    let fmt = be16(t, off).ok_or_else(e)?;
    if fmt != 1 {
        return Err(format!("ItemVariationStore format {fmt}"));
    }
    let rl = off + be32(t, off + 2).ok_or_else(e)? as usize;
    let n = be16(t, off + 6).ok_or_else(e)? as usize;
    let axes = be16(t, rl).ok_or_else(e)? as u64;
    let regions = be16(t, rl + 2).ok_or_else(e)? as u64;
    if rl + 4 + (axes * regions * 6) as usize > t.len() {
        return Err("VariationRegionList truncated".into());
    }
    let mut data = Vec::new();
    for i in 0..n {
        let o = be32(t, off + 8 + 4 * i).ok_or_else(e)? as usize;
        if o == 0 {
            data.push((0, vec![]));
            continue;
        }
        let d = off + o;
        let items = be16(t, d).ok_or_else(e)? as u64;
        let wdc = be16(t, d + 2).ok_or_else(e)?;
        let rc = be16(t, d + 4).ok_or_else(e)? as usize;
        let mut ris = Vec::new();
        for k in 0..rc {
            ris.push(be16(t, d + 6 + 2 * k).ok_or_else(e)? as u64);
        }
        let long = wdc & 0x8000 != 0;
        let wc = (wdc & 0x7fff) as usize;
        let (ws, ss) = if long { (4, 2) } else { (2, 1) };
        let row = wc.min(rc) * ws + rc.saturating_sub(wc) * ss;
        if d + 6 + 2 * rc + row * items as usize > t.len() {
            return Err("ItemVariationData delta sets run past the table".into());
        }
        data.push((items, ris));
    }
    Ok(Store { axes, regions, data })
}

fn read_dsim(t: &[u8], off: usize) -> Result<Vec<(u64, u64)>, String> {
    let e = || "DeltaSetIndexMap truncated".to_string();
    let fmt = *t.get(off).ok_or_else(e)?;
    let ef = *t.get(off + 1).ok_or_else(e)? as u32;
    let (count, mut p) = match fmt {
        0 => (be16(t, off + 2).ok_or_else(e)? as usize, off + 4),
        1 => (be32(t, off + 2).ok_or_else(e)? as usize, off + 6),
        _ => return Err(format!("DeltaSetIndexMap format {fmt}")),
    };
    let size = (((ef & 0x30) >> 4) + 1) as usize;
    let inner_bits = (ef & 0x0f) + 1;
    let mut v = Vec::new();
    for _ in 0..count {
        let mut x: u64 = 0;
        for k in 0..size {
            x = (x << 8) | *t.get(p + k).ok_or_else(e)? as u64;
        }
        p += size;
        v.push((x >> inner_bits, x & ((1u64 << inner_bits) - 1)));
    }
    Ok(v)
}

fn read_metric_var(t: &[u8]) -> Result<MetricVar, String> {
    let so = be32(t, 4).ok_or("HVAR/VVAR header truncated")? as usize;
    let mo = be32(t, 8).ok_or("HVAR/VVAR header truncated")? as usize;
    let store = read_store(t, so)?;
    let map = if mo == 0 { None } else { Some(read_dsim(t, mo)?) };
    Ok((store, map))
}

// ---------------------------------------------------------------------------------------------
// layout tables

fn decode_layout<'a>(
    sl: Result<ScriptList<'a>, write_fonts::read::ReadError>,
    fl: Result<FeatureList<'a>, write_fonts::read::ReadError>,
    lookups: Vec<Result<Box<dyn SomeTable<'a> + 'a>, String>>,
    fv: Option<Result<FeatureVariations<'a>, write_fonts::read::ReadError>>,
    errs: &mut Vec<String>,
    name_refs: &mut Vec<u64>,
    tag: &str,
) -> Layout {
    let mut l = Layout::default();
    match sl {
        Ok(sl) => {
            for sr in sl.script_records() {
                match sr.script(sl.offset_data()) {
                    Ok(s) => {
                        let mut push = |ls: write_fonts::read::tables::layout::LangSys| {
                            let r = ls.required_feature_index();
                            l.langsys.push((if r == 0xFFFF { None } else { Some(r as u64) }, ls.feature_indices().iter().map(|x| x.get() as u64).collect()));
                        };
                        if let Some(d) = s.default_lang_sys() {
                            match d {
                                Ok(ls) => push(ls),
                                Err(e) => errs.push(format!("{tag} default LangSys: {e}")),
                            }
                        }
                        for lr in s.lang_sys_records() {
                            match lr.lang_sys(s.offset_data()) {
                                Ok(ls) => push(ls),
                                Err(e) => errs.push(format!("{tag} LangSys: {e}")),
                            }
                        }
                    }
                    Err(e) => errs.push(format!("{tag} Script: {e}")),
                }
            }
        }
        Err(e) => errs.push(format!("{tag} ScriptList: {e}")),
    }
    match fl {
        Ok(fl) => {
            for fr in fl.feature_records() {
                match fr.feature(fl.offset_data()) {
                    Ok(f) => {
                        l.features.push(f.lookup_list_indices().iter().map(|x| x.get() as u64).collect());
                        match f.feature_params() {
                            Some(Ok(FeatureParams::StylisticSet(p))) => name_refs.push(p.ui_name_id().to_u16() as u64),
                            Some(Ok(FeatureParams::Size(p))) => {
                                if p.name_entry() != 0 {
                                    name_refs.push(p.name_entry() as u64)
                                }
                            }
                            Some(Ok(FeatureParams::CharacterVariant(p))) => {
                                for id in [p.feat_ui_label_name_id(), p.feat_ui_tooltip_text_name_id(), p.sample_text_name_id()] {
                                    if id.to_u16() != 0 {
                                        name_refs.push(id.to_u16() as u64);
                                    }
                                }
                                let first = p.first_param_ui_label_name_id().to_u16() as u64;
                                for k in 0..p.num_named_parameters() as u64 {
                                    name_refs.push(first + k);
                                }
                            }
                            Some(Err(e)) => errs.push(format!("{tag} FeatureParams: {e}")),
                            None => {}
                        }
                    }
                    Err(e) => {
                        errs.push(format!("{tag} Feature: {e}"));
                        l.features.push(vec![]);
                    }
                }
            }
        }
        Err(e) => errs.push(format!("{tag} FeatureList: {e}")),
    }
    for lk in lookups {
        match lk {
            Ok(t) => {
                let mut w = Walk::default();
                walk_table(&*t, &mut w, 0);
                for e in w.errors {
                    errs.push(format!("{tag} lookup: {e}"));
                }
                l.lookups.push(Lookup { glyphs: dedup(w.glyphs), nested: dedup(w.nested), markset: w.marksets.first().copied(), varidx: dedup2(w.varidx) });
            }
            Err(e) => {
                errs.push(format!("{tag} Lookup: {e}"));
                l.lookups.push(Lookup::default());
            }
        }
    }
    if let Some(fv) = fv {
        match fv {
            Ok(fv) => {
                for r in fv.feature_variation_records() {
                    let mut rec = FvRec::default();
                    if let Some(cs) = r.condition_set(fv.offset_data()) {
                        match cs {
                            Ok(cs) => {
                                for c in cs.conditions().iter() {
                                    match c {
                                        Ok(Condition::Format1AxisRange(c)) => rec.axes.push(c.axis_index() as u64),
                                        Ok(_) => {}
                                        Err(e) => errs.push(format!("{tag} Condition: {e}")),
                                    }
                                }
                            }
                            Err(e) => errs.push(format!("{tag} ConditionSet: {e}")),
                        }
                    }
                    if let Some(ts) = r.feature_table_substitution(fv.offset_data()) {
                        match ts {
                            Ok(ts) => {
                                for s in ts.substitutions() {
                                    match s.alternate_feature(ts.offset_data()) {
                                        Ok(f) => rec.subst.push((s.feature_index() as u64, f.lookup_list_indices().iter().map(|x| x.get() as u64).collect())),
                                        Err(e) => errs.push(format!("{tag} alternate Feature: {e}")),
                                    }
                                }
                            }
                            Err(e) => errs.push(format!("{tag} FeatureTableSubstitution: {e}")),
                        }
                    }
                    l.fvars.push(rec);
                }
            }
            Err(e) => errs.push(format!("{tag} FeatureVariations: {e}")),
        }
    }
    l
}

// ---------------------------------------------------------------------------------------------
// the whole font

/// Walk a top-level table generically: every offset in it must resolve.
fn walk_top<'a, T: SomeTable<'a> + 'a>(r: Result<T, write_fonts::read::ReadError>, tag: &str, errs: &mut Vec<String>) -> Walk {
    let mut w = Walk::default();
    match r {
        Ok(t) => {
            walk_table(&t, &mut w, 0);
            for e in std::mem::take(&mut w.errors) {
                errs.push(format!("{tag}: {e}"));
            }
        }
        Err(e) => errs.push(format!("{tag}: {e}")),
    }
    w
}

struct Decoded {
    abs: Abs,
    /// (table tag, what did not parse)
    parse_errors: Vec<String>,
    tags: Vec<String>,
}

fn decode_font(bytes: &[u8]) -> Result<Decoded, String> {
    let (_, dir) = sfnt::directory(bytes).ok_or("directory unreadable")?;
    let tags: Vec<String> = dir.iter().map(|r| sfnt::tag_str(&r.tag)).collect();
    let has = |t: &str| tags.iter().any(|x| x == t);
    let font = FontRef::new(bytes).map_err(|e| format!("FontRef: {e}"))?;
    let mut errs: Vec<String> = Vec::new();
    let mut a = Abs::default();

    // maxp
    match font.maxp() {
        Ok(m) => {
            a.maxp = Maxp {
                glyphs: m.num_glyphs() as u64,
                pts: m.max_points().unwrap_or(0) as u64,
                ctrs: m.max_contours().unwrap_or(0) as u64,
                cpts: m.max_composite_points().unwrap_or(0) as u64,
                cctrs: m.max_composite_contours().unwrap_or(0) as u64,
                elems: m.max_component_elements().unwrap_or(0) as u64,
                depth: m.max_component_depth().unwrap_or(0) as u64,
            };
        }
        Err(e) => errs.push(format!("maxp: {e}")),
    }
    // loca / glyf: the number of glyphs loca describes comes from its byte length
    let long = font.head().map(|h| h.index_to_loc_format() == 1).unwrap_or(false);
    if let Err(e) = font.head() {
        errs.push(format!("head: {e}"));
    }
    let loca_len = sfnt::table(bytes, b"loca").map(|t| t.len()).unwrap_or(0);
    let entries = loca_len / if long { 4 } else { 2 };
    let nglyphs = entries.saturating_sub(1);
    match (font.loca(Some(long)), font.glyf()) {
        (Ok(loca), Ok(glyf)) => {
            for g in 0..nglyphs {
                match loca.get_glyf(GlyphId::new(g as u32), &glyf) {
                    Ok(None) => a.glyphs.push(Glyph::Empty),
                    Ok(Some(RGlyph::Simple(s))) => a.glyphs.push(Glyph::Simple(s.num_points() as u64, s.number_of_contours().max(0) as u64)),
                    Ok(Some(RGlyph::Composite(c))) => a.glyphs.push(Glyph::Composite(c.components().map(|c| c.glyph.to_u32() as u64).collect())),
                    Err(e) => {
                        errs.push(format!("glyf: glyph {g}: {e}"));
                        a.glyphs.push(Glyph::Empty);
                    }
                }
            }
        }
        (l, g) => {
            if let Err(e) = l {
                errs.push(format!("loca: {e}"));
            }
            if let Err(e) = g {
                errs.push(format!("glyf: {e}"));
            }
        }
    }
    // hmtx / vmtx
    match font.hhea() {
        Ok(h) => a.hmtx = (h.number_of_h_metrics() as u64, sfnt::table(bytes, b"hmtx").map(|t| t.len()).unwrap_or(0) as u64),
        Err(e) => errs.push(format!("hhea: {e}")),
    }
    if has("vmtx") || has("vhea") {
        match font.vhea() {
            Ok(h) => a.vmtx = Some((h.number_of_long_ver_metrics() as u64, sfnt::table(bytes, b"vmtx").map(|t| t.len()).unwrap_or(0) as u64)),
            Err(e) => errs.push(format!("vhea: {e}")),
        }
    }
    // post: read by hand, the string data must fill the table exactly
    if let Some(p) = sfnt::table(bytes, b"post") {
        match be32(p, 0) {
            Some(0x00020000) => {
                let n = be16(p, 32).unwrap_or(0) as usize;
                let mut idx = Vec::new();
                for k in 0..n {
                    match be16(p, 34 + 2 * k) {
                        Some(x) => idx.push(x as u64),
                        None => {
                            errs.push("post: glyphNameIndex truncated".into());
                            break;
                        }
                    }
                }
                let mut q = 34 + 2 * n;
                let mut strings = 0u64;
                let mut bad = q > p.len();
                while !bad && q < p.len() {
                    let l = p[q] as usize;
                    if q + 1 + l > p.len() {
                        bad = true;
                    } else {
                        strings += 1;
                        q += 1 + l;
                    }
                }
                let max_needed = idx.iter().filter(|x| **x >= 258).map(|x| *x - 257).max().unwrap_or(0);
                if bad || strings < max_needed {
                    // a Pascal string runs past the table, or an index names a string that is not there
                    errs.push(format!("post: string data malformed ({} strings found, highest index needs {}, overrun {})", strings, max_needed, bad));
                }
                a.post = Some((idx, strings));
            }
            Some(0x00030000) | Some(0x00010000) => {}
            v => errs.push(format!("post: version {v:?}")),
        }
    }
    if let Err(e) = font.post() {
        if has("post") {
            errs.push(format!("post: {e}"));
        }
    }
    // cmap
    match font.cmap() {
        Ok(c) => {
            let w = walk_top(Ok(c.clone()), "cmap", &mut errs);
            drop(w);
            use write_fonts::read::tables::cmap::CmapSubtable;
            let mut gids = Vec::new();
            for r in c.encoding_records() {
                match r.subtable(c.offset_data()) {
                    Ok(CmapSubtable::Format4(s)) => gids.extend(s.iter().map(|(_, g)| g.to_u32() as u64)),
                    Ok(CmapSubtable::Format12(s)) => gids.extend(s.iter().map(|(_, g)| g.to_u32() as u64)),
                    Ok(CmapSubtable::Format14(s)) => {
                        use write_fonts::read::tables::cmap::MapVariant;
                        gids.extend(s.iter().filter_map(|(_, _, m)| match m {
                            MapVariant::Variant(g) => Some(g.to_u32() as u64),
                            _ => None,
                        }))
                    }
                    Ok(_) => {}
                    Err(e) => errs.push(format!("cmap subtable: {e}")),
                }
            }
            a.cmap = dedup(gids);
        }
        Err(e) => {
            if has("cmap") {
                errs.push(format!("cmap: {e}"))
            }
        }
    }
    // name
    match font.name() {
        Ok(n) => {
            a.name_ids = dedup(n.name_record().iter().map(|r| r.name_id().to_u16() as u64).collect());
            for r in n.name_record() {
                if let Err(e) = r.string(n.string_data()) {
                    errs.push(format!("name: string of id {}: {e}", r.name_id()));
                }
            }
        }
        Err(e) => {
            if has("name") {
                errs.push(format!("name: {e}"))
            }
        }
    }
    for (t, r) in [("OS/2", font.os2().map(|_| ())), ("hhea", font.hhea().map(|_| ())), ("hmtx", font.hmtx().map(|_| ()))] {
        if let Err(e) = r {
            if has(t) {
                errs.push(format!("{t}: {e}"));
            }
        }
    }
    // fvar / avar / STAT / gvar
    let mut refs: Vec<u64> = Vec::new();
    if has("fvar") {
        match font.fvar() {
            Ok(f) => {
                a.fvar = Some(f.axis_count() as u64);
                match f.axes() {
                    Ok(ax) => refs.extend(ax.iter().map(|x| x.axis_name_id().to_u16() as u64)),
                    Err(e) => errs.push(format!("fvar axes: {e}")),
                }
                match f.instances() {
                    Ok(ins) => {
                        for i in ins.iter() {
                            match i {
                                Ok(i) => {
                                    refs.push(i.subfamily_name_id.to_u16() as u64);
                                    if let Some(p) = i.post_script_name_id {
                                        if p.to_u16() != 0xFFFF {
                                            refs.push(p.to_u16() as u64);
                                        }
                                    }
                                }
                                Err(e) => errs.push(format!("fvar instance: {e}")),
                            }
                        }
                    }
                    Err(e) => errs.push(format!("fvar instances: {e}")),
                }
            }
            Err(e) => errs.push(format!("fvar: {e}")),
        }
    }
    if has("avar") {
        match font.avar() {
            Ok(v) => {
                a.avar = Some(v.axis_count() as u64);
                walk_top(Ok(v), "avar", &mut errs);
            }
            Err(e) => errs.push(format!("avar: {e}")),
        }
    }
    if has("STAT") {
        match font.stat() {
            Ok(s) => {
                let w = walk_top(Ok(s.clone()), "STAT", &mut errs);
                refs.extend(w.name_ids.iter().copied().filter(|x| *x != 0xFFFF));
                let mut used = Vec::new();
                if let Some(Ok(av)) = s.offset_to_axis_values() {
                    use write_fonts::read::tables::stat::AxisValue;
                    for v in av.axis_values().iter() {
                        match v {
                            Ok(AxisValue::Format1(x)) => used.push(x.axis_index() as u64),
                            Ok(AxisValue::Format2(x)) => used.push(x.axis_index() as u64),
                            Ok(AxisValue::Format3(x)) => used.push(x.axis_index() as u64),
                            Ok(AxisValue::Format4(x)) => used.extend(x.axis_values().iter().map(|r| r.axis_index() as u64)),
                            Err(e) => errs.push(format!("STAT axis value: {e}")),
                        }
                    }
                }
                a.stat = Some((s.design_axis_count() as u64, dedup(used)));
            }
            Err(e) => errs.push(format!("STAT: {e}")),
        }
    }
    if has("gvar") {
        match font.gvar() {
            Ok(g) => {
                a.gvar = Some((g.axis_count() as u64, g.glyph_count() as u64));
                for gid in 0..g.glyph_count() {
                    match g.glyph_variation_data(GlyphId::new(gid as u32)) {
                        Ok(Some(d)) => {
                            let mut n = 0;
                            for t in d.tuples() {
                                n += 1;
                                if n > 10_000 {
                                    break;
                                }
                                let _ = t.peak();
                            }
                        }
                        Ok(None) => {}
                        Err(e) => errs.push(format!("gvar: glyph {gid}: {e}")),
                    }
                }
            }
            Err(e) => errs.push(format!("gvar: {e}")),
        }
    }
    for (tag, slot) in [(b"HVAR", 0), (b"VVAR", 1)] {
        if let Some(t) = sfnt::table(bytes, tag) {
            match read_metric_var(t) {
                Ok(x) => {
                    if slot == 0 {
                        a.hvar = Some(x)
                    } else {
                        a.vvar = Some(x)
                    }
                }
                Err(e) => errs.push(format!("{}: {e}", String::from_utf8_lossy(tag))),
            }
        }
    }
    if has("HVAR") {
        walk_top(font.hvar(), "HVAR", &mut errs);
    }
    if has("VVAR") {
        walk_top(font.vvar(), "VVAR", &mut errs);
    }
    if let Some(t) = sfnt::table(bytes, b"MVAR") {
        walk_top(font.mvar(), "MVAR", &mut errs);
        let r = (|| -> Result<(Store, Vec<(u64, u64)>), String> {
            let size = be16(t, 6).ok_or("MVAR truncated")? as usize;
            let count = be16(t, 8).ok_or("MVAR truncated")? as usize;
            let so = be16(t, 10).ok_or("MVAR truncated")? as usize;
            let mut v = Vec::new();
            for k in 0..count {
                let o = 12 + k * size;
                v.push((be16(t, o + 4).ok_or("MVAR record truncated")? as u64, be16(t, o + 6).ok_or("MVAR record truncated")? as u64));
            }
            if so == 0 {
                return Err("MVAR without a variation store".into());
            }
            Ok((read_store(t, so)?, v))
        })();
        match r {
            Ok(x) => a.mvar = Some(x),
            Err(e) => errs.push(format!("MVAR: {e}")),
        }
    }
    // GDEF
    if let Some(t) = sfnt::table(bytes, b"GDEF") {
        let w = walk_top(font.gdef(), "GDEF", &mut errs);
        let minor = be16(t, 2).unwrap_or(0);
        let mut g = Gdef { glyphs: dedup(w.glyphs), varidx: dedup2(w.varidx), ..Default::default() };
        if minor >= 2 {
            let o = be16(t, 12).unwrap_or(0) as usize;
            if o != 0 {
                g.marksets = be16(t, o + 2).unwrap_or(0) as u64;
            }
        }
        if minor >= 3 {
            let o = be32(t, 14).unwrap_or(0) as usize;
            if o != 0 {
                match read_store(t, o) {
                    Ok(s) => g.store = Some(s),
                    Err(e) => errs.push(format!("GDEF: {e}")),
                }
            }
        }
        a.gdef = Some(g);
    }
    // GSUB / GPOS
    if has("GSUB") {
        match font.gsub() {
            Ok(t) => {
                let lookups = match t.lookup_list() {
                    Ok(ll) => ll.lookups().iter().map(|l| l.map(|x| Box::new(x) as Box<dyn SomeTable>).map_err(|e| e.to_string())).collect(),
                    Err(e) => {
                        errs.push(format!("GSUB LookupList: {e}"));
                        vec![]
                    }
                };
                a.gsub = Some(decode_layout(t.script_list(), t.feature_list(), lookups, t.feature_variations(), &mut errs, &mut refs, "GSUB"));
            }
            Err(e) => errs.push(format!("GSUB: {e}")),
        }
    }
    if has("GPOS") {
        match font.gpos() {
            Ok(t) => {
                let lookups = match t.lookup_list() {
                    Ok(ll) => ll.lookups().iter().map(|l| l.map(|x| Box::new(x) as Box<dyn SomeTable>).map_err(|e| e.to_string())).collect(),
                    Err(e) => {
                        errs.push(format!("GPOS LookupList: {e}"));
                        vec![]
                    }
                };
                let mut l = decode_layout(t.script_list(), t.feature_list(), lookups, t.feature_variations(), &mut errs, &mut refs, "GPOS");
                match value_devices(sfnt::table(bytes, b"GPOS").unwrap_or(&[])) {
                    Ok(v) => {
                        for (k, vi) in v {
                            if let Some(lk) = l.lookups.get_mut(k) {
                                lk.varidx.push(vi);
                            }
                        }
                        for lk in l.lookups.iter_mut() {
                            lk.varidx = dedup2(std::mem::take(&mut lk.varidx));
                        }
                    }
                    Err(e) => errs.push(format!("GPOS: {e}")),
                }
                a.gpos = Some(l);
            }
            Err(e) => errs.push(format!("GPOS: {e}")),
        }
    }
    if has("BASE") {
        walk_top(font.base(), "BASE", &mut errs);
    }
    if has("COLR") {
        walk_top(font.colr(), "COLR", &mut errs);
    }
    if has("CPAL") {
        walk_top(font.cpal(), "CPAL", &mut errs);
    }
    if has("gasp") {
        walk_top(font.gasp(), "gasp", &mut errs);
    }
    if has("meta") {
        walk_top(font.meta(), "meta", &mut errs);
    }
    a.name_refs = dedup(refs);
    Ok(Decoded { abs: a, parse_errors: errs, tags })
}

// ---------------------------------------------------------------------------------------------
// the property predicate, written directly (independent of the Coq checker's algorithms)

type Fails = Vec<(String, String)>;

fn pad4(x: usize) -> usize {
    (x + 3) & !3
}

const REQUIRED: [&[u8; 4]; 10] = [b"cmap", b"glyf", b"head", b"hhea", b"hmtx", b"loca", b"maxp", b"name", b"OS/2", b"post"];

fn check_sfnt(b: &[u8]) -> Fails {
    let mut f: Fails = Vec::new();
    let mut fail = |k: &str, d: String| f.push((format!("sfnt:{k}"), d));
    if b.len() % 4 != 0 {
        fail("file-length-not-multiple-of-4", format!("file length {}", b.len()));
        return f;
    }
    let Some((version, dir)) = sfnt::directory(b) else {
        fail("directory-truncated", "table directory runs past the end of the file".into());
        return f;
    };
    if version != 0x00010000 {
        fail("version", format!("sfntVersion {version:#x}"));
    }
    let n = dir.len();
    if n == 0 {
        fail("no-tables", "numTables = 0".into());
        return f;
    }
    let es = (usize::BITS - 1 - n.leading_zeros()) as u32;
    let sr = 16u32 << es;
    let (gsr, ges, grs) = (be16(b, 6).unwrap_or(0), be16(b, 8).unwrap_or(0), be16(b, 10).unwrap_or(0));
    if (gsr, ges, grs) != (sr, es, 16 * n as u32 - sr) {
        fail("search-range", format!("searchRange/entrySelector/rangeShift = {gsr}/{ges}/{grs} for {n} tables"));
    }
    for w in dir.windows(2) {
        if w[0].tag >= w[1].tag {
            fail("directory-not-sorted", format!("{} before {}", sfnt::tag_str(&w[0].tag), sfnt::tag_str(&w[1].tag)));
        }
    }
    let mut head: Option<&sfnt::TableRec> = None;
    for r in &dir {
        let t = sfnt::tag_str(&r.tag);
        let (o, l) = (r.offset as usize, r.length as usize);
        if o % 4 != 0 {
            fail("table-not-aligned", format!("{t} at offset {o}"));
        }
        if o.checked_add(pad4(l)).map(|e| e > b.len()).unwrap_or(true) {
            fail("table-outside-file", format!("{t} at {o}+{l}, file is {} bytes", b.len()));
            continue;
        }
        if b[o + l..o + pad4(l)].iter().any(|x| *x != 0) {
            fail("padding-not-zero", format!("after {t}"));
        }
        let mut data = b[o..o + l].to_vec();
        if &r.tag == b"head" {
            head = Some(r);
            if l >= 12 {
                data[8..12].fill(0);
            }
        }
        if sfnt::checksum(&data) != r.checksum {
            fail("table-checksum", format!("{t}: directory says {:#x}, data sums to {:#x}", r.checksum, sfnt::checksum(&data)));
        }
    }
    // the tables tile the file
    let mut by_off: Vec<&sfnt::TableRec> = dir.iter().collect();
    by_off.sort_by_key(|r| r.offset);
    let mut pos = 12 + 16 * n;
    for r in by_off {
        if r.offset as usize != pos {
            fail("tables-do-not-tile", format!("{} at {} but the previous table ends at {}", sfnt::tag_str(&r.tag), r.offset, pos));
        }
        pos = r.offset as usize + pad4(r.length as usize);
    }
    if pos != b.len() {
        fail("tables-do-not-tile", format!("last table ends at {pos}, file is {} bytes", b.len()));
    }
    for t in REQUIRED {
        if !dir.iter().any(|r| &r.tag == t) {
            f.push((format!("required-table-missing:{}", sfnt::tag_str(t)), format!("the font has no {} table", sfnt::tag_str(t))));
        }
    }
    let mut fail = |k: &str, d: String| f.push((format!("sfnt:{k}"), d));
    match head {
        Some(h) if h.length >= 12 && (h.offset as usize + 12) <= b.len() => {
            let o = h.offset as usize;
            let adj = be32(b, o + 8).unwrap_or(0);
            let mut z = b.to_vec();
            z[o + 8..o + 12].fill(0);
            let want = 0xB1B0AFBAu32.wrapping_sub(sfnt::checksum(&z));
            if adj != want {
                fail("head-checksum-adjustment", format!("checkSumAdjustment {adj:#x}, whole-file rule gives {want:#x}"));
            }
        }
        Some(_) => fail("head-too-short", "head shorter than 12 bytes".into()),
        None => {}
    }
    f
}

fn varidx_ok(st: Option<&Store>, v: &(u64, u64)) -> bool {
    if *v == (0xFFFF, 0xFFFF) {
        return true;
    }
    st.and_then(|s| s.data.get(v.0 as usize)).map(|d| v.1 < d.0).unwrap_or(false)
}

fn check_store(f: &mut Fails, what: &str, axes: u64, s: &Store) {
    if s.axes != axes {
        f.push((format!("axis-count-mismatch:{what}"), format!("{what} region list has {} axes, fvar has {axes}", s.axes)));
    }
    for (i, d) in s.data.iter().enumerate() {
        if let Some(r) = d.1.iter().find(|r| **r >= s.regions) {
            f.push((format!("region-index-out-of-range:{what}"), format!("{what} data block {i} uses region {r} of {}", s.regions)));
        }
    }
}

fn check_layout(f: &mut Fails, tag: &str, l: &Layout, ng: u64, axes: u64, marksets: u64, st: Option<&Store>) {
    let (nf, nl) = (l.features.len() as u64, l.lookups.len() as u64);
    for (req, fi) in &l.langsys {
        if let Some(r) = req.filter(|r| *r >= nf) {
            f.push((format!("feature-index-out-of-range:{tag}"), format!("required feature {r} of {nf}")));
        }
        if let Some(x) = fi.iter().find(|x| **x >= nf) {
            f.push((format!("feature-index-out-of-range:{tag}"), format!("LangSys lists feature {x} of {nf}")));
        }
    }
    for ft in &l.features {
        if let Some(x) = ft.iter().find(|x| **x >= nl) {
            f.push((format!("lookup-index-out-of-range:{tag}"), format!("feature lists lookup {x} of {nl}")));
        }
    }
    for (i, lk) in l.lookups.iter().enumerate() {
        if let Some(g) = lk.glyphs.iter().find(|g| **g >= ng) {
            f.push((format!("glyph-id-out-of-range:{tag}"), format!("lookup {i} uses glyph {g} of {ng}")));
        }
        if let Some(x) = lk.nested.iter().find(|x| **x >= nl) {
            f.push((format!("lookup-index-out-of-range:{tag}"), format!("lookup {i} calls lookup {x} of {nl}")));
        }
        if let Some(m) = lk.markset.filter(|m| *m >= marksets) {
            f.push((format!("mark-filtering-set-out-of-range:{tag}"), format!("lookup {i} filters on mark set {m}, GDEF defines {marksets}")));
        }
        if let Some(v) = lk.varidx.iter().find(|v| !varidx_ok(st, v)) {
            f.push((format!("delta-set-index-out-of-range:{tag}"), format!("lookup {i} uses delta set {v:?} which GDEF's variation store does not have")));
        }
    }
    for fv in &l.fvars {
        if let Some(x) = fv.axes.iter().find(|x| **x >= axes) {
            f.push((format!("axis-index-out-of-range:{tag}"), format!("condition on axis {x} of {axes}")));
        }
        for (fi, ls) in &fv.subst {
            if *fi >= nf {
                f.push((format!("feature-index-out-of-range:{tag}"), format!("feature variation replaces feature {fi} of {nf}")));
            }
            if let Some(x) = ls.iter().find(|x| **x >= nl) {
                f.push((format!("lookup-index-out-of-range:{tag}"), format!("alternate feature lists lookup {x} of {nl}")));
            }
        }
    }
}

/// depth / flattened totals by memoised depth-first search with an explicit "on the stack" mark
fn graph_totals(gl: &[Glyph]) -> Result<Vec<(u64, u64, u64)>, String> {
    let n = gl.len();
    let mut memo: Vec<Option<(u64, u64, u64)>> = vec![None; n];
    let mut state = vec![0u8; n]; // 0 new, 1 open, 2 done
    for root in 0..n {
        if state[root] == 2 {
            continue;
        }
        let mut stack: Vec<(usize, usize)> = vec![(root, 0)];
        state[root] = 1;
        while let Some(&mut (g, ref mut k)) = stack.last_mut() {
            match &gl[g] {
                Glyph::Empty => {
                    memo[g] = Some((0, 0, 0));
                    state[g] = 2;
                    stack.pop();
                }
                Glyph::Simple(p, c) => {
                    memo[g] = Some((0, *p, *c));
                    state[g] = 2;
                    stack.pop();
                }
                Glyph::Composite(cs) => {
                    if *k < cs.len() {
                        let c = cs[*k] as usize;
                        *k += 1;
                        if c >= n {
                            return Err(format!("component-glyph-id-out-of-range: glyph {g} uses glyph {c} of {n}"));
                        }
                        match state[c] {
                            1 => return Err(format!("component-cycle: glyph {g} reaches itself through glyph {c}")),
                            0 => {
                                state[c] = 1;
                                stack.push((c, 0));
                            }
                            _ => {}
                        }
                    } else {
                        let mut t = (0u64, 0u64, 0u64);
                        for c in cs {
                            let m = memo[*c as usize].unwrap();
                            t = (t.0.max(m.0 + 1), t.1 + m.1, t.2 + m.2);
                        }
                        memo[g] = Some(t);
                        state[g] = 2;
                        stack.pop();
                    }
                }
            }
        }
    }
    Ok(memo.into_iter().map(|m| m.unwrap()).collect())
}

fn mtx_ok(ng: u64, m: (u64, u64)) -> bool {
    m.0 >= 1 && m.0 <= ng && m.1 == 4 * m.0 + 2 * (ng - m.0)
}

fn check_abs(a: &Abs) -> Fails {
    let mut f: Fails = Vec::new();
    let ng = a.glyphs.len() as u64;
    let axes = a.fvar.unwrap_or(0);
    if ng < 1 {
        f.push(("glyph-count-mismatch:loca".into(), "loca describes no glyph".into()));
    }
    if a.maxp.glyphs != ng {
        f.push(("glyph-count-mismatch:maxp".into(), format!("maxp.numGlyphs {} but loca describes {ng} glyphs", a.maxp.glyphs)));
    }
    if !mtx_ok(ng, a.hmtx) {
        f.push(("glyph-count-mismatch:hmtx".into(), format!("numberOfHMetrics {} and {} bytes of hmtx for {ng} glyphs", a.hmtx.0, a.hmtx.1)));
    }
    if let Some(v) = a.vmtx {
        if !mtx_ok(ng, v) {
            f.push(("glyph-count-mismatch:vmtx".into(), format!("numOfLongVerMetrics {} and {} bytes of vmtx for {ng} glyphs", v.0, v.1)));
        }
    }
    if let Some((idx, strings)) = &a.post {
        if idx.len() as u64 != ng {
            f.push(("glyph-count-mismatch:post".into(), format!("post names {} glyphs, the font has {ng}", idx.len())));
        }
        if let Some(x) = idx.iter().find(|x| **x >= 258 + strings) {
            f.push(("post-name-index-out-of-range".into(), format!("glyphNameIndex {x} with {strings} strings")));
        }
    }
    if let Some((_, gc)) = a.gvar {
        if gc != ng {
            f.push(("glyph-count-mismatch:gvar".into(), format!("gvar.glyphCount {gc}, the font has {ng}")));
        }
    }
    if let Some(g) = a.cmap.iter().find(|g| **g >= ng) {
        f.push(("glyph-id-out-of-range:cmap".into(), format!("cmap maps to glyph {g} of {ng}")));
    }
    // components
    match graph_totals(&a.glyphs) {
        Err(e) => {
            let key = e.split(':').next().unwrap().to_string();
            f.push((key, e));
        }
        Ok(t) => {
            for (g, gl) in a.glyphs.iter().enumerate() {
                match gl {
                    Glyph::Empty => {}
                    Glyph::Simple(p, c) => {
                        if *p > a.maxp.pts || *c > a.maxp.ctrs {
                            f.push(("maxp-exceeded:simple".into(), format!("glyph {g} has {p} points / {c} contours, maxp allows {} / {}", a.maxp.pts, a.maxp.ctrs)));
                        }
                    }
                    Glyph::Composite(cs) => {
                        let (d, p, c) = t[g];
                        if cs.len() as u64 > a.maxp.elems {
                            f.push(("maxp-exceeded:component-elements".into(), format!("glyph {g} has {} components, maxComponentElements {}", cs.len(), a.maxp.elems)));
                        }
                        if d > a.maxp.depth {
                            f.push(("maxp-exceeded:component-depth".into(), format!("glyph {g} nests {d} deep, maxComponentDepth {}", a.maxp.depth)));
                        }
                        if p > a.maxp.cpts || c > a.maxp.cctrs {
                            f.push(("maxp-exceeded:composite-totals".into(), format!("glyph {g} flattens to {p} points / {c} contours, maxp allows {} / {}", a.maxp.cpts, a.maxp.cctrs)));
                        }
                    }
                }
            }
        }
    }
    for id in &a.name_refs {
        if !a.name_ids.contains(id) {
            f.push(("name-id-without-record".into(), format!("name id {id} is referenced (fvar / STAT / feature parameters) but name has no record for it")));
        }
    }
    match a.fvar {
        None => {
            for (t, p) in [("avar", a.avar.is_some()), ("gvar", a.gvar.is_some()), ("HVAR", a.hvar.is_some()), ("VVAR", a.vvar.is_some()), ("MVAR", a.mvar.is_some())] {
                if p {
                    f.push((format!("variation-table-without-fvar:{t}"), format!("{t} present but the font has no fvar")));
                }
            }
        }
        Some(n) => {
            if n < 1 {
                f.push(("axis-count-mismatch:fvar".into(), "fvar without axes".into()));
            }
            if let Some(k) = a.avar.filter(|k| *k != n) {
                f.push(("axis-count-mismatch:avar".into(), format!("avar has {k} axes, fvar {n}")));
            }
            if let Some((k, _)) = a.gvar.filter(|x| x.0 != n) {
                f.push(("axis-count-mismatch:gvar".into(), format!("gvar has {k} axes, fvar {n}")));
            }
        }
    }
    for (what, mv) in [("HVAR", &a.hvar), ("VVAR", &a.vvar)] {
        if let Some((s, m)) = mv {
            check_store(&mut f, what, axes, s);
            match m {
                None => {
                    if s.data.first().map(|d| d.0) != Some(ng) {
                        f.push((format!("glyph-count-mismatch:{what}"), format!("{what} has no mapping and its first data block has {:?} rows for {ng} glyphs", s.data.first().map(|d| d.0))));
                    }
                }
                Some(es) => {
                    if es.is_empty() || es.len() as u64 > ng {
                        f.push((format!("glyph-count-mismatch:{what}"), format!("{what} mapping has {} entries for {ng} glyphs", es.len())));
                    }
                    if let Some(v) = es.iter().find(|v| !varidx_ok(Some(s), v)) {
                        f.push((format!("delta-set-index-out-of-range:{what}"), format!("{what} mapping entry {v:?}")));
                    }
                }
            }
        }
    }
    if let Some((s, vs)) = &a.mvar {
        check_store(&mut f, "MVAR", axes, s);
        if let Some(v) = vs.iter().find(|v| !varidx_ok(Some(s), v)) {
            f.push(("delta-set-index-out-of-range:MVAR".into(), format!("MVAR value record {v:?}")));
        }
    }
    if let Some((n, used)) = &a.stat {
        if let Some(x) = used.iter().find(|x| **x >= *n) {
            f.push(("axis-index-out-of-range:STAT".into(), format!("axis value on axis {x} of {n}")));
        }
    }
    let (marksets, gstore) = match &a.gdef {
        Some(g) => (g.marksets, g.store.as_ref()),
        None => (0, None),
    };
    if let Some(g) = &a.gdef {
        if let Some(x) = g.glyphs.iter().find(|x| **x >= ng) {
            f.push(("glyph-id-out-of-range:GDEF".into(), format!("GDEF uses glyph {x} of {ng}")));
        }
        if let Some(s) = &g.store {
            check_store(&mut f, "GDEF", axes, s);
        }
        if let Some(v) = g.varidx.iter().find(|v| !varidx_ok(g.store.as_ref(), v)) {
            f.push(("delta-set-index-out-of-range:GDEF".into(), format!("GDEF uses delta set {v:?}")));
        }
    }
    if let Some(l) = &a.gsub {
        check_layout(&mut f, "GSUB", l, ng, axes, marksets, gstore);
    }
    if let Some(l) = &a.gpos {
        check_layout(&mut f, "GPOS", l, ng, axes, marksets, gstore);
    }
    f
}

// ---------------------------------------------------------------------------------------------
// Gallina printers (the cases file opens N_scope, numbers are bare)

fn cl(v: &[u64]) -> String {
    format!("[{}]", v.iter().map(|x| x.to_string()).collect::<Vec<_>>().join(";"))
}
fn cpairs(v: &[(u64, u64)]) -> String {
    format!("[{}]", v.iter().map(|(a, b)| format!("({a},{b})")).collect::<Vec<_>>().join(";"))
}
fn copt<T>(v: &Option<T>, f: impl Fn(&T) -> String) -> String {
    match v {
        None => "None".into(),
        Some(x) => format!("(Some {})", f(x)),
    }
}
fn cstore(s: &Store) -> String {
    format!("(mkStore {} {} [{}])", s.axes, s.regions, s.data.iter().map(|(n, r)| format!("({},{})", n, cl(r))).collect::<Vec<_>>().join(";"))
}
fn clayout(l: &Layout) -> String {
    format!(
        "(mkLayout [{}] [{}] [{}] [{}])",
        l.langsys.iter().map(|(r, f)| format!("({},{})", copt(r, |x| x.to_string()), cl(f))).collect::<Vec<_>>().join(";"),
        l.features.iter().map(|f| cl(f)).collect::<Vec<_>>().join(";"),
        l.lookups.iter().map(|k| format!("(mkLookup {} {} {} {})", cl(&k.glyphs), cl(&k.nested), copt(&k.markset, |x| x.to_string()), cpairs(&k.varidx))).collect::<Vec<_>>().join(";"),
        l.fvars.iter().map(|v| format!("(mkFv {} [{}])", cl(&v.axes), v.subst.iter().map(|(i, ls)| format!("({},{})", i, cl(ls))).collect::<Vec<_>>().join(";"))).collect::<Vec<_>>().join(";"),
    )
}
fn cmetricvar(m: &MetricVar) -> String {
    format!("({},{})", cstore(&m.0), copt(&m.1, |v| cpairs(v)))
}
fn cabs(a: &Abs) -> String {
    let m = &a.maxp;
    let glyphs = a
        .glyphs
        .iter()
        .map(|g| match g {
            Glyph::Empty => "GEmpty".to_string(),
            Glyph::Simple(p, c) => format!("GSimple {p} {c}"),
            Glyph::Composite(cs) => format!("GComposite {}", cl(cs)),
        })
        .collect::<Vec<_>>()
        .join(";");
    format!(
        "(mkFA (mkMaxp {} {} {} {} {} {} {}) [{}] ({},{}) {} {} {} {} {} {} {} {} {} {} {} {} {} {} {})",
        m.glyphs, m.pts, m.ctrs, m.cpts, m.cctrs, m.elems, m.depth,
        glyphs,
        a.hmtx.0, a.hmtx.1,
        copt(&a.vmtx, |v| format!("({},{})", v.0, v.1)),
        copt(&a.post, |p| format!("({},{})", cl(&p.0), p.1)),
        cl(&a.cmap),
        cl(&a.name_ids),
        cl(&a.name_refs),
        copt(&a.fvar, |x| x.to_string()),
        copt(&a.avar, |x| x.to_string()),
        copt(&a.gvar, |x| format!("({},{})", x.0, x.1)),
        copt(&a.hvar, cmetricvar),
        copt(&a.vvar, cmetricvar),
        copt(&a.mvar, |x| format!("({},{})", cstore(&x.0), cpairs(&x.1))),
        copt(&a.stat, |x| format!("({},{})", x.0, cl(&x.1))),
        copt(&a.gdef, |g| format!("(mkGdef {} {} {} {})", cl(&g.glyphs), g.marksets, copt(&g.store, cstore), cpairs(&g.varidx))),
        copt(&a.gsub, clayout),
        copt(&a.gpos, clayout),
    )
}
fn cwords(b: &[u8]) -> String {
    let mut v = Vec::with_capacity(b.len() / 4);
    for c in b.chunks(4) {
        v.push(u32::from_be_bytes([c[0], c[1], c[2], c[3]]).to_string());
    }
    format!("[{}]", v.join(";"))
}
fn abs_size(a: &Abs) -> usize {
    let lay = |l: &Option<Layout>| l.as_ref().map(|l| l.lookups.iter().map(|k| k.glyphs.len() + k.varidx.len() + 4).sum::<usize>() + l.features.len() * 3).unwrap_or(0);
    a.glyphs.iter().map(|g| if let Glyph::Composite(c) = g { 2 + c.len() } else { 2 }).sum::<usize>()
        + a.cmap.len()
        + a.post.as_ref().map(|p| p.0.len()).unwrap_or(0)
        + lay(&a.gsub)
        + lay(&a.gpos)
        + a.hvar.as_ref().map(|h| h.1.as_ref().map(|m| m.len()).unwrap_or(0) + h.0.data.len() * 4).unwrap_or(0)
}

// ---------------------------------------------------------------------------------------------
// evaluation of one emitted font

struct Ctx {
    id: usize,
    fonts: usize,
    failing_fonts: usize,
    container_cases: usize,
    table_cases: usize,
    skipped_container: usize,
    skipped_tables: usize,
    predicate_only: usize,
    keys: BTreeMap<String, usize>,
    tables_seen: BTreeMap<String, usize>,
    glyph_hist: BTreeMap<&'static str, usize>,
    max_words: usize,
    max_abs: usize,
    /// print Coq terms for this font (quick tier: only a seed-dependent share of the test data)
    emit_coq: bool,
    /// fonts kept for the mutant stream
    keep: Vec<(String, Vec<u8>, Abs)>,
}

fn violation_key(err: &str) -> String {
    if err.starts_with("post: string data malformed") {
        return "post-string-data-malformed".into();
    }
    let tag: String = err.chars().take_while(|c| *c != ':' && *c != ' ').collect();
    format!("table-unparseable:{tag}")
}

fn evaluate(cx: &mut Ctx, label: &str, kind: &str, bytes: &[u8], expect: &[&str], src: serde_json::Value) {
    cx.fonts += 1;
    if let Ok(d) = std::env::var("C05_DUMP") {
        let _ = std::fs::write(format!("{}/{}.ttf", d, label.replace('/', "_")), bytes);
    }
    let mut fails: Fails = check_sfnt(bytes);
    let sfnt_ok = fails.is_empty();
    let decoded = decode_font(bytes);
    let mut abs_ok = false;
    let _ = &mut abs_ok;
    let mut abs: Option<Abs> = None;
    match decoded {
        Ok(d) => {
            for t in &d.tags {
                *cx.tables_seen.entry(t.clone()).or_default() += 1;
            }
            for e in &d.parse_errors {
                fails.push((violation_key(e), e.clone()));
            }
            let af = check_abs(&d.abs);
            abs_ok = af.is_empty();
            fails.extend(af);
            let mut omitted: Vec<&str> = Vec::new();
            for t in expect {
                if !d.tags.iter().any(|x| x == t) {
                    omitted.push(t);
                }
            }
            if !omitted.is_empty() {
                // one event: the table is gone. Drop the reports that merely restate it.
                let mut consequences: Vec<String> = Vec::new();
                fails.retain(|(k, d)| {
                    let restates = omitted.iter().any(|t| k == &format!("required-table-missing:{t}") || k == &format!("table-unparseable:{t}"))
                        || (omitted.contains(&"GDEF") && (k.starts_with("mark-filtering-set-out-of-range") || (k.starts_with("delta-set-index-out-of-range:G") && !k.ends_with("GDEF"))));
                    if restates {
                        consequences.push(format!("{k} ({d})"));
                    }
                    !restates
                });
                fails.push((
                    "table-dropped-when-serialisation-fails".into(),
                    format!(
                        "the source defines {} and the build reported success, but the font has no {} table: fontbe/src/font.rs bytes_for turns a table whose write_fonts::dump_table fails into None and FontWork::exec skips it; consequences seen: {}",
                        omitted.join(", "), omitted.join(" / "), if consequences.is_empty() { "none besides the missing table".to_string() } else { consequences.join("; ") }
                    ),
                ));
            }
            let ng = d.abs.glyphs.len();
            *cx.glyph_hist.entry(if ng <= 1 { "1" } else if ng <= 4 { "2-4" } else if ng <= 20 { "5-20" } else if ng <= 200 { "21-200" } else { ">200" }).or_default() += 1;
            abs = Some(d.abs);
        }
        Err(e) => fails.push(("font-undecodable".into(), e)),
    }
    let mut seen = BTreeSet::new();
    if !fails.is_empty() {
        cx.failing_fonts += 1;
    }
    for (k, d) in &fails {
        if seen.insert(k.clone()) {
            *cx.keys.entry(k.clone()).or_default() += 1;
            emit_violation(k, format!("{label}: {d}"), json!({"case": label, "kind": kind, "source": src, "font_bytes": bytes.len()}));
        }
    }
    // model vs implementation
    if !cx.emit_coq {
        cx.predicate_only += 1;
    } else if bytes.len() % 4 == 0 && bytes.len() / 4 <= cx.max_words {
        let coq = format!("let f := {} in Bool.eqb (check_sfnt f) {} && (negb {} || rebuild_eqb f)", cwords(bytes), coq_bool(sfnt_ok), coq_bool(sfnt_ok));
        emit_case(cx.id, &format!("container:{kind}"), coq, None, true, format!("c:{label}"), json!({"case": label, "bytes": bytes.len(), "impl_ok": sfnt_ok}));
        cx.id += 1;
        cx.container_cases += 1;
    } else {
        cx.skipped_container += 1;
    }
    if let Some(a) = &abs {
        if !cx.emit_coq {
        } else if abs_size(a) <= cx.max_abs {
            let coq = format!("Bool.eqb (check_abs {}) {}", cabs(a), coq_bool(abs_ok));
            emit_case(cx.id, &format!("tables:{kind}"), coq, None, a.glyphs.len() > 1, format!("t:{label}"), json!({"case": label, "glyphs": a.glyphs.len(), "impl_ok": abs_ok}));
            cx.id += 1;
            cx.table_cases += 1;
        } else {
            cx.skipped_tables += 1;
        }
        if sfnt_ok && abs_ok && bytes.len() <= 6000 && cx.keep.len() < 400 {
            cx.keep.push((label.to_string(), bytes.to_vec(), a.clone()));
        }
    }
}

// ---------------------------------------------------------------------------------------------
// sources

struct Case {
    label: String,
    kind: &'static str,
    design: Design,
    flags: Option<fontir::orchestration::Flags>,
    expect: Vec<&'static str>,
    note: serde_json::Value,
}

fn simple(name: &str, adv: f64, k: i64) -> GlyphSrc {
    GlyphSrc::new(name, adv).rect(10.0 + k as f64, 0.0, 200.0 + 3.0 * k as f64, 300.0 + k as f64)
}

fn ident(dx: f64, dy: f64) -> [f64; 6] {
    [1.0, 0.0, 0.0, 1.0, dx, dy]
}

fn limit_cases(big: usize) -> Vec<Case> {
    let mut v = Vec::new();
    let mut push = |label: &str, glyphs: Vec<GlyphSrc>, note: serde_json::Value| {
        v.push(Case { label: label.into(), kind: "limit", design: Design::single(&format!("L{}", label.replace('-', "")), glyphs), flags: None, expect: vec![], note });
    };
    push("no-glyphs", vec![], json!({"glyphs": 0}));
    push("only-notdef", vec![simple(".notdef", 500.0, 0)], json!({"glyphs": 1}));
    push("one-glyph", vec![simple("a", 500.0, 0).uni(0x61)], json!({"glyphs": 1}));
    push("one-empty-glyph", vec![GlyphSrc::new("space", 250.0).uni(0x20)], json!({"glyphs": 1}));
    push("all-empty", (0..7).map(|i| GlyphSrc::new(&format!("e{i}"), 100.0 * i as f64)).collect(), json!({"glyphs": 7}));
    push(
        "composite-of-empty",
        vec![GlyphSrc::new("space", 250.0).uni(0x20), simple("a", 500.0, 1).uni(0x61), GlyphSrc::new("c", 500.0).comp("space", ident(0.0, 0.0)).comp("a", ident(10.0, 0.0)), GlyphSrc::new("d", 500.0).comp("space", ident(0.0, 0.0))],
        json!({"glyphs": 4}),
    );
    for depth in [1usize, 2, 5, 17, 40, 64, 120] {
        let mut g = vec![simple("g0", 500.0, 0).uni(0x41)];
        for i in 1..=depth {
            let mut c = GlyphSrc::new(&format!("g{i}"), 500.0).comp(&format!("g{}", i - 1), ident(3.0, 1.0));
            if i % 3 == 0 {
                c = c.comp("g0", ident(-20.0, 5.0));
            }
            g.push(c);
        }
        push(&format!("chain-{depth}"), g, json!({"nesting": depth}));
    }
    for depth in [3usize, 8, 12, 14] {
        // every level uses the previous one twice: 4 * 2^depth points (14 -> 65536, must be an error)
        let mut g = vec![simple("g0", 500.0, 0).uni(0x41)];
        for i in 1..=depth {
            g.push(GlyphSrc::new(&format!("g{i}"), 500.0).comp(&format!("g{}", i - 1), ident(0.0, 0.0)).comp(&format!("g{}", i - 1), ident(7.0, 7.0)));
        }
        push(&format!("shared-dag-{depth}"), g, json!({"nesting": depth, "shared": true}));
    }
    {
        // declared in reverse: glyph ids decrease along component references
        let mut g = Vec::new();
        for i in (1..=6).rev() {
            g.push(GlyphSrc::new(&format!("r{i}"), 400.0).comp(&format!("r{}", i - 1), ident(1.0, 0.0)));
        }
        g.push(simple("r0", 400.0, 2).uni(0x42));
        push("reverse-order-chain", g, json!({"nesting": 6}));
    }
    {
        let mut g = vec![simple("dot", 100.0, 0).uni(0x2e)];
        let mut c = GlyphSrc::new("many", 900.0);
        for k in 0..300 {
            c = c.comp("dot", ident(k as f64 * 3.0, (k % 7) as f64));
        }
        g.push(c);
        push("wide-composite-300", g, json!({"components": 300}));
    }
    {
        let mut g = Vec::new();
        for i in 0..400usize {
            g.push(simple(&format!("s{i}"), 300.0 + (i % 50) as f64, (i % 90) as i64).uni(0x4E00 + i as u32));
        }
        push("many-400", g, json!({"glyphs": 400}));
    }
    {
        let mut g = Vec::new();
        for i in 0..big {
            let name = format!("b{i}");
            if i % 5 == 4 {
                g.push(GlyphSrc::new(&name, 600.0).comp(&format!("b{}", i - 1), ident(5.0, 0.0)).comp(&format!("b{}", i - 3), ident(0.0, 50.0)).uni(0x10000 + i as u32));
            } else if i % 11 == 0 {
                g.push(GlyphSrc::new(&name, 0.0));
            } else {
                g.push(simple(&name, 500.0 + (i % 3) as f64, (i % 120) as i64).uni(0x3400 + i as u32));
            }
        }
        push(&format!("big-{big}"), g, json!({"glyphs": big}));
    }
    v
}

fn perturb(m: &Master, name: &str, loc: Vec<(String, f64)>, rng: &mut Rng) -> Master {
    let mut b = m.clone();
    b.name = name.into();
    b.style = name.into();
    b.location = loc;
    b.features = None;
    for g in b.glyphs.iter_mut() {
        if g.advance > 0.0 {
            g.advance += rng.range(0, 90) as f64;
        }
        let grow = rng.range(0, 40) as f64;
        for c in g.contours.iter_mut() {
            for p in c.iter_mut() {
                p.0 += grow + (p.0 / 16.0).floor();
                p.1 += (p.1 / 32.0).floor();
            }
        }
        for c in g.components.iter_mut() {
            c.1[4] += grow;
        }
        for a in g.anchors.iter_mut() {
            a.1 += grow;
            a.2 += rng.range(0, 30) as f64;
        }
    }
    for k in b.kerning.iter_mut() {
        k.2 -= rng.range(0, 30) as f64;
    }
    b
}

fn gen_case(rng: &mut Rng, idx: usize) -> Case {
    use fontir::orchestration::Flags;
    let n = rng.range(3, 16) as usize;
    let mut glyphs: Vec<GlyphSrc> = Vec::new();
    let mut simple_names: Vec<String> = Vec::new();
    let mut comp_names: Vec<String> = Vec::new();
    let mut feats: Vec<&'static str> = Vec::new();
    for i in 0..n {
        let name = format!("g{i}");
        let mut g = GlyphSrc::new(&name, *rng.pick(&[0.0, 300.0, 500.0, 512.0, 1000.0]));
        let shape = rng.below(10);
        if shape < 6 || simple_names.is_empty() {
            if shape >= 1 {
                for _ in 0..rng.range(1, 3) {
                    let (x, y) = (rng.range(-100, 300) as f64, rng.range(-200, 300) as f64);
                    g = g.rect(x, y, x + rng.range(1, 500) as f64, y + rng.range(1, 700) as f64);
                }
                simple_names.push(name.clone());
            }
        } else {
            for _ in 0..rng.range(1, 4) {
                let base = if !comp_names.is_empty() && rng.chance(1, 3) { rng.pick(&comp_names).clone() } else { rng.pick(&simple_names).clone() };
                let t = match rng.below(6) {
                    0 => [0.5, 0.0, 0.0, 0.5, rng.range(-100, 300) as f64, 0.0],
                    1 => [-1.0, 0.0, 0.0, 1.0, 300.0, 0.0],
                    _ => ident(rng.range(-200, 400) as f64, rng.range(-100, 300) as f64),
                };
                g = g.comp(&base, t);
            }
            comp_names.push(name.clone());
        }
        if rng.chance(3, 4) {
            g = g.uni(0x61 + i as u32);
        }
        glyphs.push(g);
    }
    let names: Vec<String> = glyphs.iter().map(|g| g.name.clone()).collect();
    let pick = |rng: &mut Rng| names[rng.below(names.len() as u64) as usize].clone();
    let mut expect: Vec<&'static str> = Vec::new();
    // marks
    let marks = rng.chance(1, 3) && !simple_names.is_empty();
    if marks {
        feats.push("marks");
        for g in glyphs.iter_mut() {
            if simple_names.contains(&g.name) {
                *g = g.clone().anchor("top", 250.0, 700.0);
                if rng.chance(1, 2) {
                    *g = g.clone().anchor("bottom", 250.0, -20.0);
                }
            }
        }
        glyphs.push(simple("acutecomb", 0.0, 3).uni(0x0301).anchor("_top", 100.0, 300.0).anchor("top", 100.0, 500.0));
        glyphs.push(simple("dotbelowcomb", 0.0, 5).uni(0x0323).anchor("_bottom", 100.0, 0.0));
    }
    let mut design = Design::single(&format!("C05G{idx}"), glyphs);
    // kerning
    if rng.chance(1, 2) && names.len() >= 3 {
        feats.push("kern");
        let m = &mut design.masters[0];
        for _ in 0..rng.range(1, 6) {
            m.kerning.push((pick(rng), pick(rng), -(rng.range(5, 120) as f64)));
        }
        if rng.chance(1, 2) {
            m.groups.push(("public.kern1.l".into(), vec![names[0].clone(), names[1].clone()]));
            m.groups.push(("public.kern2.r".into(), vec![names[2].clone()]));
            m.kerning.push(("public.kern1.l".into(), "public.kern2.r".into(), -33.0));
        }
    }
    // features
    let mut fea = String::new();
    if rng.chance(1, 2) && names.len() >= 4 {
        if rng.chance(2, 3) {
            feats.push("liga");
            fea.push_str(&format!("feature liga {{ sub {} {} by {}; }} liga;\n", names[0], names[1], names[2]));
        }
        if rng.chance(1, 2) {
            feats.push("ss01-names");
            fea.push_str(&format!("feature ss01 {{ featureNames {{ name \"Alt {}\"; name 1 \"Mac\"; }}; sub {} by {}; }} ss01;\n", idx, names[0], names[3]));
        }
        if rng.chance(1, 3) {
            feats.push("cv01-params");
            fea.push_str(&format!(
                "feature cv01 {{ cvParameters {{ FeatUILabelNameID {{ name \"L\"; }}; FeatUITooltipTextNameID {{ name \"T\"; }}; SampleTextNameID {{ name \"S\"; }}; ParamUILabelNameID {{ name \"P1\"; }}; ParamUILabelNameID {{ name \"P2\"; }}; Character 0x61; }}; sub {} by {}; }} cv01;\n",
                names[1], names[2]
            ));
        }
        if rng.chance(1, 3) {
            feats.push("calt");
            fea.push_str(&format!("lookup swap {{ sub {} by {}; }} swap;\nfeature calt {{ sub {} {}' lookup swap {}; }} calt;\n", names[2], names[0], names[1], names[2], names[3]));
        }
        if rng.chance(1, 4) {
            feats.push("locl");
            fea.push_str(&format!("languagesystem DFLT dflt;\nlanguagesystem latn dflt;\nlanguagesystem latn TRK;\nfeature locl {{ script latn; language TRK; sub {} by {}; }} locl;\n", names[0], names[1]));
            let body = std::mem::take(&mut fea);
            // languagesystem statements must come first
            let (ls, rest): (Vec<&str>, Vec<&str>) = body.lines().partition(|l| l.starts_with("languagesystem"));
            fea = format!("{}\n{}\n", ls.join("\n"), rest.join("\n"));
        }
        if rng.chance(1, 4) {
            feats.push("aalt");
            fea.push_str("feature aalt { feature ss01; feature liga; feature cv01; } aalt;\n");
            if !feats.contains(&"ss01-names") && !feats.contains(&"cv01-params") {
                fea.push_str(&format!("feature salt {{ sub {} from [{} {}]; }} salt;\n", names[0], names[1], names[2]));
            }
        }
        if marks && rng.chance(1, 2) {
            feats.push("mark-filtering-set");
            fea.push_str(&format!("lookup mfs {{ lookupflag UseMarkFilteringSet [acutecomb]; sub {} by {}; }} mfs;\nfeature ccmp {{ lookup mfs; }} ccmp;\n", names[0], names[1]));
        }
        if rng.chance(1, 4) {
            feats.push("fea-gdef");
            let m = if marks { "[acutecomb dotbelowcomb]" } else { "" };
            fea.push_str(&format!("table GDEF {{ GlyphClassDef [{} {}], [{}], {}, ; LigatureCaretByPos {} 100 200; }} GDEF;\n", names[0], names[1], names[2], m, names[2]));
            expect.push("GDEF");
        }
        if rng.chance(1, 5) {
            feats.push("fea-name");
            fea.push_str("table name { nameid 9 \"Designer\"; nameid 9 1 \"Designer Mac\"; nameid 300 \"Extra\"; } name;\n");
        }
        if rng.chance(1, 6) {
            feats.push("fea-pos");
            fea.push_str(&format!("feature kern {{ pos {} {} -25; pos {} <10 0 20 0>; }} kern;\n", names[0], names[1], names[2]));
        }
        if fea.contains(" sub ") || fea.contains("{ sub ") {
            expect.push("GSUB");
        }
    }
    // vertical metrics
    if rng.chance(1, 6) {
        feats.push("vertical");
        let m = &mut design.masters[0];
        m.fontinfo.push(("openTypeVheaVertTypoAscender".into(), "<integer>500</integer>".into()));
        m.fontinfo.push(("openTypeVheaVertTypoDescender".into(), "<integer>-500</integer>".into()));
        m.fontinfo.push(("openTypeVheaVertTypoLineGap".into(), "<integer>0</integer>".into()));
        for g in m.glyphs.iter_mut() {
            g.height = Some(*rng.pick(&[0.0, 1000.0, 1000.0, 880.0]));
        }
        expect.push("vhea");
        expect.push("vmtx");
    }
    if rng.chance(1, 6) {
        feats.push("gasp");
        design.masters[0].fontinfo.push((
            "openTypeGaspRangeRecords".into(),
            "<array><dict><key>rangeMaxPPEM</key><integer>8</integer><key>rangeGaspBehavior</key><array><integer>1</integer></array></dict><dict><key>rangeMaxPPEM</key><integer>65535</integer><key>rangeGaspBehavior</key><array><integer>0</integer><integer>1</integer></array></dict></array>".into(),
        ));
    }
    if rng.chance(1, 6) {
        feats.push("meta");
        design.masters[0].lib.push(("public.openTypeMeta".into(), "<dict><key>dlng</key><array><string>Latn</string><string>Cyrl</string></array><key>slng</key><array><string>Latn</string></array></dict>".into()));
    }
    // variable
    let naxes = match rng.below(5) {
        0 | 1 => 1,
        2 => 2,
        _ => 0,
    };
    if naxes > 0 {
        feats.push(if naxes == 1 { "variable-1" } else { "variable-2" });
        design.axes.push(AxisSrc { name: "Weight".into(), tag: "wght".into(), min: 400.0, default: 400.0, max: 900.0, map: vec![], hidden: false });
        if naxes == 2 {
            design.axes.push(AxisSrc { name: "Width".into(), tag: "wdth".into(), min: 75.0, default: 100.0, max: 100.0, map: vec![], hidden: rng.chance(1, 3) });
        }
        if rng.chance(1, 3) {
            feats.push("avar-map");
            design.axes[0].map = vec![(400.0, 400.0), (650.0, 700.0), (900.0, 900.0)];
        }
        let base = design.masters[0].clone();
        let dflt: Vec<(String, f64)> = design.axes.iter().map(|a| (a.name.clone(), a.default)).collect();
        design.masters[0].location = dflt.clone();
        let mut loc = dflt.clone();
        loc[0].1 = 900.0;
        design.masters.push(perturb(&base, "Black", loc, rng));
        if rng.chance(1, 2) {
            let mut loc = dflt.clone();
            loc[0].1 = 650.0;
            design.masters.push(perturb(&base, "Semi", loc, rng));
        }
        if naxes == 2 {
            let mut loc = dflt.clone();
            loc[1].1 = 75.0;
            design.masters.push(perturb(&base, "Cond", loc, rng));
            if rng.chance(1, 2) {
                let mut loc = dflt.clone();
                loc[0].1 = 900.0;
                loc[1].1 = 75.0;
                design.masters.push(perturb(&base, "CondBlack", loc, rng));
            }
        }
        if rng.chance(1, 3) {
            feats.push("mvar");
            let k = design.masters.len() - 1;
            design.masters[k].fontinfo.push(("xHeight".into(), "<integer>540</integer>".into()));
            design.masters[k].fontinfo.push(("openTypeOS2StrikeoutPosition".into(), "<integer>310</integer>".into()));
            design.masters[0].fontinfo.push(("openTypeOS2StrikeoutPosition".into(), "<integer>300</integer>".into()));
        }
        if rng.chance(1, 2) {
            feats.push("instances");
            for (k, w) in [400.0, 700.0, 900.0].iter().enumerate() {
                let mut loc = dflt.clone();
                loc[0].1 = *w;
                design.instances.push(InstanceSrc { family: design.family.clone(), style: ["Regular", "Bold", "Black"][k].into(), postscript: if rng.chance(1, 2) { Some(format!("C05G{idx}-I{k}")) } else { None }, location: loc });
            }
        }
        if rng.chance(1, 3) && names.len() >= 2 {
            feats.push("rules");
            design.rules.push(RuleSrc { name: "r0".into(), condsets: vec![vec![("Weight".into(), Some(700.0), Some(900.0))]], subs: vec![(names[0].clone(), names[1].clone())] });
            if naxes == 2 && rng.chance(1, 2) {
                design.rules.push(RuleSrc { name: "r1".into(), condsets: vec![vec![("Weight".into(), Some(500.0), None), ("Width".into(), None, Some(90.0))]], subs: vec![(names[1].clone(), names[0].clone())] });
            }
            expect.push("GSUB");
        }
        expect.extend(["fvar", "gvar", "HVAR", "STAT"]);
    }
    if !fea.is_empty() {
        design.masters[0].features = Some(fea);
    }
    let flags = match rng.below(8) {
        0 => Some(Flags::default() | Flags::FLATTEN_COMPONENTS),
        1 => Some(Flags::default() | Flags::DECOMPOSE_COMPONENTS),
        2 => Some(Flags::default() | Flags::DECOMPOSE_TRANSFORMED_COMPONENTS),
        3 => Some(Flags::PRODUCTION_NAMES),
        4 => Some(Flags::PREFER_SIMPLE_GLYPHS | Flags::KEEP_DIRECTION),
        _ => None,
    };
    let note = json!({"features": feats, "glyphs": design.masters[0].glyphs.len(), "masters": design.masters.len(), "flags": flags.map(|f| f.bits()), "fea": design.masters[0].features});
    Case { label: format!("gen-{idx}"), kind: "generated", design, flags, expect, note }
}

fn probes() -> Vec<Case> {
    let mut v = Vec::new();
    let long = |c: char, n: usize| format!("<string>{}</string>", std::iter::repeat(c).take(n).collect::<String>());
    for (label, keys) in [
        ("name-3-long-strings", vec![("openTypeNameLicense", 'L'), ("openTypeNameDescription", 'D'), ("copyright", 'C')]),
        ("name-4-long-strings", vec![("openTypeNameLicense", 'L'), ("openTypeNameDescription", 'D'), ("copyright", 'C'), ("openTypeNameSampleText", 'S')]),
    ] {
        let mut d = Design::single("ProbeName", vec![simple("a", 500.0, 0).uni(0x61), simple("b", 500.0, 1).uni(0x62)]);
        for (k, c) in &keys {
            d.masters[0].fontinfo.push((k.to_string(), long(*c, 12000)));
        }
        v.push(Case { label: label.into(), kind: "probe", design: d, flags: None, expect: vec!["name"], note: json!({"fontinfo": keys.iter().map(|(k, _)| format!("{k} = 12000 characters")).collect::<Vec<_>>() }) });
    }
    for (label, nb) in [("gdef-carets-100", 100usize), ("gdef-carets-1600", 1600)] {
        let mut glyphs: Vec<GlyphSrc> = (0..nb).map(|i| simple(&format!("b{i}"), 500.0, (i % 50) as i64).uni(0x4E00 + i as u32)).collect();
        glyphs.push(simple("acutecomb", 0.0, 3).uni(0x0301));
        let mut fea = String::from("table GDEF {\n  GlyphClassDef [b0 b1], , [acutecomb], ;\n");
        for i in 0..nb {
            let carets: Vec<String> = (0..22).map(|k| if k == 0 { (i + 1 + 3000).to_string() } else { (k * 10 + i % 7).to_string() }).collect();
            fea.push_str(&format!("  LigatureCaretByPos b{} {};\n", i, carets.join(" ")));
        }
        fea.push_str("} GDEF;\nlookup mfs { lookupflag UseMarkFilteringSet [acutecomb]; sub b0 by b1; } mfs;\nfeature ccmp { lookup mfs; } ccmp;\n");
        let mut d = Design::single("ProbeGdef", glyphs);
        d.masters[0].features = Some(fea);
        v.push(Case { label: label.into(), kind: "probe", design: d, flags: None, expect: vec!["GDEF", "GSUB"], note: json!({"fea": format!("table GDEF with LigatureCaretByPos (22 carets) for each of {nb} glyphs; a GSUB lookup with UseMarkFilteringSet")}) });
    }
    for (label, len) in [("glyph-name-255", 255usize), ("glyph-name-300", 300)] {
        let name: String = std::iter::repeat('x').take(len).collect();
        let d = Design::single("ProbePost", vec![simple("a", 500.0, 0).uni(0x61), simple(&name, 500.0, 1).uni(0x62), simple("c", 500.0, 2).uni(0x63)]);
        v.push(Case { label: label.into(), kind: "probe", design: d, flags: Some(fontir::orchestration::Flags::PREFER_SIMPLE_GLYPHS), expect: vec![], note: json!({"glyph_name_bytes": len}) });
    }
    v
}

// ---------------------------------------------------------------------------------------------
// post names: every path that can change a name between the source and the Pascal string

struct PostCase {
    label: String,
    /// source glyph names after .notdef, in glyph order
    names: Vec<String>,
    /// public.postscriptNames (None = key absent)
    rename: Option<Vec<(String, String)>>,
    production: bool,
}

fn xs(c: char, n: usize) -> String {
    std::iter::repeat(c).take(n).collect()
}

fn post_probes() -> Vec<PostCase> {
    let mut v = Vec::new();
    let mut add = |label: String, names: Vec<String>, rename: Option<Vec<(String, String)>>, production: bool| v.push(PostCase { label, names, rename, production });
    for l in [253usize, 254, 255] {
        let x = xs('a', l);
        add(format!("post-twin-{l}"), vec![x.clone(), "twin".into()], Some(vec![("twin".into(), x.clone())]), true);
        add(format!("post-both-mapped-{l}"), vec!["g1".into(), "g2".into(), "g3".into()], Some(vec![("g1".into(), x.clone()), ("g2".into(), x.clone())]), true);
        // equal only after the illegal characters are stripped
        let mut y = x.clone();
        y.insert(l / 2, '-');
        add(format!("post-strip-collision-{l}"), vec![x.clone(), y.clone()], Some(vec![]), true);
        let z = format!("{}\u{e9} {}", &x[..l / 3], &x[l / 3..]);
        add(format!("post-strip-collision-mapped-{l}"), vec!["p".into(), "q".into()], Some(vec![("p".into(), x.clone()), ("q".into(), z)]), true);
        // production names off: the map is ignored, names are written as they are
        add(format!("post-twin-{l}-production-off"), vec![x.clone(), "twin".into()], Some(vec![("twin".into(), x.clone())]), false);
    }
    // a long source name that fits once cleaned
    add("post-shrinks-to-fit".into(), vec!["a".into(), format!("{}- \u{e9}-", xs('b', 253))], Some(vec![]), true);
    add("post-too-long-even-cleaned".into(), vec!["a".into(), format!("{}-", xs('b', 256))], Some(vec![]), true);
    // a literal X.1 next to duplicates of X (253 bytes): .2 .. .9 fit, .10 does not
    for (k, literal_first) in [(1usize, true), (8, true), (9, true), (9, false), (2, false)] {
        let x = xs('c', 253);
        let mut names = vec![];
        if literal_first {
            names.push(format!("{x}.1"));
        }
        names.push(x.clone());
        let mut rn = vec![];
        for d in 0..k {
            names.push(format!("d{d}"));
            rn.push((format!("d{d}"), x.clone()));
        }
        if !literal_first {
            names.push(format!("{x}.1"));
        }
        add(format!("post-literal-suffix-{k}-{}", if literal_first { "first" } else { "last" }), names, Some(rn), true);
    }
    add("post-short-collisions".into(), vec!["a".into(), "b".into(), "c".into(), "a.1".into(), "a-".into()], Some(vec![("b".into(), "a".into()), ("c".into(), "a".into())]), true);
    add("post-no-map".into(), vec![xs('e', 255), xs('e', 254)], None, true);
    v
}

fn gen_post_case(rng: &mut Rng, idx: usize) -> PostCase {
    let l = rng.range(250, 256) as usize;
    let c = *rng.pick(&['a', 'Z', '7', '_']);
    let x = xs(c, l);
    let n = rng.range(2, 13) as usize;
    let dirty = |rng: &mut Rng, s: &str| {
        let mut y = s.to_string();
        for _ in 0..rng.range(1, 3) {
            let mut pos = rng.below(y.len() as u64 + 1) as usize;
            while !y.is_char_boundary(pos) {
                pos -= 1;
            }
            y.insert_str(pos, *rng.pick(&["-", " ", "\u{e9}", "+", "\u{4e2d}"]));
        }
        y
    };
    let variant = |rng: &mut Rng| -> String {
        match rng.below(9) {
            0 | 1 | 2 => x.clone(),
            3 => dirty(rng, &x),
            4 => format!("{x}.{}", rng.range(1, 11)),
            5 => x[..l - rng.range(1, 3) as usize].to_string(),
            6 => dirty(rng, &x[..l - 1]),
            7 => (*rng.pick(&["a", "a.1", "b", "a-", "a.2"])).to_string(),
            _ => format!("{x}x"),
        }
    };
    let mut names: Vec<String> = Vec::new();
    let mut rename = Vec::new();
    for i in 0..n {
        // the source name is either one of the variants itself or a short name mapped to one
        let own = if rng.chance(1, 3) { variant(rng) } else { format!("s{i}") };
        if names.contains(&own) || own == ".notdef" {
            names.push(format!("u{i}"));
        } else {
            names.push(own);
        }
        if rng.chance(2, 3) {
            rename.push((names[i].clone(), variant(rng)));
        }
    }
    let rename = if rng.chance(1, 8) { None } else { Some(rename) };
    PostCase { label: format!("post-gen-{idx}"), names, rename, production: rng.chance(7, 8) }
}

/// glyph names of a version 2 post table, as bytes (standard names for indices below 258)
fn post_names_by_hand(font: &[u8], n: usize) -> Option<Vec<Vec<u8>>> {
    let p = sfnt::table(font, b"post")?;
    if be32(p, 0)? != 0x00020000 {
        return None;
    }
    let ng = be16(p, 32)? as usize;
    let mut strings: Vec<Vec<u8>> = Vec::new();
    let mut q = 34 + 2 * ng;
    while q < p.len() {
        let l = p[q] as usize;
        strings.push(p.get(q + 1..q + 1 + l)?.to_vec());
        q += 1 + l;
    }
    let mut out = Vec::new();
    for g in 0..n {
        let idx = be16(p, 34 + 2 * g)? as usize;
        out.push(if idx < 258 {
            write_fonts::read::tables::post::DEFAULT_GLYPH_NAMES[idx].as_bytes().to_vec()
        } else {
            strings.get(idx - 258)?.clone()
        });
    }
    Some(out)
}

fn run_post_case(cx: &mut Ctx, pc: &PostCase, outcomes: &mut BTreeMap<String, usize>, notes: &mut Vec<String>) {
    use fontir::orchestration::Flags;
    let mut glyphs = vec![simple(".notdef", 500.0, 0)];
    for (i, n) in pc.names.iter().enumerate() {
        glyphs.push(simple(n, 500.0, i as i64 + 1).uni(0x100 + i as u32));
    }
    let order: Vec<String> = glyphs.iter().map(|g| g.name.clone()).collect();
    let mut d = Design::single("PostNames", glyphs);
    d.masters[0].glyph_order = Some(order.clone());
    if let Some(rn) = &pc.rename {
        let mut x = String::from("<dict>");
        for (k, v) in rn {
            x.push_str(&format!("<key>{}</key><string>{}</string>", xml_escape(k), xml_escape(v)));
        }
        x.push_str("</dict>");
        d.masters[0].lib.push(("public.postscriptNames".into(), x));
    }
    let flags = if pc.production { Flags::default() } else { Flags::PREFER_SIMPLE_GLYPHS };
    let dir = scratch_dir("c05p");
    let path = d.write(dir.path());
    let src = json!({"glyph_order": order, "public.postscriptNames": pc.rename, "production_names": pc.production});
    let impl_names: Option<Option<Vec<Vec<u8>>>> = match compile_path(&path, Some(flags), None) {
        Outcome::Font(b) => {
            *outcomes.entry("post-names:font".into()).or_default() += 1;
            evaluate(cx, &pc.label, "post-names", &b, &[], src.clone());
            // read the names by hand: read-fonts refuses a Pascal string that is not ASCII, fontc
            // writes the UTF-8 bytes of a source name as they are when production names are off
            let names = post_names_by_hand(&b, order.len());
            if names.as_ref().map(|v| v.iter().any(|n| !n.is_ascii())).unwrap_or(false) {
                *outcomes.entry("post-names:font-with-non-ascii-post-name".into()).or_default() += 1;
            }
            Some(Some(names.unwrap_or_default()))
        }
        Outcome::Error(e) => {
            *outcomes.entry("post-names:error".into()).or_default() += 1;
            if e.contains("post table limit") {
                Some(None)
            } else {
                if notes.len() < 30 {
                    notes.push(format!("{}: error: {}", pc.label, e.chars().take(160).collect::<String>()));
                }
                None
            }
        }
        Outcome::Panic(e) => {
            *outcomes.entry("post-names:panic".into()).or_default() += 1;
            if notes.len() < 30 {
                notes.push(format!("{}: panic: {}", pc.label, e.chars().take(160).collect::<String>()));
            }
            None
        }
    };
    if let Some(im) = impl_names {
        let cname = |b: &[u8]| format!("[{}]", b.iter().map(|x| x.to_string()).collect::<Vec<_>>().join(";"));
        let names = format!("[{}]", order.iter().map(|n| cname(n.as_bytes())).collect::<Vec<_>>().join(";"));
        let rn = match (&pc.rename, pc.production) {
            (Some(rn), true) => format!(
                "(Some [{}])",
                rn.iter().filter_map(|(k, v)| order.iter().position(|o| o == k).map(|i| format!("({},{})", i, cname(v.as_bytes())))).collect::<Vec<_>>().join(";")
            ),
            _ => "None".to_string(),
        };
        let im_s = match &im {
            None => "None".to_string(),
            Some(v) => format!("(Some [{}])", v.iter().map(|n| cname(n)).collect::<Vec<_>>().join(";")),
        };
        let coq = format!("post_agree {names} {rn} {im_s}");
        emit_case(cx.id, "post-names", coq, None, true, format!("p:{}", pc.label), json!({"case": pc.label, "source": src, "impl": if im.is_some() { "font" } else { "length error" }}));
        cx.id += 1;
    }
}

fn testdata_sources() -> Vec<std::path::PathBuf> {
    fn rec(dir: &std::path::Path, depth: usize, out: &mut Vec<std::path::PathBuf>) {
        let Ok(rd) = std::fs::read_dir(dir) else { return };
        for e in rd.flatten() {
            let p = e.path();
            let ext = p.extension().and_then(|x| x.to_str()).unwrap_or("").to_string();
            match ext.as_str() {
                "ufo" | "designspace" | "glyphs" | "glyphspackage" => out.push(p),
                "fontra" | "rcjk" => {}
                _ if p.is_dir() && depth < 2 => rec(&p, depth + 1, out),
                _ => {}
            }
        }
    }
    let mut v = Vec::new();
    rec(std::path::Path::new("/repo/resources/testdata"), 0, &mut v);
    v.sort();
    v
}

// ---------------------------------------------------------------------------------------------
// mutants (inputs of the checkers that are NOT fontc outputs: both sides must reject them)

fn mutate_bytes(rng: &mut Rng, b: &[u8]) -> Option<(Vec<u8>, &'static str)> {
    let (_, dir) = sfnt::directory(b)?;
    let n = dir.len();
    let mut m = b.to_vec();
    let which = rng.below(9);
    let what = match which {
        0 => {
            let r = rng.pick(&dir);
            if r.length == 0 {
                return None;
            }
            let mut o = r.offset as usize + rng.below(r.length as u64) as usize;
            if &r.tag == b"head" && (8..12).contains(&(o - r.offset as usize)) {
                o = r.offset as usize;
            }
            m[o] ^= 0x40;
            "body-byte-flipped"
        }
        1 => {
            if n < 2 {
                return None;
            }
            let i = rng.below(n as u64 - 1) as usize;
            let (a, c) = (12 + 16 * i, 12 + 16 * (i + 1));
            for k in 0..16 {
                m.swap(a + k, c + k);
            }
            "directory-records-swapped"
        }
        2 => {
            let h = dir.iter().find(|r| &r.tag == b"head")?;
            m[h.offset as usize + 11] ^= 1;
            "adjustment-changed"
        }
        3 => {
            let r = dir.iter().find(|r| r.length % 4 != 0)?;
            m[(r.offset + r.length) as usize] = 0x20;
            "padding-nonzero"
        }
        4 => {
            let i = rng.below(n as u64) as usize;
            let o = be32(&m, 12 + 16 * i + 8)?;
            m[12 + 16 * i + 8..12 + 16 * i + 12].copy_from_slice(&(o + 4).to_be_bytes());
            "offset-shifted"
        }
        5 => {
            m[7] ^= 0x10;
            "search-range-changed"
        }
        6 => {
            let i = dir.iter().position(|r| &r.tag == b"name")?;
            m[12 + 16 * i + 3] = b'f';
            "required-tag-renamed"
        }
        7 => {
            m.truncate(m.len() - 4);
            "truncated"
        }
        _ => {
            let i = rng.below(n as u64) as usize;
            m[12 + 16 * i + 7] ^= 2;
            "checksum-field-changed"
        }
    };
    Some((m, what))
}

fn mutate_abs(rng: &mut Rng, a: &Abs) -> Option<(Abs, &'static str)> {
    let mut m = a.clone();
    let ng = a.glyphs.len() as u64;
    let comps: Vec<usize> = a.glyphs.iter().enumerate().filter(|(_, g)| matches!(g, Glyph::Composite(_))).map(|(i, _)| i).collect();
    let what = match rng.below(14) {
        0 => {
            let i = *comps.first()?;
            if let Glyph::Composite(c) = &mut m.glyphs[i] {
                c.push(ng);
            }
            "component-out-of-range"
        }
        1 => {
            let i = *rng.pick(&comps.get(..)?.to_vec().get(..).filter(|v| !v.is_empty())?);
            if let Glyph::Composite(c) = &mut m.glyphs[i] {
                c.push(i as u64);
            }
            m.maxp.elems += 1;
            "self-reference"
        }
        2 => {
            // a two-glyph cycle through the first simple glyph's slot
            let i = *comps.first()?;
            let first = match &a.glyphs[i] {
                Glyph::Composite(c) => *c.first()? as usize,
                _ => return None,
            };
            if first >= a.glyphs.len() {
                return None;
            }
            m.glyphs[first] = Glyph::Composite(vec![i as u64]);
            "two-cycle"
        }
        3 => {
            if comps.is_empty() || m.maxp.depth == 0 {
                return None;
            }
            m.maxp.depth -= 1;
            "maxp-depth-lowered"
        }
        4 => {
            if comps.is_empty() || m.maxp.cpts == 0 {
                return None;
            }
            m.maxp.cpts -= 1;
            "maxp-composite-points-lowered"
        }
        5 => {
            m.maxp.glyphs += 1;
            "maxp-glyph-count"
        }
        6 => {
            m.hmtx.1 += 2;
            "hmtx-length"
        }
        7 => {
            m.name_refs.push(29999);
            "name-id-missing"
        }
        8 => {
            let l = m.gsub.as_mut().or(m.gpos.as_mut())?;
            let k = l.lookups.first_mut()?;
            k.glyphs.push(ng);
            "lookup-glyph-out-of-range"
        }
        9 => {
            let l = m.gsub.as_mut().or(m.gpos.as_mut())?;
            let nl = l.lookups.len() as u64;
            l.features.first_mut()?.push(nl);
            "lookup-index-out-of-range"
        }
        10 => {
            let l = m.gpos.as_mut().or(m.gsub.as_mut())?;
            let nf = l.features.len() as u64;
            l.langsys.first_mut()?.1.push(nf);
            "feature-index-out-of-range"
        }
        11 => {
            let h = m.hvar.as_mut()?;
            let r = h.0.regions;
            h.0.data.first_mut()?.1.push(r);
            "region-index-out-of-range"
        }
        12 => {
            let g = m.gvar.as_mut()?;
            g.0 += 1;
            "gvar-axis-count"
        }
        _ => {
            m.cmap.push(ng + 3);
            "cmap-glyph-out-of-range"
        }
    };
    Some((m, what))
}

// ---------------------------------------------------------------------------------------------

fn run_case(cx: &mut Ctx, c: &Case, outcomes: &mut BTreeMap<String, usize>, notes: &mut Vec<String>) {
    let dir = scratch_dir("c05");
    let path = c.design.write(dir.path());
    let out = compile_path(&path, c.flags, None);
    match out {
        Outcome::Font(b) => {
            *outcomes.entry(format!("{}:font", c.kind)).or_default() += 1;
            evaluate(cx, &c.label, c.kind, &b, &c.expect, c.note.clone());
        }
        Outcome::Error(e) => {
            *outcomes.entry(format!("{}:error", c.kind)).or_default() += 1;
            if notes.len() < 30 {
                notes.push(format!("{}: error: {}", c.label, e.chars().take(160).collect::<String>()));
            }
        }
        Outcome::Panic(e) => {
            *outcomes.entry(format!("{}:panic", c.kind)).or_default() += 1;
            if notes.len() < 30 {
                notes.push(format!("{}: panic: {}", c.label, e.chars().take(160).collect::<String>()));
            }
        }
    }
}

fn main() {
    let args: Vec<String> = std::env::args().collect();
    let args = &args[1..];
    let seed = arg_val(args, "--seed", 1);
    let n = arg_val(args, "--n", 60) as usize;
    let tstride = arg_val(args, "--tstride", 1).max(1) as usize;
    let big = arg_val(args, "--big", 1200) as usize;
    let tcoq = arg_val(args, "--tcoq", 1).max(1) as usize;
    let mutants = arg_val(args, "--mutants", 80) as usize;
    // head.modified is the build time unless SOURCE_DATE_EPOCH is set: fix it so that the emitted
    // terms are a function of the seed alone
    if std::env::var("SOURCE_DATE_EPOCH").is_err() {
        unsafe { std::env::set_var("SOURCE_DATE_EPOCH", "1700000000") };
    }
    if std::env::var("C05_DEBUG").is_err() {
        quiet_panics();
    }
    let mut rng = Rng::new(seed);
    let mut cx = Ctx {
        id: 0,
        fonts: 0,
        failing_fonts: 0,
        container_cases: 0,
        table_cases: 0,
        skipped_container: 0,
        skipped_tables: 0,
        predicate_only: 0,
        emit_coq: true,
        keys: BTreeMap::new(),
        tables_seen: BTreeMap::new(),
        glyph_hist: BTreeMap::new(),
        max_words: arg_val(args, "--maxwords", 12000) as usize,
        max_abs: arg_val(args, "--maxabs", 30000) as usize,
        keep: Vec::new(),
    };
    let mut outcomes: BTreeMap<String, usize> = BTreeMap::new();
    let mut notes: Vec<String> = Vec::new();

    // debugging aid: --file <font> evaluates one existing font file
    if let Some(i) = args.iter().position(|a| a == "--file") {
        let b = std::fs::read(&args[i + 1]).expect("read font");
        evaluate(&mut cx, &args[i + 1], "file", &b, &[], json!({}));
        if let Some(p) = FontRef::new(&b).ok().and_then(|f| f.post().ok()) {
            for g in 0..p.num_names() {
                eprintln!("post name {g}: {:?}", p.glyph_name(write_fonts::types::GlyphId16::new(g as u16)).map(|s| (s.len(), s.chars().take(12).collect::<String>())));
            }
            if let Some(sd) = p.string_data() {
                for (k, s) in sd.iter().enumerate() {
                    eprintln!("string {k}: {:?}", s.map(|s| s.as_str().len()));
                }
            }
        }
        return;
    }

    // debugging aid: C05_ONLY_POST=1 runs only the post-name stream (same PRNG path)
    let only_post = std::env::var("C05_ONLY_POST").is_ok();
    // T: test data (phase of the stride from the seed, so different seeds cover different files)
    let sources = if only_post { Vec::new() } else { testdata_sources() };
    let phase = (seed as usize) % tstride;
    let mut tcount = 0usize;
    for (i, p) in sources.iter().enumerate() {
        if i % tstride != phase {
            continue;
        }
        tcount += 1;
        cx.emit_coq = tcount % tcoq == (seed as usize) % tcoq;
        let label = format!("testdata/{}", p.strip_prefix("/repo/resources/testdata").unwrap().display());
        match compile_path(p, None, None) {
            Outcome::Font(b) => {
                *outcomes.entry("testdata:font".into()).or_default() += 1;
                evaluate(&mut cx, &label, "testdata", &b, &[], json!({"path": p}));
            }
            Outcome::Error(_) => *outcomes.entry("testdata:error".into()).or_default() += 1,
            Outcome::Panic(e) => {
                *outcomes.entry("testdata:panic".into()).or_default() += 1;
                if notes.len() < 30 {
                    notes.push(format!("{label}: panic: {}", e.chars().take(120).collect::<String>()));
                }
            }
        }
    }
    cx.emit_coq = true;
    // L, P, G
    for c in limit_cases(big).iter().chain(probes().iter()).filter(|_| !only_post) {
        run_case(&mut cx, c, &mut outcomes, &mut notes);
    }
    for i in 0..n {
        let c = gen_case(&mut rng, i);
        if !only_post {
            run_case(&mut cx, &c, &mut outcomes, &mut notes);
        }
    }
    // post names: fixed probes, then generated
    for pc in post_probes() {
        run_post_case(&mut cx, &pc, &mut outcomes, &mut notes);
    }
    for i in 0..(n / 4).max(10) {
        let pc = gen_post_case(&mut rng, i);
        run_post_case(&mut cx, &pc, &mut outcomes, &mut notes);
    }
    // M
    let keep = std::mem::take(&mut cx.keep);
    let mut mutant_kinds: BTreeMap<&'static str, usize> = BTreeMap::new();
    let mut accepted_mutants = 0usize;
    if !keep.is_empty() {
        for k in 0..mutants {
            let (label, bytes, abs) = rng.pick(&keep);
            if k % 2 == 0 {
                if let Some((m, what)) = mutate_bytes(&mut rng, bytes) {
                    let ok = check_sfnt(&m).is_empty();
                    accepted_mutants += ok as usize;
                    *mutant_kinds.entry(what).or_default() += 1;
                    if m.len() % 4 == 0 {
                        let coq = format!("Bool.eqb (check_sfnt {}) {}", cwords(&m), coq_bool(ok));
                        emit_case(cx.id, "container-mutant", coq, None, true, format!("cm:{k}:{label}:{what}"), json!({"case": label, "mutation": what, "impl_ok": ok}));
                        cx.id += 1;
                    }
                }
            } else if let Some((m, what)) = mutate_abs(&mut rng, abs) {
                let ok = check_abs(&m).is_empty();
                accepted_mutants += ok as usize;
                *mutant_kinds.entry(what).or_default() += 1;
                let coq = format!("Bool.eqb (check_abs {}) {}", cabs(&m), coq_bool(ok));
                emit_case(cx.id, "tables-mutant", coq, None, true, format!("tm:{k}:{label}:{what}"), json!({"case": label, "mutation": what, "impl_ok": ok}));
                cx.id += 1;
            }
        }
    }
    emit_stat(json!({
        "testdata_sources": sources.len(), "testdata_compiled": tcount, "outcomes": outcomes, "fonts_checked": cx.fonts,
        "fonts_failing_the_predicate": cx.failing_fonts, "violation_keys": cx.keys, "tables_seen": cx.tables_seen,
        "glyph_count_histogram": cx.glyph_hist, "container_cases": cx.container_cases, "table_cases": cx.table_cases,
        "fonts_too_large_for_container_term": cx.skipped_container, "fonts_too_large_for_tables_term": cx.skipped_tables,
        "fonts_checked_by_the_predicate_only": cx.predicate_only, "mutants": mutant_kinds, "mutants_accepted_by_predicate": accepted_mutants, "notes": notes,
    }));
}
